"""C18 -- no state leaks between runs; results deterministic; inputs never modified.

Three kinds of cases:

* `memohist`  a key sequence through the REAL `pybtex.utils.memoize` (small capacities) around a counting
              function, compared call by call with the model (`Memo.call`): result, did the function run,
              evictions, `memory`, `history` (closure cells read by introspection);
* `worldhist` a history of ABSTRACT API calls (the model's `Call` alphabet) with a fixed probe repeated at every
              position: executed for real in this process, every call's result and the observable world after it
              (month table, errors.*, registry, both name caches) compared with the model; every probe result
              compared with the same probe in a FRESH interpreter process and with the model's fresh-world value;
* `freshhist` histories over CONCRETE calls the model cannot predict (tests/data/xampl.bib through every style,
              backend and format; malformed input): oracle only (fresh process, month table, frozen inputs, caches).
"""
import ast
import collections
import io as _io
import itertools
import json
import os
import re
import subprocess
import sys

import compat
from compat import REPO, VERIF
from props.base import corpus_for  # noqa: F401

ID = 'C18'
LEAN_MODULES = ['PybtexModel.Props.C18']
SERIAL = False
THEOREMS = {
    'C18_memo_transparent': 'memoize: after EVERY call sequence the cache is part of the graph of f, holds at most `capacity` entries and '
                            '`history` lists exactly its keys, oldest first, once each; hence a memoised call returns f(args) whatever was '
                            'called before, also after more than `capacity` distinct arguments',
    'C18_memo_transparent_nested': 'the same for a memoised function that uses other state (the name formatter on top of the cache of the name splitter)',
    'C18_caches_invariant': 'both caches of pybtex/bibtex/builtins.py satisfy the invariant (regenerated capacity) in a fresh interpreter and after '
                            'every history of calls; the wrapper\'s own bookkeeping never fails',
    'C18_months_constant': 'no history of public calls (readers redefining jan, direct LowLevelParser use with its default or a private table, '
                           'engine runs, failing runs) changes month_names, errors.strict or the plug-in registry; captured_errors is None again after every call',
    'C18_months_constant_neg_aliased': 'witness that the model can fail: a LowLevelParser whose `macros` IS the module table (the default of the pinned '
                                       'tree, DESIGN section 4 #24) alters month_names and the next reader sees the macro; with the repaired default it does not',
    'C18_readers_independent': 'two readers never observe each other\'s @string macros, preambles or entries, whatever the first one read; '
                               'the files of ONE reader accumulate them (reading ds1++ds2 = reading ds2 with the reader state ds1 left)',
    'C18_deterministic': 'the result of a call is a function of the call and the constant part of the world (month table, strict, captured_errors, '
                         'registry): worlds differing only in cache contents and error_code give equal results and again such worlds',
    'C18_history_independent': 'for every finite history h of public calls at top level and every probe p: result p (run h w0) = result p w0',
    'C18_history_independent_fresh': '... in particular w0 = the state of a fresh interpreter',
}
for _n in ('C18_memo_transparent', 'C18_months_constant', 'C18_readers_independent', 'C18_deterministic', 'C18_history_independent'):
    THEOREMS[_n + '_nonvacuous'] = 'the hypotheses of %s are satisfied by a concrete non-trivial instance' % _n

RULE = ('memohist: EVERY key sequence of length <= 6 over 4 keys for capacities 2 and 3 (and capacity 2 with one raising key), plus capacity 1 up to '
        'length 4; worldhist: seeded random histories of <= 5 (quick) / <= 8 (thorough) calls over {parse .bib with @string in strict/capture/'
        'non-strict mode, parse yaml, parse bibtexml, to_string each format, Python format_bibliography, BibTeX-engine run (unsrt/plain/missing .bst), '
        'Python-engine run (unsrt/plain/alpha/unknown), format.name$ (incl. too many commas, broken format), direct LowLevelParser (default / own table), '
        'batches of > capacity distinct format.name$ calls} with a 4-call probe (parse + both engines + one name format) repeated at every position and '
        'compared with a fresh /venv/bin/python process; freshhist: tests/data/xampl.bib through styles/backends/formats; '
        'non-trivial = memo sequence with more distinct keys than capacity, or non-empty history; distinct by case JSON')
TRUSTED = ['introspection of the closure cells `memory`/`history`/`capacity` of pybtex.utils.memoize (harness only)',
           'a subprocess of /venv/bin/python with the same harness module is "a fresh interpreter"',
           'the C04/C11/C12 models (name splitting, Person, format_name) are what the driver uses for the un-modelled name code',
           'Python == on the argument tuples of the memoised functions is structural equality (str and int arguments only)']
ASSUMPTIONS = ['everything outside the named state (month table, the two memo closures, errors.*, _RUNTIME_PLUGINS) reaches it only through '
               'report_error, format.name$, find_plugin and a fresh .bib reader; hidden caches of re / PyYAML / xml / latexcodec are covered only '
               'empirically (fresh-process comparison)',
               'histories run at top level (not inside an enclosing errors.capture())',
               '.bib literals in modelled documents are white-space normalised; tokenising is C01\'s subject']

PY = '/venv/bin/python'
HARNESS_DIR = os.path.dirname(os.path.dirname(os.path.abspath(__file__)))


def canon(x):
    return json.dumps(x, sort_keys=True, ensure_ascii=False)


# ------------------------------------------------------------------------------------------------
# state of the real process
# ------------------------------------------------------------------------------------------------

_LITERAL = None


def month_literal():
    """`month_names` as WRITTEN in the source file of the tree under test."""
    global _LITERAL
    if _LITERAL is None:
        path = os.path.join(REPO, 'pybtex', 'database', 'input', 'bibtex.py')
        tree = ast.parse(open(path, encoding='utf-8').read())
        for node in tree.body:
            if isinstance(node, ast.Assign) and any(getattr(t, 'id', None) == 'month_names' for t in node.targets):
                _LITERAL = ast.literal_eval(node.value)
        if _LITERAL is None:
            raise RuntimeError('month_names literal not found')
    return _LITERAL


def _cells(fn):
    code = getattr(fn, '__code__', None)
    if code is None or not fn.__closure__:
        return {}
    return {n: c.cell_contents for n, c in zip(code.co_freevars, fn.__closure__)}


def name_caches():
    """(cells of the _split_names closure, cells of the memoised formatter closure) or (None, None)."""
    from pybtex.bibtex import builtins
    sc = _cells(builtins._split_names)
    fc = {}
    for name in ('_format_name_and_reports', '_format_name'):
        f = getattr(builtins, name, None)
        if f is not None and 'memory' in _cells(f):
            fc = _cells(f)
            break
    ok = lambda c: isinstance(c.get('memory'), dict) and isinstance(c.get('history'), collections.deque)
    return (sc if ok(sc) else None), (fc if ok(fc) else None)


def reset_process_state():
    from pybtex import errors
    from pybtex.plugin import _RUNTIME_PLUGINS
    from pybtex.database.input import bibtex as B
    errors.strict = True
    errors.error_code = 0
    errors.captured_errors = None
    _RUNTIME_PLUGINS.clear()
    lit = month_literal()
    if B.month_names != lit or list(B.month_names) != list(lit):
        B.month_names.clear()
        B.month_names.update(lit)
    for c in name_caches():
        if c is not None:
            c['memory'].clear()
            c['history'].clear()


def canon_err(e):
    from pybtex.exceptions import PybtexError
    n = type(e).__name__
    if not isinstance(e, PybtexError):
        return ['INTERNAL:' + n if n != 'IndexError' else 'IndexError', '']
    msg = e.args[0] if e.args else ''
    if n == 'UndefinedMacro':
        return [n, msg]
    if n == 'BibliographyDataError':
        m = re.match(r'repeated bibliography entry: (.*)$', msg, re.S)
        return [n, m.group(1)] if m else [n, '']
    if n == 'DuplicateField':
        m = re.match(r'entry with key (.*) has a duplicate (.*) field$', msg, re.S)
        return [n, m.group(1) + '/' + m.group(2)] if m else [n, '']
    if n == 'InvalidNameString':
        m = re.match(r'Too many commas in (.*)$', msg, re.S)
        try:
            return [n, ast.literal_eval(m.group(1))]
        except Exception:
            return [n, msg]
    if n == 'PluginNotFound':
        m = re.match(r'plugin (.*) not found$', msg, re.S)
        return [n, m.group(1)] if m else [n, '']
    return [n, '']


def world_view(brief=False):
    from pybtex import errors
    from pybtex.plugin import _RUNTIME_PLUGINS
    from pybtex.database.input import bibtex as B
    sc, fc = name_caches()
    w = {'months': [[k, v] for k, v in B.month_names.items()], 'strict': errors.strict, 'error_code': errors.error_code,
         'captured': None if errors.captured_errors is None else [canon_err(e) for e in errors.captured_errors],
         'plugins': sum(len(v) for v in _RUNTIME_PLUGINS.values()),
         'split_size': len(sc['memory']) if sc else None, 'fmt_size': len(fc['memory']) if fc else None}
    if not brief:
        w['split_keys'] = [k[0] for k in sc['history']] if sc else None
        w['fmt_keys'] = [list(k) for k in fc['history']] if fc else None
    return w


def cache_problems():
    """the invariant of memoize on the two real closures"""
    out = []
    for label, c in zip(('_split_names', '_format_name'), name_caches()):
        if c is None:
            continue
        mem, hist, cap = c['memory'], c['history'], c.get('capacity', 1024)
        if len(mem) > cap:
            out.append('memo_transparent: the cache of %s holds %d entries, capacity %d' % (label, len(mem), cap))
        if list(hist) != list(mem.keys()):
            out.append('memo_transparent: history of %s is not the key list of its cache (%d vs %d entries)' % (label, len(hist), len(mem)))
    return out


def freeze_db(db):
    """canonical JSON of a BibliographyData: entries / fields / persons / preamble"""
    ents = []
    for key, e in db.entries.items():
        ents.append({'key': key, 'ekey': e.key, 'type': e.type, 'fields': [[k, v] for k, v in e.fields.items()],
                     'persons': [[role, [[list(p.first_names), list(p.middle_names), list(p.prelast_names), list(p.last_names),
                                          list(p.lineage_names)] for p in ps]] for role, ps in e.persons.items()]})
    return canon({'entries': ents, 'preamble': list(db.preamble_list)})


# ------------------------------------------------------------------------------------------------
# abstract documents -> .bib text
# ------------------------------------------------------------------------------------------------

def render_parts(parts):
    return ' # '.join('"%s"' % p['lit'] if 'lit' in p else p['ref'] for p in parts)


def render_doc(doc):
    out = []
    for c in doc:
        if c['k'] == 'string':
            out.append('@string{%s = %s}' % (c['name'], render_parts(c['val'])))
        elif c['k'] == 'preamble':
            out.append('@preamble{%s}' % render_parts(c['val']))
        else:
            out.append('@%s{%s,\n  %s\n}' % (c['type'], c['key'], ',\n  '.join('%s = %s' % (n, render_parts(v)) for n, v in c['fields'])))
    return '\n\n'.join(out) + '\n'


YAML_TEXT = '''entries:
  y1:
    type: article
    author:
      - first: Donald
        middle: E.
        last: Knuth
    title: Yaml Title
    journal: Some Journal
    year: "1984"
preamble: "\\\\newcommand{\\\\y}{}"
'''
XML_TEXT = '''<bibtex:file xmlns:bibtex="http://bibtexml.sf.net/">

    <bibtex:entry id="x1">
        <bibtex:article>
            <bibtex:title>Xml Title</bibtex:title>
            <bibtex:journal>Some Journal</bibtex:journal>
            <bibtex:year>1985</bibtex:year>
            <bibtex:author>
                <bibtex:person>
                    <bibtex:first>Leslie</bibtex:first>
                    <bibtex:last>Lamport</bibtex:last>
                </bibtex:person>
                <bibtex:person>
                    <bibtex:first>Donald</bibtex:first>
                    <bibtex:middle>E.</bibtex:middle>
                    <bibtex:last>Knuth</bibtex:last>
                </bibtex:person>
            </bibtex:author>
        </bibtex:article>
    </bibtex:entry>

</bibtex:file>
'''
DB_TEXT = '''@string{jf = "Journal of Foo"}
@preamble{"\\newcommand{\\noop}[1]{}"}
@article{w1, author = "Knuth, Donald E. and de la Fontaine, Jean", title = "A {T}itle", journal = jf, year = 1999, month = mar}
@book{w2, editor = "Lamport, Leslie", title = "Second", publisher = "Pub", year = "2001", crossref = "w1"}
'''


# ------------------------------------------------------------------------------------------------
# executing one call on the real implementation
# ------------------------------------------------------------------------------------------------

def _db_view(db, parser):
    ents = []
    for key, e in db.entries.items():
        ents.append({'key': e.key, 'type': e.type, 'fields': [[k, v] for k, v in e.fields.items()],
                     'persons': [[role, str(p)] for role, ps in e.persons.items() for p in ps]})
    return {'entries': ents, 'preamble': list(db.preamble_list),
            'macros': sorted([k.lower(), v] for k, v in parser.macros.items())}


def _format_name_builtin(names, n, fmt):
    from pybtex.bibtex.interpreter import Interpreter
    from pybtex.bibtex.builtins import builtins
    i = Interpreter(None, 'utf-8')
    i.push(names)
    i.push(n)
    i.push(fmt)
    builtins['format.name$'].execute(i)
    return i.pop()


def _base_call(call, notes):
    """Returns (model-comparable result, concrete result)."""
    c = call['c']
    if c == 'parse':
        from pybtex.plugin import find_plugin
        cls = find_plugin('pybtex.database.input', 'bibtex')
        parser = cls()
        db = parser.data
        for d in call['files']:          # the files of ONE reader (parse_files -> parse_file -> parse_stream -> parse_string)
            db = parser.parse_string(render_doc(d))
        v = _db_view(db, parser)
        return v, {'db': freeze_db(db), 'macros': v['macros']}
    if c == 'lowlevel':
        from pybtex.database.input.bibtex import LowLevelParser, month_names
        text = render_doc(call['doc'])
        arg = call['arg']
        if arg == 'default':
            p = LowLevelParser(text)
        elif arg == 'module':
            p = LowLevelParser(text, macros=month_names)
        else:
            p = LowLevelParser(text, macros=dict((k, v) for k, v in arg['table']))
        low = []
        for command, payload in p:
            cl = command.lower()
            if cl == 'string':
                low.append(['string', payload[0], list(payload[1])])
            elif cl == 'preamble':
                low.append(['preamble', list(payload[0])])
            else:
                low.append(['entry', command, payload[0], [[n, list(v)] for n, v in payload[1]]])
        v = {'low': low, 'macros': [[k, w] for k, w in p.macros.items()]}
        return v, v
    if c == 'fmtname':
        s = _format_name_builtin(call['names'], call['n'], call['fmt'])
        from pybtex.bibtex.names import format_name
        from pybtex.bibtex.utils import split_name_list
        from pybtex import errors
        with errors.capture():
            want = format_name(split_name_list(call['names'])[call['n'] - 1], call['fmt'])
        if s != want:
            notes.append('memo_transparent: format.name$(%r, %r, %r) returned %r, the un-memoised function gives %r' % (
                call['names'], call['n'], call['fmt'], s, want))
        return {'str': s}, {'str': s}
    if c == 'bibtex':
        import pybtex.bibtex
        cits = ['*']
        out = pybtex.bibtex.format_from_strings([render_doc(d) for d in call['files']],
                                                style=os.path.join(REPO, 'tests', 'data', call['style']), citations=cits)
        if cits != ['*']:
            notes.append('inputs_not_modified: the BibTeX engine changed the citation list it was given to %r' % (cits,))
        return {'str': 'bbl'}, {'str': out}
    if c == 'python':
        import pybtex
        cits = ['*']
        out = pybtex.format_from_strings([render_doc(d) for d in call['files']], style=call['style'], citations=cits)
        if cits != ['*']:
            notes.append('inputs_not_modified: the Python engine changed the citation list it was given to %r' % (cits,))
        return {'str': 'bbl'}, {'str': out}
    if c == 'plugin':
        from pybtex import errors
        from pybtex.plugin import find_plugin
        from pybtex.database import parse_string
        group, name, text = call['group'], call['name'], call['text']
        sym = {'str': group + ':' + name}
        if group == 'pybtex.database.input':
            db = parse_string(text, name)
            return sym, {'db': freeze_db(db)}
        cls = find_plugin(group, name)          # PluginNotFound comes first, as in the model
        with errors.capture():
            db = parse_string(text, 'bibtex')
        before = freeze_db(db)
        if group == 'pybtex.database.output':
            out = db.to_string(name)
        elif group == 'pybtex.style.formatting':
            formatted = cls().format_bibliography(db)
            buf = _io.StringIO()
            find_plugin('pybtex.backends', 'latex')().write_to_stream(formatted, buf)
            out = buf.getvalue()
        else:
            raise ValueError(group)
        if freeze_db(db) != before:
            notes.append('inputs_not_modified: %s %s modified the database it was given' % (group, name))
        return sym, {'str': out}
    return _concrete_call(call, notes)


def run_call(call, notes):
    """{'res': what the model predicts, 'full': the concrete outcome (compared with a fresh interpreter)}"""
    import pybtex.io
    from pybtex import errors
    c = call['c']
    if c == 'capture':
        with errors.capture() as errs:
            inner = run_call(call['call'], notes)
            collected = [canon_err(e) for e in errs]
        return {'res': {'res': inner['res'], 'errors': collected}, 'full': {'res': inner['full'], 'errors': collected}}
    if c == 'nonstrict':
        old, old_err = errors.strict, pybtex.io.stderr
        buf = _io.StringIO()
        errors.set_strict_mode(False)
        pybtex.io.stderr = buf
        try:
            inner = run_call(call['call'], notes)
        finally:
            errors.set_strict_mode(old)
            pybtex.io.stderr = old_err
        return {'res': inner['res'], 'full': {'res': inner['full'], 'stderr': buf.getvalue()}}
    try:
        res, full = _base_call(call, notes)
    except Exception as e:  # noqa
        err = canon_err(e)
        return {'res': {'raised': err}, 'full': {'raised': err, 'text': str(e)[:300]}}
    return {'res': res, 'full': full}


# concrete calls of `freshhist` --------------------------------------------------------------------

def _data(name):
    return os.path.join(REPO, 'tests', 'data', name)


def _concrete_call(call, notes):
    from pybtex import errors
    from pybtex.database import parse_file, parse_string
    c = call['c']
    if c == 'x_parse':
        db = parse_file(_data(call['file']), call.get('fmt'))
        return {'str': 'x'}, {'db': freeze_db(db)}
    if c == 'x_bibtex':
        import pybtex.bibtex
        out = pybtex.bibtex.format_from_file(_data(call['bib']), style=_data(call['style']))
        return {'str': 'x'}, {'str': out}
    if c == 'x_python':
        import pybtex
        out = pybtex.format_from_file(_data(call['bib']), style=call['style'], output_backend=call.get('backend'))
        return {'str': 'x'}, {'str': out}
    if c == 'x_convert':
        db = parse_file(_data(call['file']))
        before = freeze_db(db)
        text = db.to_string(call['fmt'])
        if freeze_db(db) != before:
            notes.append('inputs_not_modified: to_string(%r) modified the database' % call['fmt'])
        back = parse_string(text, call['fmt'])
        return {'str': 'x'}, {'text': text, 'back': freeze_db(back)}
    if c == 'x_text':
        db = parse_string(call['text'], call.get('fmt', 'bibtex'))
        return {'str': 'x'}, {'db': freeze_db(db)}
    raise ValueError('unknown call %r' % c)


# fresh interpreter ---------------------------------------------------------------------------------

_FRESH = {}


def _fresh_main():
    call = json.load(sys.stdin)
    notes = []
    out = run_call(call, notes)['full']
    sys.stdout.write('\nRESULT ' + json.dumps(out) + '\n')


def _spawn_fresh(call):
    code = 'import sys; sys.path.insert(0, %r); import props.c18 as m; m._fresh_main()' % HARNESS_DIR
    p = subprocess.run([PY, '-c', code], input=json.dumps(call), stdout=subprocess.PIPE, stderr=subprocess.PIPE,
                       text=True, timeout=300, env=os.environ.copy())
    for line in p.stdout.split('\n'):
        if line.startswith('RESULT '):
            return json.loads(line[7:])
    raise RuntimeError('fresh interpreter failed: %s' % (p.stderr[-600:] or p.stdout[-300:]))


def fresh_result(call):
    k = canon(call)
    if k not in _FRESH:
        _FRESH[k] = _spawn_fresh(call)
    return _FRESH[k]


def prewarm(calls):
    todo = []
    seen = set()
    for c in calls:
        k = canon(c)
        if k not in _FRESH and k not in seen:
            seen.add(k)
            todo.append(c)
    if not todo:
        return
    from concurrent.futures import ThreadPoolExecutor
    with ThreadPoolExecutor(int(os.environ.get('VERIF_JOBS', '16'))) as ex:
        for c, r in zip(todo, ex.map(_spawn_fresh, todo)):
            _FRESH[canon(c)] = r


# ------------------------------------------------------------------------------------------------
# impl
# ------------------------------------------------------------------------------------------------

class Boom(Exception):
    pass


def impl_memo(case):
    from pybtex.utils import memoize
    ran = []
    raising = set(case['raise'])

    def f(k):
        ran.append(k)
        if k in raising:
            raise Boom(k)
        return 10 * k + 1

    g = memoize(f, capacity=case['cap'])
    cells = _cells(g)
    out = []
    for k in case['keys']:
        before = list(cells['history']) if 'history' in cells else None
        n0 = len(ran)
        try:
            r = {'v': g(k)}
        except Boom:
            r = 'raised'
        except Exception as e:  # noqa
            r = 'INTERNAL:' + type(e).__name__
        step = {'r': r, 'ran': len(ran) > n0}
        if 'memory' in cells and 'history' in cells:
            after = list(cells['history'])
            step['memory'] = [[a[0], v] for a, v in cells['memory'].items()]
            step['history'] = [a[0] for a in after]
            step['evicted'] = [a[0] for a in before if a not in after]
        out.append(step)
    return out


def flatten(case):
    """[(call, is_probe, position)]: probe, h1, probe, h2, ..., hn, probe; batches stay one call here."""
    seq = []
    probe = case.get('probe', [])
    for pos, h in enumerate([None] + list(case['history'])):
        if h is not None:
            seq.append((h, False, pos))
        for p in probe:
            seq.append((p, True, pos))
    return seq


def expand_many(call):
    wrap = {'plain': lambda c: c, 'capture': lambda c: {'c': 'capture', 'call': c},
            'nonstrict': lambda c: {'c': 'nonstrict', 'call': c}}[call.get('mode', 'plain')]
    return [wrap({'c': 'fmtname', 'names': '%s%d, %s' % (call['prefix'], i, call.get('first', 'Ann B.')), 'n': 1, 'fmt': call['fmt']})
            for i in range(call['start'], call['start'] + call['count'])]


def impl_world(case):
    notes = []
    steps = []
    probe_full = collections.defaultdict(list)
    lit = month_literal()
    from pybtex.database.input import bibtex as B
    reset_process_state()
    months_bad = False
    try:
        for idx, (call, is_probe, pos) in enumerate(flatten(case)):
            if call['c'] == 'fmtmany':
                rs = [run_call(c, notes) for c in expand_many(call)]
                r = {'res': [x['res'] for x in rs], 'full': [x['full'] for x in rs]}
            else:
                r = run_call(call, notes)
            steps.append({'res': r['res'], 'world': world_view()})
            if is_probe:
                probe_full[pos].append(r['full'])
            if B.month_names != lit and not months_bad:
                # reported once; the table is put back at the end of the case so that the probes that follow show the leak
                months_bad = True
                diff = {k: B.month_names.get(k) for k in sorted(set(B.month_names) | set(lit)) if B.month_names.get(k) != lit.get(k)}
                notes.append('months_constant: after call #%d (%s) month_names differs from its source literal in %r' % (idx, describe(call), diff))
            notes.extend(cache_problems())
        fresh = [fresh_result(p) for p in case.get('probe', [])]
    finally:
        reset_process_state()
    return {'op': case['op'], 'steps': steps, 'probe_full': [probe_full[p] for p in sorted(probe_full)], 'fresh': fresh, 'notes': sorted(set(notes))}


def impl(case):
    if case['op'] == 'memohist':
        return impl_memo(case)
    return impl_world(case)


def describe(call):
    c = call['c']
    if c in ('capture', 'nonstrict'):
        return '%s(%s)' % (c, describe(call['call']))
    if c == 'plugin':
        return '%s:%s' % (call['group'].split('.')[-1], call['name'])
    if c in ('bibtex', 'python'):
        return '%s:%s' % (c, call['style'])
    if c == 'lowlevel':
        return 'lowlevel:%s' % (call['arg'] if isinstance(call['arg'], str) else 'table')
    return c


# ------------------------------------------------------------------------------------------------
# model side
# ------------------------------------------------------------------------------------------------

def to_request(case):
    if case['op'] == 'memohist':
        return case
    if case['op'] == 'freshhist':
        return {'op': 'ping', 's': ''}
    calls = []
    for call, _p, _pos in flatten(case):
        if call['c'] == 'fmtmany':
            ex = expand_many(call)
            for i, c in enumerate(ex):
                calls.append(dict(c, brief=(i + 1 < len(ex))))
        else:
            calls.append(call)
    return {'op': 'worldhist', 'calls': calls}


def _fold(case, items):
    """undo the expansion of batches: one item per case-level call"""
    out = []
    i = 0
    for call, _p, _pos in flatten(case):
        if call['c'] == 'fmtmany':
            n = call['count']
            out.append(items[i:i + n])
            i += n
        else:
            out.append(items[i])
            i += 1
    return out


def _norm_res(r):
    """macro tables of readers are compared as sorted lists"""
    if isinstance(r, dict):
        if 'entries' in r and 'macros' in r:
            return dict(r, macros=sorted(r['macros']))
        if 'res' in r and 'errors' in r:
            return dict(r, res=_norm_res(r['res']))
    return r


def _norm_world(w):
    w = dict(w)
    for k in ('split_keys', 'fmt_keys'):
        if w.get(k) is not None:
            w[k] = sorted(w[k])
    return w


def model_out(case, reply):
    if case['op'] == 'memohist':
        return reply['out']
    if case['op'] == 'freshhist':
        return None
    out = []
    for item in _fold(case, reply['out']):
        if isinstance(item, list):
            out.append({'res': [_norm_res(x['res']) for x in item], 'world': _norm_world(item[-1]['world'])})
        else:
            out.append({'res': _norm_res(item['res']), 'world': _norm_world(item['world'])})
    return out


def compare_view(io):
    if isinstance(io, list):
        return io
    if io.get('op') == 'freshhist':
        return None
    return [{'res': _norm_res_list(s['res']), 'world': _norm_world(s['world'])} for s in io['steps']]


def _norm_res_list(r):
    return [_norm_res(x) for x in r] if isinstance(r, list) else _norm_res(r)


def spec_results(case, reply):
    out = []
    for item in _fold(case, reply['spec']):
        out.append([_norm_res(x) for x in item] if isinstance(item, list) else _norm_res(item))
    return out


# ------------------------------------------------------------------------------------------------
# oracle
# ------------------------------------------------------------------------------------------------

def oracle(case, io, reply):
    fails = []
    if case['op'] == 'memohist':
        spec = reply.get('spec', [])
        cap = case['cap']
        for i, (step, want) in enumerate(zip(io, spec)):
            if step['r'] != want:
                fails.append('memo_transparent: call #%d of %r (capacity %d, raising %r): the memoised function returned %r, the function itself gives %r' % (
                    i, case['keys'], cap, case['raise'], step['r'], want))
                break
            if 'memory' in step:
                if len(step['memory']) > cap or step['history'] != [k for k, _ in step['memory']] or len(set(step['history'])) != len(step['history']):
                    fails.append('memo_transparent: after call #%d of %r (capacity %d): memory=%r history=%r' % (
                        i, case['keys'], cap, step['memory'], step['history']))
                    break
        return fails
    # ---- histories
    fails.extend(io['notes'])
    flat = flatten(case)
    if case['op'] == 'worldhist':
        spec = spec_results(case, reply)
        for i, ((call, _p, pos), step, want) in enumerate(zip(flat, io['steps'], spec)):
            got = _norm_res_list(step['res'])
            if canon(got) != canon(want):
                fails.append('history_independent: call #%d (%s, after %d history calls) returned %s; in a fresh interpreter it returns %s' % (
                    i, describe(call), pos, canon(got)[:400], canon(want)[:400]))
                break
    for pos, fulls in enumerate(io['probe_full']):
        for j, (got, want) in enumerate(zip(fulls, io['fresh'])):
            if canon(got) != canon(want):
                fails.append('history_independent: probe %s after %d history calls [%s] differs from the same computation in a fresh interpreter process: %s vs fresh %s' % (
                    describe(case['probe'][j]), pos, ', '.join(describe(h) for h in case['history'][:pos]), _first_diff(got, want), ''))
                break
        else:
            continue
        break
    for step in io['steps']:
        w = step['world']
        if w['strict'] is not True or w['captured'] is not None or w['plugins'] != 0:
            fails.append('errors_restored: after a call strict=%r captured_errors=%r runtime plug-ins=%r' % (w['strict'], w['captured'], w['plugins']))
            break
    return fails


def _first_diff(a, b):
    sa, sb = canon(a), canon(b)
    i = 0
    while i < min(len(sa), len(sb)) and sa[i] == sb[i]:
        i += 1
    return '...%s| here %r' % (sa[max(0, i - 60):i], sa[i:i + 120]) + ' / fresh has %r' % sb[i:i + 120]


def buckets(case, io):
    if case['op'] == 'memohist':
        ev = sum(len(s.get('evicted', [])) for s in io)
        return ['memo:cap=%d' % case['cap'], 'memo:evictions>0' if ev else 'memo:no-eviction']
    return [case['op']] + sorted({'call:' + describe(h) for h in case['history']})


def nontrivial(case, io):
    if case['op'] == 'memohist':
        return len(set(case['keys'])) > case['cap']
    return len(case['history']) > 0


def corpus():
    return corpus_for(ID)


# ------------------------------------------------------------------------------------------------
# generators
# ------------------------------------------------------------------------------------------------

MACROS = ['foo', 'Foo', 'bar', 'jan', 'FEB', 'baz']
UNDEF = ['nope', 'ipl']
WORDS = ['Alpha', 'Beta gamma', 'J. Algebra', '1999', 'X', 'Notes on Y', '12']
AUTHORS = ['Knuth, Donald E.', 'Leslie Lamport', 'Jean de la Fontaine and Knuth, Donald E.', 'A, B, C, D',
           'von Neumann, John and others', 'Knuth, Donald E. and A, B, C, D']
FORMATS = ['{ff~}{vv~}{ll}{, jj}', '{vv~}{ll}{, jj}{, f.}', '{ll}', '{f.~}{ll}', '{ff', '{ff}}']
KEYS = ['k1', 'k2', 'K1', 'smith99']
IDENT = re.compile(r'^[A-Za-z][A-Za-z0-9]*$')
LIT = re.compile(r'^(?:[A-Za-z0-9.,]+(?: [A-Za-z0-9.,]+)*)?$')


def _lit(s):
    return {'lit': s}


def gen_free_doc(rng):
    doc = []
    for _ in range(rng.randint(1, 4)):
        r = rng.random()
        parts = lambda: [(_lit(rng.choice(WORDS)) if rng.random() < 0.55 else {'ref': rng.choice(MACROS + UNDEF)}) for _ in range(rng.randint(1, 2))]
        if r < 0.4:
            doc.append({'k': 'string', 'name': rng.choice(MACROS), 'val': parts()})
        elif r < 0.5:
            doc.append({'k': 'preamble', 'val': parts()})
        else:
            fields = []
            for name in rng.sample(['title', 'Title', 'note', 'month', 'journal', 'author', 'editor'], rng.randint(1, 4)):
                if name in ('author', 'editor'):
                    fields.append([name, [_lit(rng.choice(AUTHORS))]])
                else:
                    fields.append([name, parts()])
            doc.append({'k': 'entry', 'type': rng.choice(['article', 'Misc', 'book']), 'key': rng.choice(KEYS), 'fields': fields})
    return doc


def gen_engine_doc(rng):
    """complete entries, every macro defined (own @string or a month): the styles do not warn"""
    doc = []
    defined = []
    for name in rng.sample(['foo', 'bar', 'jan'], rng.randint(0, 2)):
        doc.append({'k': 'string', 'name': name, 'val': [_lit(rng.choice(['Foo Journal', 'Bar Press', 'Jan']))]})
        defined.append(name)
    if rng.random() < 0.3:
        doc.append({'k': 'preamble', 'val': [_lit('Pre')]})
    val = lambda: [({'ref': rng.choice(defined)} if defined and rng.random() < 0.4 else _lit(rng.choice(WORDS[:3])))]
    for key in rng.sample(KEYS, rng.randint(1, 3)):
        fields = [['author', [_lit(rng.choice(AUTHORS))]], ['title', val()], ['year', [_lit('1999')]]]
        if rng.random() < 0.5:
            fields.append(['month', [{'ref': rng.choice(['jan', 'feb', 'dec'])}]])
        if rng.random() < 0.7:
            doc.append({'k': 'entry', 'type': 'article', 'key': key, 'fields': fields + [['journal', val()]]})
        else:
            doc.append({'k': 'entry', 'type': 'book', 'key': key, 'fields': fields + [['publisher', val()]]})
    return doc


def _mode(rng, call, strict_ok=True):
    r = rng.random()
    if r < 0.45:
        return {'c': 'capture', 'call': call}
    if r < 0.75:
        return {'c': 'nonstrict', 'call': call}
    return call


def gen_call(rng):
    r = rng.random()
    if r < 0.18:
        return _mode(rng, {'c': 'parse', 'files': [gen_free_doc(rng) for _ in range(rng.randint(1, 2))]})
    if r < 0.28:
        arg = 'default' if rng.random() < 0.7 else {'table': [[k, rng.choice(WORDS)] for k in rng.sample(MACROS, rng.randint(0, 2))]}
        return {'c': 'lowlevel', 'arg': arg, 'doc': gen_free_doc(rng)}
    if r < 0.46:
        names = rng.choice(AUTHORS)
        n = rng.randint(1, len(re.split(r' and ', names)))
        return _mode(rng, {'c': 'fmtname', 'names': names, 'n': n, 'fmt': rng.choice(FORMATS)})
    if r < 0.62:
        style = rng.choice(['unsrt', 'unsrt', 'plain', 'plain', 'nosuch'])
        return _mode(rng, {'c': 'bibtex', 'style': style, 'files': [gen_engine_doc(rng) for _ in range(rng.randint(1, 2))]})
    if r < 0.76:
        style = rng.choice(['unsrt', 'plain', 'alpha', 'unsrtalpha', 'nosuch'])
        return _mode(rng, {'c': 'python', 'style': style, 'files': [gen_engine_doc(rng)]})
    if r < 0.84:
        return _mode(rng, {'c': 'plugin', 'group': 'pybtex.database.input', 'name': rng.choice(['yaml', 'bibtexml', 'nosuch']),
                           'text': None})
    if r < 0.92:
        return _mode(rng, {'c': 'plugin', 'group': 'pybtex.database.output', 'name': rng.choice(['bibtex', 'yaml', 'bibtexml', 'nosuch']), 'text': DB_TEXT})
    return _mode(rng, {'c': 'plugin', 'group': 'pybtex.style.formatting', 'name': rng.choice(['unsrt', 'plain', 'alpha']), 'text': DB_TEXT})


def _fix_plugin_text(call):
    c = call
    while c['c'] in ('capture', 'nonstrict'):
        c = c['call']
    if c['c'] == 'plugin' and c['text'] is None:
        c['text'] = {'yaml': YAML_TEXT, 'bibtexml': XML_TEXT}.get(c['name'], YAML_TEXT)
    return call


PDOC = [
    {'k': 'string', 'name': 'foo', 'val': [_lit('Foo Journal')]},
    {'k': 'preamble', 'val': [_lit('Pre'), {'ref': 'foo'}]},
    {'k': 'entry', 'type': 'article', 'key': 'p1', 'fields': [
        ['author', [_lit('Knuth, Donald E. and A, B, C, D')]], ['title', [_lit('Alpha')]], ['journal', [{'ref': 'foo'}]],
        ['year', [_lit('1999')]], ['month', [{'ref': 'jan'}]]]},
    {'k': 'entry', 'type': 'book', 'key': 'p2', 'fields': [
        ['author', [_lit('Jean de la Fontaine')]], ['title', [_lit('Beta gamma')]], ['publisher', [_lit('P'), {'ref': 'foo'}]],
        ['year', [_lit('1668')]]]},
]
PDOC_UNDEF = [{'k': 'entry', 'type': 'misc', 'key': 'q', 'fields': [['note', [{'ref': 'foo'}, {'ref': 'feb'}]], ['title', [{'ref': 'nope'}]]]}]


def _cap(c):
    return {'c': 'capture', 'call': c}


def _ns(c):
    return {'c': 'nonstrict', 'call': c}


PROBES = [
    [_cap({'c': 'parse', 'files': [PDOC, PDOC_UNDEF]}), _cap({'c': 'bibtex', 'style': 'unsrt', 'files': [PDOC]}),
     _cap({'c': 'python', 'style': 'unsrt', 'files': [PDOC]}), {'c': 'fmtname', 'names': 'Knuth, Donald E. and Leslie Lamport', 'n': 2, 'fmt': '{vv~}{ll}{, jj}{, f.}'}],
    [_cap({'c': 'parse', 'files': [PDOC_UNDEF]}), _ns({'c': 'bibtex', 'style': 'plain', 'files': [PDOC]}),
     _ns({'c': 'python', 'style': 'alpha', 'files': [PDOC]}), _cap({'c': 'fmtname', 'names': 'A, B, C, D', 'n': 1, 'fmt': '{ll}'})],
    [{'c': 'parse', 'files': [PDOC_UNDEF]}, {'c': 'bibtex', 'style': 'unsrt', 'files': [PDOC]},
     _cap({'c': 'python', 'style': 'plain', 'files': [PDOC]}), {'c': 'fmtname', 'names': 'Knuth, Donald E. and A, B, C, D', 'n': 1, 'fmt': '{ff~}{vv~}{ll}{, jj}'}],
]

XPROBE = [_cap({'c': 'x_parse', 'file': 'xampl.bib'}), _cap({'c': 'x_bibtex', 'bib': 'xampl.bib', 'style': 'unsrt'}),
          _cap({'c': 'x_python', 'bib': 'xampl.bib', 'style': 'unsrt'}), {'c': 'fmtname', 'names': 'Knuth, Donald E. and Leslie Lamport', 'n': 1, 'fmt': '{ff~}{vv~}{ll}{, jj}'}]


def gen_xcall(rng):
    r = rng.random()
    if r < 0.25:
        return _mode(rng, {'c': 'x_bibtex', 'bib': rng.choice(['xampl.bib', 'cyrillic.bib']), 'style': rng.choice(['unsrt', 'plain', 'alpha'])})
    if r < 0.5:
        return _mode(rng, {'c': 'x_python', 'bib': rng.choice(['xampl.bib', 'cyrillic.bib', 'extrafields.bib']),
                           'style': rng.choice(['unsrt', 'plain', 'alpha', 'unsrtalpha']),
                           'backend': rng.choice(['latex', 'html', 'plaintext', 'markdown'])})
    if r < 0.65:
        return _cap({'c': 'x_convert', 'file': rng.choice(['xampl.bib', 'cyrillic.bib']), 'fmt': rng.choice(['bibtex', 'yaml', 'bibtexml'])})
    if r < 0.8:
        return _mode(rng, {'c': 'x_text', 'text': rng.choice(['@article{a, title = {unclosed', '@string{jan = "X"} @misc{m, month = jan, note = zzz}',
                                                           '@misc{a, author = "A, B, C, D and ~"} @misc{a}', 'entries: [1, 2'])
                           , 'fmt': rng.choice(['bibtex', 'bibtex', 'yaml'])})
    if r < 0.9:
        return {'c': 'lowlevel', 'arg': 'default', 'doc': [{'k': 'string', 'name': rng.choice(['jan', 'zz']), 'val': [_lit('X')]}]}
    return gen_call(rng)


def memo_cases():
    cases = []
    for cap, raising, maxlen in ((2, [], 6), (3, [], 6), (2, [3], 6), (1, [], 4), (1, [0], 4)):
        for n in range(0, maxlen + 1):
            for keys in itertools.product(range(4), repeat=n):
                cases.append({'op': 'memohist', 'cap': cap, 'keys': list(keys), 'raise': raising})
    return cases


def valid_case(case):
    try:
        if case['op'] == 'memohist':
            return case['cap'] >= 1 and all(isinstance(k, int) for k in case['keys'])
        if case['op'] == 'freshhist':
            return True
        return all(_valid_call(c) for c in list(case['history']) + list(case['probe']))
    except Exception:
        return False


def _valid_doc(doc, engine, defined0):
    defined = set(defined0)
    for c in doc:
        parts = c['val'] if c['k'] != 'entry' else [p for _n, v in c['fields'] for p in v]
        for p in parts:
            if 'lit' in p:
                if not LIT.match(p['lit']):
                    return False
            elif not IDENT.match(p['ref']) or (engine and p['ref'].lower() not in defined):
                return False
        if c['k'] == 'string':
            if not IDENT.match(c['name']) or not c['val']:
                return False
            defined.add(c['name'].lower())
        elif c['k'] == 'preamble':
            if not c['val']:
                return False
        else:
            if not IDENT.match(c['type']) or c['type'].lower() in ('string', 'preamble', 'comment') or not IDENT.match(c['key']):
                return False
            if not c['fields'] or any(not IDENT.match(n) or not v for n, v in c['fields']):
                return False
            if engine:
                names = [n for n, _v in c['fields']]
                need = {'article': ['author', 'title', 'journal', 'year'], 'book': ['author', 'title', 'publisher', 'year']}.get(c['type'])
                if need is None or any(n not in names for n in need) or len(set(names)) != len(names) or any(n != n.lower() for n in names):
                    return False
                for n, v in c['fields']:
                    if any('lit' in p and not p['lit'] for p in v):
                        return False
                    if n == 'author' and not (len(v) == 1 and v[0].get('lit') in AUTHORS):
                        return False
    return True


MONTHS = ['jan', 'feb', 'mar', 'apr', 'may', 'jun', 'jul', 'aug', 'sep', 'oct', 'nov', 'dec']


def _valid_call(call):
    c = call['c']
    if c in ('capture', 'nonstrict'):
        return call['call']['c'] not in ('fmtmany',) and _valid_call(call['call'])
    if c == 'parse':
        return len(call['files']) >= 1 and all(_valid_doc(d, False, MONTHS) for d in call['files'])
    if c == 'lowlevel':
        if call['arg'] != 'default' and not (isinstance(call['arg'], dict) and all(IDENT.match(k) and LIT.match(v) for k, v in call['arg']['table'])
                                             and len({k for k, _v in call['arg']['table']}) == len(call['arg']['table'])):
            return False
        return _valid_doc(call['doc'], False, MONTHS)
    if c == 'fmtname':
        return call['names'] in AUTHORS + [PROBES[0][3]['names']] and 1 <= call['n'] <= len(call['names'].split(' and ')) and call['fmt'] in FORMATS
    if c in ('bibtex', 'python'):
        defined = set(MONTHS)
        for d in call['files']:
            if not _valid_doc(d, True, defined):
                return False
            defined |= {x['name'].lower() for x in d if x['k'] == 'string'}
        return len(call['files']) >= 1 and call['style'] in ('unsrt', 'plain', 'alpha', 'unsrtalpha', 'nosuch') and (c == 'python' or call['style'] in ('unsrt', 'plain', 'nosuch'))
    if c == 'plugin':
        return call['text'] in (YAML_TEXT, XML_TEXT, DB_TEXT)
    if c == 'fmtmany':
        return call['count'] >= 1 and call['fmt'] in FORMATS[:4] and IDENT.match(call['prefix']) is not None
    return False


def gen_cases(tier, rng, info):
    cases = memo_cases()
    n_memo = len(cases)
    quick = tier == 'quick'
    maxh = 5 if quick else 8
    n_world = 1000 if quick else 9000
    world = []
    for i in range(n_world):
        hist = [_fix_plugin_text(gen_call(rng)) for _ in range(rng.randint(1, maxh))]
        world.append({'op': 'worldhist', 'history': hist, 'probe': PROBES[i % len(PROBES)]})
    # more distinct format.name$ calls than the caches hold, then everything again
    big = 1100 if quick else 2100
    for j, mode in enumerate(['plain', 'capture'] if quick else ['plain', 'capture', 'nonstrict']):
        world.append({'op': 'worldhist', 'probe': PROBES[j % len(PROBES)], 'history': [
            {'c': 'fmtmany', 'prefix': 'Name', 'start': 0, 'count': big, 'fmt': FORMATS[j % 2], 'mode': mode},
            _cap({'c': 'bibtex', 'style': 'plain', 'files': [PDOC]}),
            {'c': 'fmtmany', 'prefix': 'Name', 'start': big - 40, 'count': 60, 'fmt': FORMATS[j % 2], 'mode': mode, 'first': 'Ann B.'},
            {'c': 'fmtmany', 'prefix': 'Name', 'start': 0, 'count': 30, 'fmt': FORMATS[2], 'mode': 'plain'}]})
    fresh_cases = []
    for i in range(24 if quick else 200):
        fresh_cases.append({'op': 'freshhist', 'history': [gen_xcall(rng) for _ in range(rng.randint(1, 3 if quick else 6))], 'probe': XPROBE})
    for c in fresh_cases:
        for h in c['history']:
            _fix_plugin_text(h)
    prewarm([p for c in world + fresh_cases for p in c['probe']])
    info['exhaustive'] = True
    info['scope'] = ('memohist: all %d key sequences (capacity 2, 3: length <= 6 over 4 keys; capacity 2 with a raising key; capacity 1: length <= 4); '
                     'worldhist: %d seeded histories of <= %d calls x probe at every position (+ %d cache-overflow histories with %d distinct '
                     'format.name$ arguments); freshhist: %d concrete histories over tests/data' % (
                         n_memo, n_world, maxh, len(world) - n_world, big, len(fresh_cases)))
    # spread the expensive histories evenly through the list so that the worker pool shares them
    heavy = world[:48] + world[n_world:] + fresh_cases + world[48:n_world]
    out = []
    every = max(1, len(cases) // max(1, len(heavy)))
    hi = 0
    for i, c in enumerate(cases):
        if i % every == 0 and hi < len(heavy):
            out.append(heavy[hi])
            hi += 1
        out.append(c)
    return out + heavy[hi:]


LEVEL_TEXT = ('Machine-checked proofs (Lean 4) over an explicit model of the process-global state of pybtex (module-level month table with its '
              'aliasing, the two memoize closures, errors.*, the run-time plug-in registry): the invariant of memoize holds after EVERY call '
              'sequence and makes a memoised call transparent (also beyond capacity, also for the nested name caches); no history of public calls '
              'changes the month table / strict / registry; two readers are independent while the files of one reader accumulate; the result of '
              'every call is a function of the call and the constant part of the world (simulation over cache contents and error_code), hence for '
              'every finite history h and probe p: result p (run h w0) = result p w0.  Tied to the code by a correspondence check that drives the '
              'real memoize exhaustively over small scopes and real API histories call by call (results, month table, errors.*, registry and both '
              'cache key lists compared with the model), and by comparing every probe with a fresh interpreter process.')
LEVEL_NOTE = ('PARTIAL BY NATURE.  Modelled: month_names (one table; Parser copies it, LowLevelParser writes to the table it is given), '
              'memoize (dict + FIFO deque, regenerated capacity) instantiated as in builtins.py, errors.strict/error_code/captured_errors with '
              'report_error/capture/set_strict_mode, _RUNTIME_PLUGINS as read by find_plugin, a fresh BibliographyData and macro copy per reader, '
              'a fresh Interpreter per BibTeX-engine run (its macro table regenerated from the .bst files).  ASSUMED, not proved: every other piece of '
              'pybtex (bst interpreter, styles, backends, YAML/BibTeXML readers, writers, name code) is a pure function that reaches the named state '
              'only through report_error, format.name$, find_plugin and a fresh .bib reader (parameter `Fns`, interaction tree `Prog`); hidden caches '
              'of re, PyYAML, xml, latexcodec, importlib.metadata are covered only empirically by the fresh-process comparison.  .bib text is '
              'abstracted to its command sequence (tokenising is C01).  error_code is sticky by design (process exit status): the theorems show no '
              'result reads it.  Histories are taken at top level (captured_errors None).  "Inputs never modified" is a claim about Python object '
              'state that the pure model cannot express: it is checked on the implementation only (databases deep-frozen before/after to_string '
              'and format_bibliography, citation lists compared).  The model follows proposed_fixes/C18-1.diff (LowLevelParser default macros) and '
              'C18-2.diff (name problems reported on cache hits as on misses); the pre-fix aliasing is kept expressible and its failure is proved '
              '(C18_months_constant_neg_aliased).  Memo keys: Python equality of (str, int, str) tuples is taken to be structural.')
