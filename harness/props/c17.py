"""C17 -- string / bytes / stream / file entry points agree; I/O faults become pybtex errors.

Four driver ops (lean/PybtexModel/Drv/C17.lean):

entrypoints  one (database, format name, encoding): every reader (resp. writer) entry point of the REAL code is run on
             it -- module functions, BibliographyData methods, plug-in methods, real temporary files, file objects,
             in-memory streams, every registered suffix -- and canonicalised; a probe subclass of the real plug-in
             class records what the dispatch layer hands to the plug-in's own core, which is what the model computes
             (codec = finite table filled with the real codec's answers).  With `world`: the same through a patched
             `pybtex.io` (in-memory files, chosen opens fail).
plughist     a history of register_plugin / find_plugin / enumerate_plugin_names calls on the real module
             (`_RUNTIME_PLUGINS` emptied before, restored after).
openmatrix   one call of open_raw / open_unicode in a world where chosen opens fail, isfile / kpsewhich / environ given.
pathfn       os.path.splitext, posixpath.join.
"""
import contextlib
import errno
import functools
import io as _io
import itertools
import json
import os
import posixpath
import shutil
import tempfile
from unittest import mock

import compat
import bibgen
from props.base import corpus_for

ID = 'C17'
LEAN_MODULES = ['PybtexModel.Props.C17', 'PybtexModel.Props.WiringC17']
THEOREMS = {
    'C17_parse_entry_points': 'BaseParser (both unicode_io values) and the BibTeX class: if the encoding represents the text, parse_bytes(enc s) = '
                              'parse_stream(stream of s) = parse_file(file-like) = parse_file(file containing enc s) = parse_files(base, suffix) = parse_string(s)',
    'C17_parse_entry_points_bibtexml': 'BibTeXML: for bytes that ElementTree reads as it reads the text (e.g. the declared, encoded document) parse_bytes = '
                                       'parse_stream = parse_file(file-like) = parse_file(path) = parse_string, whatever `encoding` is',
    'C17_write_entry_points': 'BaseWriter: unicode_io -> to_bytes = enc(to_string) unconditionally; byte plug-ins -> to_string = dec(to_bytes) and write_file leaves '
                              'exactly to_bytes after one open; a file-like object receives what write_stream writes; core errors are the same everywhere',
    'C17_write_file_partial': 'unicode_io plug-ins: write_file leaves exactly to_bytes in the file after one text-mode open with the encoding, PROVIDED the document is '
                              'not empty or the codec encodes "" as no bytes',
    'C17_write_file_neg': 'witness that the proviso is needed: empty document + byte-order-mark codec: to_bytes is the mark, the file stays empty (finding C17-empty-document-bom)',
    'C17_write_entry_points_bibtexml': 'BibTeXML: to_bytes = enc(XML declaration naming the encoding ++ to_string ++ newline); write_file writes exactly that',
    'C17_suffix_eq_name': 'regenerated tables: every suffix entry is found from EVERY file name dir/stem.sfx, its class is reachable by a name or alias, and every '
                          'named class with a default_suffix is what that suffix selects',
    'C17_tables_wf': 'regenerated tables: no duplicate (group, name), groups are base groups or their .aliases/.suffixes, defaults exist, importlib.metadata = setup.py',
    'C17_classes_wf': 'regenerated class wiring (unicode_io + overridden entry points) of every installed reader/writer is one the model knows, and the three formats '
                      'are wired as the theorems are applied to them',
    'C17_runtime_plugins': 'after ANY history: a free or forced key registers (True), then yields exactly the new class, other keys untouched; a taken key unforced '
                           'returns False and the registry is unchanged; the two-table implementation refines the one-table reference for the whole history',
    'C17_runtime_found_like_installed': 'a run-time name is found by name, a run-time alias by name unless a real name hides it, a run-time suffix from every file name dir/stem.sfx',
    'C17_installed_not_shadowed': 'after ANY history without a forced registration every installed key still yields its installed class',
    'C17_open_faults': 'all worlds: file-like passes through; every failure is the PybtexError for the name given; read = one attempt (name if file, else kpsewhich result, '
                       'else name); write = first attempt, then TEXMFOUTPUT-joined second attempt iff set, success there is success, double failure reports the first error',
    'C17_fallback_path': 'posixpath.join(dir, name) is dir/name for a relative name (dir non-empty, no trailing slash); an absolute name is retried unchanged',
}
RULE = ('entry points: a fixed set of hand-made databases x every installed reader/writer name and alias x encodings {default, utf-8, utf-16, latin-1 when '
        'representable} x every entry point x every registered suffix (exhaustive over that configuration space), plus seeded random databases (bibgen) with '
        'non-ASCII / astral text injected; plug-in histories: every sequence of <= L registrations over a 14-call alphabet with 8 probes after each call, error '
        'calls, every installed entry; open matrix: every combination of {isfile, kpsewhich none/found/empty/error, open fails at name / at found / at fall-back, '
        'TEXMFOUTPUT unset/dir/dir-slash/empty, relative/nested/absolute name, raw/unicode, file-like}; splitext over {a . /}^<=6, join over {a /}^<=3 pairs; '
        'non-trivial = anything but a skipped case; distinct by case JSON')
TRUSTED = ['codecs (utf-8, utf-16, latin-1), TextIOWrapper, the file system, PyYAML, xml.sax / ElementTree, latexcodec: exercised for real, never modelled',
           'importlib.metadata.entry_points is memoised per argument tuple inside the harness process (a pure function of the installed metadata; 3 ms per call otherwise)',
           'probe subclasses of the real plug-in classes replace ONLY the plug-in core (parse_stream / the BibTeX text parser / ElementTree) to record what the '
           'dispatch layer hands over; every result compared by the oracle comes from the unmodified classes',
           'failure worlds are built by patching the names `io`, `posixpath`, `kpsewhich`, `environ` inside pybtex.io (unittest.mock), never the global modules']
ASSUMPTIONS = ['text-mode newline translation is the identity on the generated documents (no CR in them; POSIX)',
               'a text-mode file holds str.encode of what was written to it, except that it stays empty when no character was written (modelled: textFile); '
               'hence finding C17-empty-document-bom: EMPTY document under a BOM-writing codec (utf-16: "".encode gives the BOM): its witness cases are generated '
               'only when the finding is listed in known_findings.json, skipped (bucket entrypoints:skip) otherwise',
               'a (format, encoding) pair is exercised only when the encoding can represent the document']
SERIAL = False

READER_METHODS = ('parse_file', 'parse_files', 'parse_string', 'parse_bytes', 'parse_stream')
WRITER_METHODS = ('write_file', 'write_stream', '_to_string_or_bytes', 'to_string', 'to_bytes')
IN, OUT = 'pybtex.database.input', 'pybtex.database.output'


# ------------------------------------------------------------------------------------------------
# helpers on the real code

def _memo_entry_points():
    import pybtex.plugin as P
    if getattr(P.entry_points, '_verif_memo', False):
        return
    real, cache = P.entry_points, {}

    def entry_points(**kw):
        key = tuple(sorted(kw.items()))
        if key not in cache:
            cache[key] = real(**kw)
        return cache[key]
    entry_points._verif_memo = True
    entry_points._verif_real = real
    P.entry_points = entry_points


def class_id(cls):
    return '%s:%s' % (cls.__module__, cls.__qualname__)


def wiring(cls, side):
    from pybtex.database.input import BaseParser
    from pybtex.database.output import BaseWriter
    base, methods = (BaseParser, READER_METHODS) if side == 'read' else (BaseWriter, WRITER_METHODS)
    found = set()
    for c in cls.__mro__:
        if c is base:
            break
        found.update(m for m in methods if m in c.__dict__)
    return bool(cls.unicode_io), sorted(found)


@functools.lru_cache(maxsize=None)
def installed_table():
    """[(group, name, value)] as pybtex.plugin sees it."""
    import pybtex.plugin as P
    real = getattr(P.entry_points, '_verif_real', P.entry_points)
    eps = real()
    out = []
    for g in sorted(eps.groups):
        if g.startswith('pybtex.'):
            for ep in eps.select(group=g):
                out.append((g, ep.name, ep.value.replace(' ', '')))
    return sorted(out)


def suffixes_of(group, cls):
    cid = class_id(cls)
    return sorted(n for g, n, v in installed_table() if g == group + '.suffixes' and v == cid)


def family(cls):
    m = cls.__module__.rsplit('.', 1)[-1]
    return {'bibtex': 'bibtex', 'bibtexml': 'bibtexml'}.get(m, 'base')


def err(e):
    k = compat.pybtex_error_kind(e)
    return {'err': k}


def canon_db(db):
    entries = []
    for key, e in db.entries.items():
        persons = [[role, [[p.first_names, p.middle_names, p.prelast_names, p.last_names, p.lineage_names] for p in ps]]
                   for role, ps in e.persons.items()]
        entries.append([key, e.original_type, e.type, [[k, v] for k, v in e.fields.items()], persons])
    return {'entries': entries, 'preamble': list(db.preamble_list)}


def hx(b):
    """bytes -> the wire format (lower-case hex)"""
    return bytes(b).hex()


def streamj(v):
    if isinstance(v, str):
        return {'kind': 'text', 'data': v}
    return {'kind': 'binary', 'data': hx(v)}


def xml_decl(enc_name):
    return '<?xml version="1.0" encoding="%s"?>\n' % enc_name


# ------------------------------------------------------------------------------------------------
# databases

INJECT_L1 = ['café', 'Ünï', 'straße ©', 'Ã©']       # representable in latin-1 (the last one is a UTF-8 look-alike)
INJECT_ANY = ['€ 5', 'Łódź', 'λ-calculus', '1970–1971', '中文', '\U0001d4d0 \U0001f600']

FIXED_DBS = [
    '',
    '@article{k1, title = {Plain ascii}, year = 1999}\n',
    '@article{k1, title = {Café Ã© straße}, author = {Knüth, Donald and Müller, Jürgen}, year = 1999}\n',
    '@book{B:1, title = {€ 5 and λ}, editor = {Łukasiewicz, Jan}, note = {中文 \U0001f600}}\n@misc{m2, note = {second}}\n',
    '@preamble{"\\newcommand{\\x}{y}"}\n@misc{p1, title = {With preamble}, url = {http://x.y/z}}\n',
    '@misc{k, note = {Ã©}}\n',                       # Latin-1 text whose bytes are also valid UTF-8
    '@InProceedings{Mixed-Case, Title = {A {B}raced {\\"o} title}, AUTHOR = {von Beethoven, Jr, Ludwig and {Barnes and Noble}}, month = jan}\n',
]


def bib_source(case):
    if 'bib' in case:
        return case['bib']
    raise ValueError('case without a database')


def make_db(src):
    """The database of a case (parsed from .bib text by the real reader) or an error marker."""
    from pybtex import errors
    from pybtex.database import parse_string
    with errors.capture() as captured:
        db = parse_string(src, 'bibtex')
    if captured:
        return None
    return db


def representable(text, enc):
    try:
        return text.encode(enc).decode(enc) == text
    except UnicodeError:
        return False


# ------------------------------------------------------------------------------------------------
# entry points: preparation shared by impl and to_request (both deterministic functions of the case)

def _cache_key(case):
    return json.dumps(case, sort_keys=True)


_PREP = {}


def prepare(case):
    key = _cache_key(case)
    if key not in _PREP:
        if len(_PREP) > 2000:
            _PREP.clear()
        _PREP[key] = _prepare(case)
    return _PREP[key]


def _prepare(case):
    """-> dict(skip=reason) | dict(cls, u, ov, enc_name, codec, db, text [reader: s, b])"""
    _memo_entry_points()
    from pybtex.plugin import find_plugin
    from pybtex.exceptions import PybtexError
    side = case['side']
    group = IN if side == 'read' else OUT
    try:
        cls = find_plugin(group, case['fmt'])
    except PybtexError as e:
        return {'skip': 'no plug-in: %s' % e}
    db = make_db(bib_source(case))
    if db is None:
        return {'skip': 'source database has errors'}
    kw = {} if case['enc'] is None else {'encoding': case['enc']}
    inst = cls(**kw)
    enc_name = inst.encoding
    wcls = find_plugin(OUT, case['fmt'])
    u, ov = wiring(cls, side)
    p = {'cls': cls, 'u': u, 'ov': ov, 'enc_name': enc_name, 'kw': kw, 'db': db, 'family': family(cls), 'wcls': wcls}
    if not representable(bib_source(case), enc_name):
        return {'skip': 'encoding cannot represent the database'}
    # the document: what the real writer of this format prints for the database
    try:
        text = wcls(**kw).to_string(db)
    except PybtexError as e:
        return {'skip': 'writer refuses the database: %s' % type(e).__name__}
    except Exception as e:  # the writer itself is broken on this input: the writing case reports it
        if side == 'write':
            p['text_error'] = compat.pybtex_error_kind(e)
            text = None
        else:
            return {'skip': 'writer failed: %s' % type(e).__name__}
    if text is not None:
        if '\r' in text:
            return {'skip': 'document contains CR'}
        if not representable(text, enc_name):
            return {'skip': 'encoding cannot represent the document'}
    if side == 'write' and text == '' and ''.encode(enc_name) != b'' and u and not finding_listed(FINDING_BOM):
        return {'skip': 'empty document under a BOM codec (finding %s not listed)' % FINDING_BOM}
    p['text'] = text
    if side == 'read' and case.get('source') == 'bib' and p['family'] == 'bibtex':
        src = bib_source(case).replace('\r\n', '\n').replace('\r', '\n')
        if representable(src, enc_name):
            p['text'] = text = src
    if side == 'read':
        p['s'] = text
        p['b'] = (xml_decl(enc_name) + text + '\n').encode(enc_name) if p['family'] == 'bibtexml' else text.encode(enc_name)
    return p


def _fault_bytes(case, p):
    return (b'\xff\xfe\xfd' + p['b']) if case.get('corrupt') else p['b']


def _codec_pairs(strings, enc):
    return [[s, hx(s.encode(enc))] for s in strings]


PLAIN_WORLD = {'isfile': [], 'locate': {'kind': 'none'}, 'fail': [], 'environ': []}


def _reader_entries(p, sfx):
    return [
        {'entry': 'parse_string'},
        {'entry': 'parse_bytes'},
        {'entry': 'parse_stream'},
        {'entry': 'parse_file_path', 'path': 'F' + sfx},
        {'entry': 'parse_file_stream'},
        {'entry': 'parse_files', 'bases': ['F'], 'suffix': sfx},
    ]


WRITER_ENTRIES = [{'entry': 'to_string'}, {'entry': 'to_bytes'}, {'entry': 'write_file_path', 'path': 'F.out'},
                  {'entry': 'write_file_stream'}]


def req_entrypoints(case):
    p = prepare(case)
    if 'skip' in p or p.get('text') is None:
        return {'op': 'ping', 's': ''}
    enc = p['enc_name']
    world = case.get('world')
    if case['side'] == 'read':
        sfx = (suffixes_of(IN, p['cls']) or ['.dat'])[0]
        files = [['F' + sfx, hx(p['b'])]]
        if world is None:
            world = dict(PLAIN_WORLD, isfile=['F' + sfx])
            entries = _reader_entries(p, sfx)
        else:
            entries = [{'entry': 'parse_file_path', 'path': case['path']}]
            files = [[f, hx(_fault_bytes(case, p))] for f in case['files']]
            # the in-memory file system of the implementation side has no other file
            tried = [case['path']] + ([world['locate']['path']] if world['locate']['kind'] == 'found' and world['locate']['path'] else [])
            missing = [[q, 'No such file or directory'] for q in tried if q not in case['files'] and q not in dict(map(tuple, world['fail']))]
            world = dict(world, fail=world['fail'] + missing)
        return {'op': 'entrypoints', 'side': 'read', 'u': p['u'], 'ov': p['ov'], 'enc': enc, 'codec': _codec_pairs([p['s']], enc),
                'utf8': [], 'files': files, 'world': world, 'entries': entries, 's': p['s'], 'b': hx(p['b'])}
    text = p['text']
    core_text = text + '\n' if p['family'] == 'bibtexml' else text
    strings = [text, xml_decl(enc) + core_text] if p['family'] == 'bibtexml' else [text]
    entries = WRITER_ENTRIES if world is None else [{'entry': 'write_file_path', 'path': case['path']}]
    return {'op': 'entrypoints', 'side': 'write', 'u': p['u'], 'ov': p['ov'], 'enc': enc, 'codec': _codec_pairs(strings, enc),
            'utf8': _codec_pairs([core_text], 'utf-8'), 'files': [], 'world': world or PLAIN_WORLD, 'text': core_text, 'entries': entries}


# ---- probes: what the dispatch layer hands to the plug-in's own core ------------------------------

def _probe_class(cls, fam, rec):
    """(Probe class, context manager factory)"""
    if fam == 'bibtexml':
        import pybtex.database.input.bibtexml as M

        class FakeET(object):
            @staticmethod
            def fromstring(v):
                rec.append(['ET.bytes' if isinstance(v, bytes) else 'ET.str', v])

            @staticmethod
            def parse(stream):
                v = stream.read()
                rec.append(['ET.bytes' if isinstance(v, bytes) else 'ET.textstream', v])

        class Probe(cls):
            def parse_tree(self, tree):
                return self.data
        return Probe, lambda: mock.patch.object(M, 'ET', FakeET)
    if fam == 'bibtex':
        class Probe(cls):
            def parse_string(self, text):
                rec.append(['parse_string', text])
                return self.data
    else:
        class Probe(cls):
            def parse_stream(self, stream):
                rec.append(['parse_stream', stream.read()])
                return self.data
    return Probe, contextlib.nullcontext


def _rec_json(rec):
    return [{'core': c, 'got': streamj(v)} for c, v in rec]


def _run_entry(f):
    """Result of one real entry point: canonical database or error kind."""
    try:
        return canon_db(f())
    except Exception as e:  # noqa
        return err(e)


def _own_stream(p, path=None):
    """A stream of the kind the class asks for, holding the document (in memory, or the real file)."""
    if path is not None:
        return open(path, 'r', encoding=p['enc_name'], newline='') if p['u'] else open(path, 'rb')
    return _io.StringIO(p['s']) if p['u'] else _io.BytesIO(p['b'])


def impl_read(case, p):
    from pybtex import database
    from pybtex.database import BibliographyData
    cls, kw, s, b, fmt = p['cls'], p['kw'], p['s'], p['b'], case['fmt']
    sfxs = suffixes_of(IN, cls) or ['.dat']
    results, paths = {}, []
    tmp = tempfile.mkdtemp(prefix='verif-c17-')
    try:
        files = {}
        for sfx in sfxs:
            files[sfx] = os.path.join(tmp, 'F' + sfx)
            with open(files[sfx], 'wb') as f:
                f.write(b)
        first = files[sfxs[0]]
        results['parse_string'] = _run_entry(lambda: database.parse_string(s, fmt, **kw))
        results['parse_string(default encoding)'] = _run_entry(lambda: database.parse_string(s, fmt))   # a str has no encoding
        results['from_string'] = _run_entry(lambda: BibliographyData.from_string(s, fmt, **kw))
        results['parse_bytes'] = _run_entry(lambda: database.parse_bytes(b, fmt, **kw))
        results['parse_file(path,name)'] = _run_entry(lambda: database.parse_file(first, fmt, **kw))
        for sfx in sfxs:
            results['parse_file(path%s)' % sfx] = _run_entry(lambda: database.parse_file(files[sfx], **kw))
        results['parse_file(memory stream,name)'] = _run_entry(lambda: database.parse_file(_own_stream(p), fmt, **kw))

        def with_file(g):
            f = _own_stream(p, first)
            try:
                return g(f)
            finally:
                f.close()
        results['parse_file(file object,name)'] = _run_entry(lambda: with_file(lambda f: database.parse_file(f, fmt, **kw)))
        results['parse_file(file object by its name)'] = _run_entry(lambda: with_file(lambda f: database.parse_file(f, **kw)))
        results['Parser.parse_string'] = _run_entry(lambda: cls(**kw).parse_string(s))
        results['Parser.parse_bytes'] = _run_entry(lambda: cls(**kw).parse_bytes(b))
        results['Parser.parse_stream'] = _run_entry(lambda: cls(**kw).parse_stream(_own_stream(p)))
        results['Parser.parse_file'] = _run_entry(lambda: cls(**kw).parse_file(first))
        results['Parser.parse_files'] = _run_entry(lambda: cls(**kw).parse_files([os.path.join(tmp, 'F')], sfxs[0]))
        results['find_plugin(class)'] = _run_entry(lambda: database.parse_string(s, cls, **kw))
        # the dispatch paths, through the module functions with the probe class as `bib_format`
        rec = []
        Probe, ctx = _probe_class(cls, p['family'], rec)
        calls = [
            lambda: database.parse_string(s, Probe, **kw),
            lambda: database.parse_bytes(b, Probe, **kw),
            lambda: Probe(**kw).parse_stream(_own_stream(p)),
            lambda: database.parse_file(first, Probe, **kw),
            lambda: database.parse_file(_own_stream(p), Probe, **kw),
            lambda: Probe(**kw).parse_files([os.path.join(tmp, 'F')], sfxs[0]),
        ]
        with ctx():
            for c in calls:
                del rec[:]
                try:
                    c()
                    paths.append(_rec_json(rec))
                except Exception as e:  # noqa
                    paths.append(err(e))
    finally:
        shutil.rmtree(tmp, ignore_errors=True)
    return {'results': results, 'paths': paths}


def _read_bytes(path):
    with open(path, 'rb') as f:
        return f.read()


def _write_entry(f, get):
    try:
        r = f()
        return get(r)
    except Exception as e:  # noqa
        return err(e)


def impl_write(case, p):
    cls, kw, db, fmt = p['cls'], p['kw'], p['db'], case['fmt']
    sfxs = suffixes_of(OUT, cls) or ['.dat']
    out = {}
    tmp = tempfile.mkdtemp(prefix='verif-c17-')
    try:
        out['to_string'] = _write_entry(lambda: db.to_string(fmt, **kw), lambda r: r)
        out['to_bytes'] = _write_entry(lambda: db.to_bytes(fmt, **kw), hx)
        out['Writer.to_string'] = _write_entry(lambda: cls(**kw).to_string(db), lambda r: r)
        out['Writer.to_bytes'] = _write_entry(lambda: cls(**kw).to_bytes(db), hx)
        named = os.path.join(tmp, 'named.out')
        out['to_file(path,name)'] = _write_entry(lambda: db.to_file(named, fmt, **kw), lambda r: hx(_read_bytes(named)))
        for sfx in sfxs:
            path = os.path.join(tmp, 'F' + sfx)
            out['to_file(path%s)' % sfx] = _write_entry(lambda: db.to_file(path, **kw), lambda r: hx(_read_bytes(path)))
        wf = os.path.join(tmp, 'wf.out')
        out['Writer.write_file'] = _write_entry(lambda: cls(**kw).write_file(db, wf), lambda r: hx(_read_bytes(wf)))
        # a file-like object of the kind the class asks for: the call returns its getvalue()
        mem = _io.StringIO() if p['u'] else _io.BytesIO()
        out['to_file(memory stream,name)'] = _write_entry(lambda: db.to_file(mem, fmt, **kw), streamj)
        # a real file object, format chosen from its name
        fo_path = os.path.join(tmp, 'obj' + sfxs[0])

        def to_file_object():
            f = open(fo_path, 'w', encoding=p['enc_name'], newline='') if p['u'] else open(fo_path, 'wb')
            try:
                db.to_file(f, **kw)
            finally:
                f.close()
            return _read_bytes(fo_path)
        out['to_file(file object by its name)'] = _write_entry(to_file_object, hx)
    finally:
        shutil.rmtree(tmp, ignore_errors=True)
    return {'results': out, 'meta': {'family': p['family'], 'enc': p['enc_name'], 'u': p['u']}}


# ---- fault worlds through the public entry points --------------------------------------------------

class _Keep(object):
    """An in-memory binary file that remembers its content after close()."""

    def __init__(self, fs, path, data=b''):
        self.fs, self.path = fs, path
        self.buf = _io.BytesIO(data)

    def raw(self, mode):
        outer = self

        class Raw(_io.BytesIO):
            def close(self):
                if 'w' in mode:
                    outer.fs[outer.path] = self.getvalue()
                _io.BytesIO.close(self)
        r = Raw(b'' if 'w' in mode else self.buf.getvalue())
        r.name = self.path
        return r


MSG_ERRNO = {'Permission denied': errno.EACCES, 'No such file or directory': errno.ENOENT, 'Is a directory': errno.EISDIR,
             'Read-only file system': errno.EROFS, 'No space left on device': errno.ENOSPC, 'Not a directory': errno.ENOTDIR}
WRITE_FAILS = ['Permission denied', 'No such file or directory', 'Is a directory', 'No space left on device']


class World(object):
    """pybtex.io with its four outside names replaced (and nothing else)."""

    def __init__(self, world, files=None):
        self.w = world
        self.fs = dict(files or {})
        self.events = []
        self.fail = dict((p, m) for p, m in world['fail'])

    def open(self, path, mode='r', **kw):
        self.events.append({'ev': 'open', 'path': path, 'mode': mode, 'encoding': kw.get('encoding')})
        extra = set(kw) - {'encoding'}
        if extra:
            raise TypeError('unexpected arguments to io.open: %r' % sorted(extra))
        if path in self.fail:
            # every kind of EnvironmentError counts as "cannot open": the errno follows the message of the world
            code = MSG_ERRNO.get(self.fail[path], errno.EACCES if 'w' in mode else errno.ENOENT)
            raise OSError(code, self.fail[path], path)
        if 'w' not in mode and path not in self.fs:
            raise IOError(errno.ENOENT, 'No such file or directory', path)
        raw = _Keep(self.fs, path, self.fs.get(path, b'')).raw(mode)
        if 'b' in mode:
            return raw
        t = _io.TextIOWrapper(raw, encoding=kw.get('encoding'), newline='')
        t.mode = mode
        return t

    def isfile(self, path):
        return path in self.w['isfile']

    def kpsewhich(self, path):
        self.events.append({'ev': 'locate', 'path': path})
        loc = self.w['locate']
        if loc['kind'] == 'error':
            raise OSError(errno.ENOENT, loc['strerror'], 'kpsewhich')
        if loc['kind'] == 'found':
            return loc['path']
        return None

    def patches(self):
        import pybtex.io as pio
        fake_io = mock.Mock(spec=['open', 'TextIOWrapper'])
        fake_io.open = self.open
        fake_io.TextIOWrapper = _io.TextIOWrapper
        fake_pp = mock.Mock(spec=['isfile', 'join'])
        fake_pp.isfile = self.isfile
        fake_pp.join = posixpath.join
        return [mock.patch.object(pio, 'io', fake_io), mock.patch.object(pio, 'posixpath', fake_pp),
                mock.patch.object(pio, 'kpsewhich', self.kpsewhich), mock.patch.object(pio, 'environ', dict(self.w['environ']))]

    def __enter__(self):
        self._ps = self.patches()
        for p in self._ps:
            p.start()
        return self

    def __exit__(self, *a):
        for p in reversed(self._ps):
            p.stop()


def _rendered(e):
    """The error as pybtex prints it (message, prefixed by the file name when the error carries one)."""
    from pybtex.exceptions import PybtexError
    from pybtex.errors import format_error
    try:
        return format_error(e) if isinstance(e, PybtexError) else str(e)
    except Exception as e2:  # noqa
        return 'UNRENDERABLE:%s' % type(e2).__name__


def _open_error(e):
    k = compat.pybtex_error_kind(e)
    return {'err': k, 'message': str(e), 'rendered': _rendered(e)}


def impl_fault(case, p):
    from pybtex import database
    cls, kw, fmt = p['cls'], p['kw'], case['fmt']
    if case['side'] == 'read':
        W = World(case['world'], {f: _fault_bytes(case, p) for f in case['files']})
        with W:
            try:
                db = database.parse_file(case['path'], fmt, **kw)
                res = {'ok': canon_db(db)}
            except Exception as e:  # noqa
                res = _open_error(e)
        want = _run_entry(lambda: database.parse_string(p['s'], fmt, **kw))
        return {'events': W.events, 'result': res, 'reference': want}
    W = World(case['world'])
    with W:
        try:
            p['db'].to_file(case['path'], fmt, **kw)
            res = {'ok': {k: hx(v) for k, v in W.fs.items()}}
        except Exception as e:  # noqa
            res = _open_error(e)
    want = _write_entry(lambda: p['db'].to_bytes(fmt, **kw), hx)
    return {'events': W.events, 'result': res, 'reference': want}


def impl_entrypoints(case):
    p = prepare(case)
    if 'skip' in p:
        return {'skip': p['skip']}
    if p.get('text') is None:
        return {'skip': 'writer failed', 'results': {'to_string': {'err': p['text_error']}}}
    if case.get('world') is not None:
        return impl_fault(case, p)
    return impl_read(case, p) if case['side'] == 'read' else impl_write(case, p)


# ------------------------------------------------------------------------------------------------
# plug-in histories

def _klasses():
    from pybtex.plugin import Plugin
    g = globals()
    if '_K' not in g:
        g['_K'] = {n: type(n, (Plugin,), {}) for n in ('K1', 'K2', 'K3')}
    return g['_K']


def _cls_name(c):
    ks = _klasses()
    for n, k in ks.items():
        if c is k:
            return n
    return class_id(c)


def _plug_err(e):
    from pybtex.exceptions import PybtexError
    if isinstance(e, PybtexError):
        return {'err': type(e).__name__, 'msg': str(e)}
    if isinstance(e, ValueError) and str(e) == 'a suffix must start with a period':
        return {'err': 'ValueError', 'msg': str(e)}     # the documented argument check of register_plugin
    return {'err': 'INTERNAL:' + type(e).__name__, 'msg': str(e)[:200]}


def impl_plughist(case):
    _memo_entry_points()
    import pybtex.plugin as P
    ks = _klasses()
    R = P._RUNTIME_PLUGINS
    saved = {g: dict(d) for g, d in R.items()}
    R.clear()
    out = []
    try:
        for op in case['ops']:
            try:
                if op['o'] == 'register':
                    out.append(bool(P.register_plugin(op['g'], op['n'], ks[op['k']], force=op['force'])))
                elif op['o'] == 'find':
                    name = op.get('name')
                    if name is None or name['t'] == 'none':
                        nm = None
                    elif name['t'] == 'str':
                        nm = name['v']
                    else:
                        nm = ks[name['v']]
                    out.append({'cls': _cls_name(P.find_plugin(op['g'], nm, filename=op.get('filename')))})
                elif op['o'] == 'enum':
                    names = list(P.enumerate_plugin_names(op['g']))
                    nrt = len(R.get(op['g'], {}))
                    out.append({'names': names[:nrt] + sorted(names[nrt:])})
                else:
                    raise KeyError(op['o'])
            except Exception as e:  # noqa
                out.append(_plug_err(e))
    finally:
        R.clear()
        R.update(saved)
    return out


# ------------------------------------------------------------------------------------------------
# open matrix

def impl_openmatrix(case):
    import pybtex.io as pio
    W = World(case['world'], {})
    # every path can be opened for reading unless it is listed as failing
    real_open = W.open

    def open_any(path, mode='r', **kw):
        if 'w' not in mode and path not in W.fail and path not in W.fs:
            W.fs[path] = b''
        return real_open(path, mode, **kw)
    W.open = open_any
    sentinel = _io.BytesIO(b'user stream')
    arg = sentinel if case['arg'] == 'stream' else case['path']
    with W:
        try:
            fn = pio.open_raw if case['fn'] == 'raw' else pio.open_unicode
            f = fn(arg, case['mode'], case['encoding']) if case['encoding'] is not None else fn(arg, case['mode'])
            if f is sentinel:
                res = {'ok': 'passthrough'}
            else:
                res = {'ok': {'handle': getattr(f, 'name', None)}}
        except Exception as e:  # noqa
            res = {'err': {'kind': compat.pybtex_error_kind(e), 'message': str(e), 'rendered': _rendered(e)}}
    if sentinel.closed or sentinel.getvalue() != b'user stream' or sentinel.tell() != 0:
        res['touched'] = True
    return {'events': W.events, 'result': res}


# ------------------------------------------------------------------------------------------------
# path functions

def impl_pathfn(case):
    if case['fn'] == 'splitext':
        return list(os.path.splitext(case['a']))
    return posixpath.join(case['a'], case['b'])


# ------------------------------------------------------------------------------------------------
# the interface of check.py

def impl(case):
    op = case['op']
    if op == 'entrypoints':
        return impl_entrypoints(case)
    if op == 'plughist':
        return impl_plughist(case)
    if op == 'openmatrix':
        return impl_openmatrix(case)
    if op == 'pathfn':
        return impl_pathfn(case)
    raise ValueError(op)


def to_request(case):
    if case['op'] == 'entrypoints':
        return req_entrypoints(case)
    return case


def _model_events(evs):
    return [{k: e.get(k) for k in (('ev', 'path', 'mode', 'encoding') if e['ev'] == 'open' else ('ev', 'path'))} for e in evs]


def _model_write(out):
    """reply of the four writer entries -> the view compared with the implementation"""
    if not isinstance(out, list):
        return out
    ts, tb, wf, ws = [o['result'] for o in out]
    return {'to_string': ts, 'to_bytes': tb, 'file': wf.get('bytes') if isinstance(wf, dict) and 'bytes' in wf else wf,
            'stream': ws.get('stream') if isinstance(ws, dict) and 'stream' in ws else ws}


def model_out(case, reply):
    op = case['op']
    if op == 'entrypoints':
        if 'pong' in reply:
            return {'skip': True}
        out = reply['out']
        if not isinstance(out, list):
            return out
        if case.get('world') is not None:
            o = out[0]
            r = o['result']
            if case['side'] == 'read':
                res = 'ok' if isinstance(r, list) else {'err': r['err'], 'message': r.get('message')}
            else:
                res = {'ok': r['file']} if 'file' in r else {'err': r['err'], 'message': r.get('message')}
            return {'events': _model_events(o['events']), 'result': res}
        if case['side'] == 'read':
            return [o['result'] for o in out]
        return _model_write(out)
    if op == 'openmatrix':
        o = reply['out']
        r = o['result']
        if 'err' in r:
            r = {'err': {'kind': r['err']['kind'], 'message': r['err']['message']}}
        return {'events': _model_events(o['events']), 'result': r}
    return reply['out']


def compare_view(io):
    """The part of the implementation's output the model predicts."""
    if isinstance(io, dict) and 'skip' in io:
        return {'skip': True}
    if isinstance(io, dict) and 'paths' in io:
        return io['paths']
    if isinstance(io, dict) and 'reference' in io:
        r = io['result']
        if 'ok' in r and 'entries' in r['ok']:
            res = 'ok'                                   # parse_file returned a database
        elif 'ok' in r:
            res = {'ok': sorted(r['ok'])[0] if len(r['ok']) == 1 else sorted(r['ok'])}    # to_file: the path(s) written
        else:
            msg = r.get('message')
            res = {'err': r['err'], 'message': msg if msg and msg.startswith('unable to open') else None}
        return {'events': io['events'], 'result': res}
    if isinstance(io, dict) and 'events' in io and isinstance(io.get('result'), dict) and isinstance(io['result'].get('err'), dict):
        e = io['result']['err']
        return {'events': io['events'], 'result': {'err': {'kind': e['kind'], 'message': e['message']}}}
    if isinstance(io, dict) and 'results' in io:
        r = io['results']
        return {'to_string': r['to_string'], 'to_bytes': r['to_bytes'], 'file': r['to_file(path,name)'],
                'stream': r['to_file(memory stream,name)']}
    return io


def _is_internal(x):
    return isinstance(x, dict) and isinstance(x.get('err'), str) and x['err'].startswith('INTERNAL')


def _short(x, n=160):
    s = json.dumps(x, ensure_ascii=False)
    return s if len(s) <= n else s[:n] + '...'


def oracle(case, io, reply):
    op = case['op']
    fails = []
    if op == 'pathfn':
        return fails
    if op == 'plughist':
        spec = reply.get('spec') or []
        for i, (a, o) in enumerate(zip(io, case['ops'])):
            if isinstance(a, dict) and str(a.get('err', '')).startswith('INTERNAL'):
                fails.append('runtime_plugins: step %d %s raised %s (%s)' % (i, _short(o), a['err'], a.get('msg')))
                break
            want = spec[i] if i < len(spec) else None
            if o['o'] != 'enum' and want is not None and a != want:
                clause = 'suffix_eq_name' if o['o'] == 'find' and o.get('filename') and not (o.get('name') or {}).get('v') else 'runtime_plugins'
                fails.append('%s: step %d %s gives %s, the one-table reference gives %s (history %s)' % (
                    clause, i, _short(o), _short(a), _short(want), _short([_op_short(x) for x in case['ops'][:i]], 400)))
                break
        return fails
    if op == 'openmatrix':
        r = io['result']
        w = case['world']
        if r.get('touched'):
            fails.append('open_faults: the file-like argument was read, moved or closed by open_%s' % case['fn'])
        if case['arg'] == 'stream':
            if r.get('ok') != 'passthrough' or io['events']:
                fails.append('open_faults: a file-like object did not pass through untouched: %s events %s' % (_short(r), _short(io['events'])))
            return fails
        opens = [e['path'] for e in io['events'] if e['ev'] == 'open']
        failing = dict((p, m) for p, m in w['fail'])
        if 'err' in r:
            e = r['err']
            if e['kind'] != 'PybtexError':
                fails.append('open_faults: failure to open %r surfaced as %s: %s' % (case['path'], e['kind'], e['message'][:120]))
            elif case['path'] not in e['rendered']:
                fails.append('open_faults: the error does not name the file %r: %r' % (case['path'], e['rendered']))
        if 'w' in case['mode']:
            env = dict(w['environ'])
            want = [case['path']]
            if case['path'] in failing and 'TEXMFOUTPUT' in env:
                want.append(posixpath.join(env['TEXMFOUTPUT'], case['path']))
            if opens != want:
                fails.append('open_faults: write attempts %r, expected %r (TEXMFOUTPUT=%r)' % (opens, want, env.get('TEXMFOUTPUT')))
            ok_expected = any(q not in failing for q in want)
            if ok_expected != ('ok' in r):
                fails.append('open_faults: write of %r with failing %r, TEXMFOUTPUT=%r ended in %s' % (
                    case['path'], sorted(failing), env.get('TEXMFOUTPUT'), _short(r)))
            elif 'ok' in r and r['ok'].get('handle') != [q for q in want if q not in failing][0]:
                fails.append('open_faults: opened %r instead of %r' % (r['ok'].get('handle'), [q for q in want if q not in failing][0]))
            elif 'err' in r and failing[case['path']] not in r['err']['message']:
                fails.append('open_faults: double failure does not report the first error %r: %r' % (failing[case['path']], r['err']['message']))
        else:
            if len(opens) > 1:
                fails.append('open_faults: %d open attempts for a read' % len(opens))
        return fails
    # entrypoints
    if 'skip' in io:
        r = io.get('results', {})
        for k, v in r.items():
            if _is_internal(v):
                fails.append('entry_points_agree: %s raised %s' % (k, v['err']))
        return fails
    if 'reference' in io:                      # a fault world through parse_file / to_file
        r = io['result']
        if 'err' in r:
            if r['err'] != 'PybtexError':
                fails.append('open_faults: %s of %r in a world with failing opens raised %s: %s' % (
                    'parse_file' if case['side'] == 'read' else 'to_file', case['path'], r['err'], r.get('message', '')[:120]))
            elif case['path'] not in r.get('rendered', ''):
                fails.append('open_faults: the error does not name the file %r: %r' % (case['path'], r.get('rendered')))
        elif case['side'] == 'read':
            if r['ok'] != io['reference']:
                fails.append('entry_points_agree: parse_file through the fall-back location differs from parse_string')
        else:
            vals = list(r['ok'].values())
            if len(vals) != 1 or vals[0] != io['reference']:
                fails.append('write_entry_points: to_file in a world with failing opens wrote %s, to_bytes is %s' % (_short(r['ok']), _short(io['reference'])))
        return fails
    res = io['results']
    for k, v in res.items():
        if _is_internal(v):
            fails.append('entry_points_agree: %s raised %s (format %s, encoding %s)' % (k, v['err'], case['fmt'], case['enc']))
    if fails:
        return fails
    if case['side'] == 'read':
        ref = res['parse_string']
        for k, v in res.items():
            if v != ref:
                cl = 'suffix_eq_name' if k.startswith('parse_file(path.') or 'by its name' in k else 'entry_points_agree'
                fails.append('%s: %s differs from parse_string (format %s, encoding %s): %s vs %s' % (
                    cl, k, case['fmt'], case['enc'], _short(v), _short(ref)))
                break
        return fails
    meta = io['meta']
    text, enc = res['to_string'], meta['enc']
    if not isinstance(text, str):
        return fails                                  # a pybtex error from the writer
    doc = xml_decl(enc) + text + '\n' if meta['family'] == 'bibtexml' else text
    want = hx(doc.encode(enc))
    if res['to_bytes'] != want:
        fails.append('write_entry_points: to_bytes is not the to_string document%s encoded in %s (format %s): got %s want %s' % (
            ' with its XML declaration' if meta['family'] == 'bibtexml' else '', enc, case['fmt'], _short(_peek(res['to_bytes'])), _short(_peek(want))))
        return fails
    bom_corner = meta['u'] and text == '' and want != ''
    for k, v in res.items():
        if k in ('to_string', 'Writer.to_string'):
            if v != text:
                fails.append('write_entry_points: %s differs from to_string' % k)
        elif k == 'to_file(memory stream,name)':
            wantv = streamj(text if meta['u'] else bytes.fromhex(want))
            if v != wantv:
                fails.append('write_entry_points: a file-like object received %s, expected %s' % (_short(v), _short(wantv)))
        elif v != want:
            cl = 'suffix_eq_name' if k.startswith('to_file(path.') or 'by its name' in k else 'write_entry_points'
            fails.append('%s: %s wrote bytes that differ from to_bytes (format %s, encoding %s)%s: %s' % (
                cl, k, case['fmt'], enc, BOM_TAG if bom_corner else '', _short(_peek(v))))
            break
    return fails


BOM_TAG = ' [empty document under a BOM codec]'
FINDING_BOM = 'C17-empty-document-bom'
KNOWN_MATCHERS = {
    FINDING_BOM: lambda case, io, f: BOM_TAG in f and case.get('op') == 'entrypoints' and case.get('side') == 'write',
}


@functools.lru_cache(maxsize=None)
def finding_listed(fid):
    """Is the finding recorded in known_findings.json?  (Read only; the witness is generated only then, because an
    unlisted oracle failure is a VIOLATION.)"""
    try:
        with open(os.path.join(compat.VERIF, 'known_findings.json')) as f:
            return any(k.get('property') == ID and k.get('id') == fid for k in json.load(f).get('findings', []))
    except Exception:  # noqa
        return False


def _peek(h):
    """first bytes of a hex string, readable"""
    if not isinstance(h, str):
        return h
    try:
        return bytes.fromhex(h[:120]).decode('latin-1')
    except ValueError:
        return h[:120]


def _op_short(o):
    if o['o'] == 'register':
        return 'reg(%s,%s,%s%s)' % (o['g'].replace('pybtex.database.', ''), o['n'], o['k'], ',force' if o['force'] else '')
    if o['o'] == 'find':
        n = o.get('name')
        return 'find(%s,%s,%s)' % (o['g'].replace('pybtex.database.', ''), n and n.get('v'), o.get('filename'))
    return 'enum(%s)' % o['g']


def buckets(case, io):
    op = case['op']
    if op == 'entrypoints':
        if isinstance(io, dict) and 'skip' in io:
            return ['entrypoints:skip:' + io['skip'].split(':')[0]]
        tag = 'fault' if case.get('world') is not None else 'agree'
        return ['entrypoints:%s:%s:%s:%s' % (case['side'], tag, case['fmt'], case['enc'])]
    if op == 'plughist':
        return ['plughist:len=%d' % len([o for o in case['ops'] if o['o'] == 'register'])]
    if op == 'openmatrix':
        r = io['result']
        return ['openmatrix:%s:%s:%s' % (case['arg'], 'write' if 'w' in case['mode'] else 'read', 'ok' if 'ok' in r else 'error')]
    return ['pathfn:' + case['fn']]


def nontrivial(case, io):
    return not (isinstance(io, dict) and 'skip' in io)


def corpus():
    return corpus_for(ID)


def valid_case(c):
    if c.get('op') == 'plughist':
        return isinstance(c.get('ops'), list) and all(isinstance(o, dict) and o.get('o') in ('register', 'find', 'enum') and
                                                      (o['o'] != 'register' or (o.get('k') in ('K1', 'K2', 'K3') and isinstance(o.get('force'), bool)))
                                                      for o in c['ops'])
    if c.get('op') == 'entrypoints':
        return c.get('side') in ('read', 'write') and isinstance(c.get('bib'), str) and isinstance(c.get('fmt'), str) and '\r' not in c['bib']
    if c.get('op') == 'openmatrix':
        return bool(c.get('path')) and isinstance(c.get('world'), dict) and c.get('mode') in ('r', 'rb', 'w', 'wb')
    return c.get('op') == 'pathfn'


# ------------------------------------------------------------------------------------------------
# generators

G = IN
REG = [
    (G, 'n1', 'K1', False), (G, 'n1', 'K2', False), (G, 'n1', 'K2', True),
    (G + '.aliases', 'n1', 'K3', False), (G + '.aliases', 'a1', 'K3', False), (G + '.aliases', 'a1', 'K1', True),
    (G, 'yaml', 'K1', False), (G, 'yaml', 'K1', True), (G, 'bibyaml', 'K2', False), (G + '.aliases', 'bibyaml', 'K3', False),
    (G + '.suffixes', '.s1', 'K1', False), (G + '.suffixes', '.yaml', 'K2', False), (G + '.suffixes', '.yaml', 'K2', True),
    (G + '.aliases', 'yaml', 'K3', False),
]
REG_SMALL = [0, 1, 2, 4, 6, 7, 8, 10]


def _reg(t):
    return {'o': 'register', 'g': t[0], 'n': t[1], 'k': t[2], 'force': t[3]}


def _find(g, name=None, filename=None, cls=None):
    n = {'t': 'cls', 'v': cls} if cls else ({'t': 'str', 'v': name} if name is not None else None)
    return {'o': 'find', 'g': g, 'name': n, 'filename': filename}


PROBES = [_find(G, 'n1'), _find(G, 'a1'), _find(G, 'yaml'), _find(G, 'bibyaml'), _find(G, filename='d.x/f.s1'),
          _find(G, filename='x.yaml'), _find(G), {'o': 'enum', 'g': G}]


def _hist(regs):
    ops = []
    for t in regs:
        ops.append(_reg(t))
        ops.extend(PROBES)
    return {'op': 'plughist', 'ops': ops}


def gen_plughist(tier, rng, info):
    cases = [_hist([])]
    full = 3 if tier == 'quick' else 4
    n_full = 0
    for n in range(1, full + 1):
        for tup in itertools.product(REG, repeat=n):
            cases.append(_hist(tup))
            n_full += 1
    n_small = 0
    if tier == 'quick':
        for tup in itertools.product([REG[i] for i in REG_SMALL], repeat=4):
            cases.append(_hist(tup))
            n_small += 1
    # every installed entry is found under its own key, every suffix from a file name
    table = installed_table()
    bases = sorted({g for g, _n, _v in table if not g.endswith(('.aliases', '.suffixes'))})
    singles = []
    for g, n, _v in table:
        if g.endswith('.suffixes'):
            base = g[:-len('.suffixes')]
            singles += [_find(base, filename='stem' + n), _find(base, filename='/a.b/c.d' + n), _find(base, filename='..x' + n),
                        _find(base, filename=n), _find(base, filename='dir' + n + '/noext')]
        elif g.endswith('.aliases'):
            singles.append(_find(g[:-len('.aliases')], n))
        else:
            singles.append(_find(g, n))
    for b in bases:
        singles += [_find(b), _find(b, ''), _find(b, filename=''), _find(b, filename='noext'), _find(b, '.bib'), _find(b, 'nope'),
                    _find(b, filename='x.nope'), _find(b, cls='K1'), {'o': 'enum', 'g': b}, _find(b + '.suffixes', '.bib'), _find(b + '.aliases', 'x')]
    singles += [_find('pybtex.invalid', 'x'), _find('pybtex.invalid', cls='K2'), _find('', 'x'),
                _reg(('pybtex.invalid', 'x', 'K1', False)), _reg(('pybtex.invalid.suffixes', '.x', 'K1', False)),
                _reg(('pybtex.invalid.suffixes', 'x', 'K1', False)), _reg((G + '.suffixes', 'nodot', 'K1', False)),
                _reg((G + '.suffixes', '', 'K1', True)), _reg((G + '.suffixes.aliases', 'x', 'K1', False)),
                _reg(('.suffixes', '.x', 'K1', False)), _reg((G + '.aliases.suffixes', '.x', 'K1', False))]
    for i in range(0, len(singles), 12):
        cases.append({'op': 'plughist', 'ops': singles[i:i + 12]})
    # random longer histories over all groups
    names = ['n1', 'a1', 'yaml', 'bibyaml', 'plain', 'latex', 'text', '.s1', '.yaml', '.bib', '', 'x.y']
    groups = bases + [b + s for b in bases[:3] for s in ('.aliases', '.suffixes')] + ['pybtex.invalid']
    for _ in range(300 if tier == 'quick' else 6000):
        ops = []
        for _i in range(rng.randint(3, 14)):
            r = rng.random()
            g = rng.choice(groups)
            if r < 0.45:
                ops.append(_reg((g, rng.choice(names), rng.choice(['K1', 'K2', 'K3']), rng.random() < 0.3)))
            elif r < 0.8:
                ops.append(_find(g, rng.choice(names)))
            elif r < 0.95:
                ops.append(_find(g, filename=rng.choice(['a', 'dir/', '.x', 'x..', 'a.b/c']) + rng.choice(names)))
            else:
                ops.append({'o': 'enum', 'g': g})
        cases.append({'op': 'plughist', 'ops': ops})
    info['scope_plug'] = ('every history of <= %d registrations over %d calls (%d histories)%s, 8 probes after each; %d single calls covering every installed '
                          'entry and the error paths' % (full, len(REG), n_full, ' + every history of 4 over %d calls (%d)' % (len(REG_SMALL), n_small) if n_small else '',
                                                        len(singles)))
    return cases


def gen_openmatrix(info):
    cases = []
    # reading
    for fn, mode, enc in (('raw', 'rb', None), ('unicode', 'r', None), ('unicode', 'r', 'latin-1')):
        for path in ('f.bib', 'sub/f.bst'):
            for isfile in (True, False):
                for loc in ({'kind': 'none'}, {'kind': 'found', 'path': '/texmf/' + path}, {'kind': 'found', 'path': ''},
                            {'kind': 'error', 'strerror': 'No such file or directory'}):
                    for fail_p in (False, True):
                        for fail_q in (False, True):
                            fail = ([[path, 'No such file or directory']] if fail_p else []) + \
                                   ([['/texmf/' + path, 'Permission denied']] if fail_q else [])
                            w = {'isfile': [path] if isfile else [], 'locate': loc, 'fail': fail, 'environ': [['TEXMFOUTPUT', '/out']]}
                            cases.append({'op': 'openmatrix', 'fn': fn, 'mode': mode, 'encoding': enc, 'arg': 'path', 'path': path, 'world': w})
    # writing
    for fn, mode, enc in (('raw', 'wb', None), ('unicode', 'w', None), ('unicode', 'w', 'utf-16')):
        for path in ('a.bbl', 'sub/a.bbl', '/abs/a.bbl'):
            for tex in (None, '/out', '/out/', '', 'rel'):
                for fail1 in (False,) + tuple(WRITE_FAILS):
                    for fail2 in (False, True):
                        env = [['HOME', '/h']] + ([['TEXMFOUTPUT', tex]] if tex is not None else [])
                        second = posixpath.join(tex, path) if tex is not None else None
                        fail = [[path, fail1]] if fail1 else []
                        if fail2 and second is not None and second != path:
                            fail.append([second, 'Read-only file system'])
                        elif fail2 and second is None:
                            continue
                        w = {'isfile': [], 'locate': {'kind': 'none'}, 'fail': fail, 'environ': env}
                        cases.append({'op': 'openmatrix', 'fn': fn, 'mode': mode, 'encoding': enc, 'arg': 'path', 'path': path, 'world': w})
    # file-like objects
    for fn, mode in (('raw', 'rb'), ('raw', 'wb'), ('unicode', 'r'), ('unicode', 'w')):
        w = {'isfile': [], 'locate': {'kind': 'error', 'strerror': 'x'}, 'fail': [['s', 'y']], 'environ': [['TEXMFOUTPUT', '/out']]}
        cases.append({'op': 'openmatrix', 'fn': fn, 'mode': mode, 'encoding': None, 'arg': 'stream', 'path': 's', 'world': w})
    info['scope_open'] = '%d worlds x calls of open_raw / open_unicode' % len(cases)
    return cases


def gen_pathfn(info):
    cases = []
    for n in range(0, 7):
        for tup in itertools.product('a./', repeat=n):
            cases.append({'op': 'pathfn', 'fn': 'splitext', 'a': ''.join(tup)})
    for p in ('x.bib', 'dir.d/x', 'a.b.c', '.hidden', '..', 'x.', 'd/.x.y', 'café.yaml', 'x. bib', 'x.\n', '/.bib', 'a/b.c/'):
        cases.append({'op': 'pathfn', 'fn': 'splitext', 'a': p})
    parts = [''.join(t) for n in range(0, 4) for t in itertools.product('a/', repeat=n)]
    for a in parts:
        for b in parts:
            cases.append({'op': 'pathfn', 'fn': 'join', 'a': a, 'b': b})
    info['scope_path'] = 'splitext on every string over {a . /} up to length 6; join on every pair over {a /} up to length 3'
    return cases


ENCODINGS = [None, 'utf-8', 'utf-16', 'latin-1']


def format_names():
    """every name and alias of the reader group (the writer group has the same)"""
    t = installed_table()
    return sorted({n for g, n, _v in t if g in (IN, IN + '.aliases')} & {n for g, n, _v in t if g in (OUT, OUT + '.aliases')})


def _inject(rng, doc, pool):
    """Put non-ASCII text into some field values / a person name of an abstract document."""
    for cmd in doc:
        if cmd['k'] == 'entry' and rng.random() < 0.8:
            cmd['fields'].append(['abstract', [{'lit': rng.choice(pool) + ' ' + rng.choice(pool)}]])
            if rng.random() < 0.3 and not any(n.lower() in ('author', 'editor') for n, _ in cmd['fields']):
                cmd['fields'].append(['author', [{'lit': 'Müller, Jürgen and %s, X' % rng.choice(INJECT_L1)}]])
    return doc


def gen_entrypoints(tier, rng, info):
    cases = []
    fmts = format_names()
    n_fixed = 0
    for bib in FIXED_DBS:
        for fmt in fmts:
            for enc in ENCODINGS:
                for side in ('read', 'write'):
                    cases.append({'op': 'entrypoints', 'side': side, 'fmt': fmt, 'enc': enc, 'bib': bib})
                    n_fixed += 1
                if fmt == 'bibtex':
                    cases.append({'op': 'entrypoints', 'side': 'read', 'fmt': fmt, 'enc': enc, 'bib': bib, 'source': 'bib'})
    # fault worlds through parse_file / to_file, every format
    n_fault = 0
    bib = FIXED_DBS[2]
    for fmt in fmts:
        for enc in (None, 'latin-1'):
            rd = {'op': 'entrypoints', 'side': 'read', 'fmt': fmt, 'enc': enc, 'bib': bib}
            worlds = [
                ('in.dat', ['in.dat'], {'isfile': ['in.dat'], 'locate': {'kind': 'none'}, 'fail': [], 'environ': []}),
                ('in.dat', [], {'isfile': [], 'locate': {'kind': 'none'}, 'fail': [], 'environ': []}),
                ('in.dat', ['/texmf/in.dat'], {'isfile': [], 'locate': {'kind': 'found', 'path': '/texmf/in.dat'}, 'fail': [], 'environ': []}),
                ('in.dat', ['/texmf/in.dat'], {'isfile': [], 'locate': {'kind': 'found', 'path': '/texmf/in.dat'},
                                              'fail': [['/texmf/in.dat', 'Permission denied']], 'environ': []}),
                ('in.dat', ['in.dat'], {'isfile': ['in.dat'], 'locate': {'kind': 'none'}, 'fail': [['in.dat', 'Permission denied']], 'environ': []}),
                ('in.dat', [], {'isfile': [], 'locate': {'kind': 'error', 'strerror': 'No such file or directory'}, 'fail': [], 'environ': []}),
            ]
            for path, files, w in worlds:
                cases.append(dict(rd, world=w, path=path, files=files))
                n_fault += 1
            if fmt == 'bibtex' and enc is None:          # undecodable file: parse_file turns UnicodeDecodeError into a PybtexError
                cases.append(dict(rd, world=worlds[0][2], path='in.dat', files=['in.dat'], corrupt=True))
                n_fault += 1
            wr = {'op': 'entrypoints', 'side': 'write', 'fmt': fmt, 'enc': enc, 'bib': bib}
            for tex in (None, '/out'):
                for f1 in (False,) + tuple(WRITE_FAILS[:3]):
                    for f2 in (False, True):
                        if f2 and tex is None:
                            continue
                        fail = ([['o.dat', f1]] if f1 else []) + ([['/out/o.dat', 'Read-only file system']] if f2 else [])
                        w = {'isfile': [], 'locate': {'kind': 'none'}, 'fail': fail, 'environ': [['TEXMFOUTPUT', tex]] if tex else []}
                        cases.append(dict(wr, world=w, path='o.dat', files=[]))
                        n_fault += 1
    n_rand = 150 if tier == 'quick' else 1500
    for i in range(n_rand):
        doc = bibgen.gen_doc(rng, max_cmds=4)
        l1 = rng.random() < 0.4
        doc = _inject(rng, doc, INJECT_L1 if l1 else INJECT_L1 + INJECT_ANY)
        bib = bibgen.render(doc, bibgen.Layout([], rng), {'ws': rng.choice([0, 1, 3, 4, 7])})
        for fmt in fmts:
            encs = ENCODINGS if l1 else ENCODINGS[:3]
            for enc in (encs if tier != 'quick' else [rng.choice(encs), rng.choice(encs)]):
                for side in ('read', 'write'):
                    cases.append({'op': 'entrypoints', 'side': side, 'fmt': fmt, 'enc': enc, 'bib': bib})
            if fmt == 'bibtex':
                cases.append({'op': 'entrypoints', 'side': 'read', 'fmt': fmt, 'enc': rng.choice(encs), 'bib': bib, 'source': 'bib'})
    info['scope_entry'] = ('%d hand-made databases x format names %r x encodings %r x {read, write}: every entry point and every registered suffix (%d cases); '
                           '%d fault worlds through parse_file / to_file; %d random databases' % (len(FIXED_DBS), fmts, ENCODINGS, n_fixed, n_fault, n_rand))
    return cases


def gen_cases(tier, rng, info):
    _memo_entry_points()
    cases = []
    cases += gen_pathfn(info)
    cases += gen_openmatrix(info)
    cases += gen_plughist(tier, rng, info)
    cases += gen_entrypoints(tier, rng, info)
    info['exhaustive'] = True
    info['scope'] = '; '.join(info.pop(k) for k in ('scope_entry', 'scope_plug', 'scope_open', 'scope_path'))
    return cases


LEVEL_TEXT = ('Machine-checked (Lean 4) theorems about an executable model of pybtex\'s entry-point plumbing: the unicode_io dispatch of BaseParser / BaseWriter and '
              'the BibTeX / BibTeXML overrides (all entry points are one computation up to the codec), find_plugin / register_plugin over the regenerated '
              'entry-point tables and a run-time registry (refinement to a one-table reference by induction over every history; suffix = name decided over the '
              'tables and lifted to every file name), and pybtex.io._open with its kpsewhich and TEXMFOUTPUT logic (every failure pattern, with the sequence of '
              'open attempts). Tied to the code by a correspondence check that drives every public entry point on real files and streams, real codecs, the real '
              'module registry and a patched pybtex.io.')
LEVEL_NOTE = ('PARTIAL by nature. MODELLED and proved: which core function each entry point reaches and with what (text or bytes, encoded/decoded by which codec '
              'call), what write_file leaves in the file, the XML declaration + strip/newline bookkeeping of the BibTeXML writer, plug-in lookup order / aliases / '
              'suffixes / force, os.path.splitext and posixpath.join, the open / fall-back / error-wrapping logic and the order of open attempts. ASSUMED (parameters '
              'of the theorems, exercised for real by the correspondence but never proved): the codecs (only `dec (enc s) = s` for the document at hand is used), '
              'TextIOWrapper = codec (+ identity newline translation), that a file yields the bytes written to it, the plug-ins\' own parsing and printing cores '
              '(BibTeX reader/writer, PyYAML, xml.sax, ElementTree: "ElementTree reads a declared, encoded document as it reads the text" is a hypothesis), '
              'kpsewhich, os.environ, importlib.metadata (its answer is regenerated into Gen/Plugins.lean and compared with setup.py; stale metadata breaks the '
              'build), latexcodec. Not covered: undecodable bytes handed to parse_bytes (UnicodeDecodeError by design of the API), streams of the wrong kind '
              '(text stream to a byte plug-in), newline translation on non-POSIX platforms, concurrent modification of the registry. The model follows /repo WITH '
              'proposed fixes C17-1 (plugin), C17-2 (YAML plug-ins honour `encoding`), C17-3 (BibTeXML parse_string). Recorded boundary (finding C17-empty-document-bom, '
              'C17_write_file_partial / _neg): for the EMPTY document under a byte-order-mark codec to_bytes is the mark while the written file stays empty.')
