"""C17 -- string / bytes / stream / file entry points agree; I/O faults become pybtex errors.

Five case families, four driver ops (lean/PybtexModel/Drv/C17.lean):

entrypoints  one (database, format name, encoding): every reader (resp. writer) entry point of the REAL code is run on
             it -- module functions, BibliographyData methods, plug-in methods, real temporary files, file objects,
             in-memory streams (named and unnamed), every registered suffix -- and canonicalised; a probe subclass of the
             real plug-in class records what the dispatch layer hands to the plug-in's own core, which is what the model
             computes (codec = finite table filled with the real codec's answers).  Format names: the installed names and
             aliases, and two SYNTHETIC third-party plug-ins (BaseParser / BaseWriter subclasses overriding only
             parse_stream / write_stream, unicode_io True and False) registered through register_plugin under a name, an
             alias and a suffix.  With `world`: the same through a patched `pybtex.io` (in-memory files, chosen opens
             fail).  With `more`: parse_files over 0..3 real files, one possibly missing, against parsing the strings in
             turn on one parser.
plughist     a history of register_plugin / find_plugin / enumerate_plugin_names calls on the real module
             (`_RUNTIME_PLUGINS` emptied before, restored after).
openmatrix   one call of open_raw / open_unicode in a world where chosen opens fail, isfile / environ given, and the
             process `pybtex.kpathsea.kpsewhich` starts replaced (return code + output, or cannot be started): the real
             kpsewhich function runs.
kpse         open_raw / open_unicode / parse_file with NOTHING patched: real temporary files and a kpsewhich program of
             our own first on PATH (driver op openmatrix).
pathfn       os.path.splitext, posixpath.join.
modfile / openx / guard   see props/c17_ext.py: every kind of `file` argument of database.parse_file / to_file; pybtex.io when io.open /
             Popen raise exceptions that are not EnvironmentErrors; the isinstance guards of BaseParser.parse_string / parse_bytes.
"""
import contextlib
import errno
import functools
import io as _io
import itertools
import json
import os
import posixpath
import shutil
import tempfile
from unittest import mock

import compat
import bibgen
from props.base import corpus_for
from props import c17_ext as X

ID = 'C17'
LEAN_MODULES = ['PybtexModel.Props.C17', 'PybtexModel.Props.WiringC17', 'PybtexModel.Props.C17x']
THEOREMS = {
    'C17_parse_entry_points': 'BaseParser (both unicode_io values; BibTeX; BibTeXML after fix C17-4), codec and parsing core abstract: IF dec(enc s) = s, the name IS AN EXISTING FILE '
                              '(hfile), the one open call succeeds on a file holding enc s, AND for unicode_io classes s CONTAINS NO CARRIAGE RETURN (hnl), THEN parse_bytes(enc s) = '
                              'parse_stream = parse_file(file-like) = parse_file(path) = parse_files([base], suffix) = parse_string(s); with CR / not a file: the next two entries',
    'C17_parse_file_newlines': 'the true file/string relation when the text has carriage returns: name is a file, the one open succeeds, file holds enc s, dec(enc s) = s => a unicode_io '
                               'class parses the file as parse_string(univNl s) (CRLF and lone CR -> LF, the text-mode translation), a byte class as parse_string(s); univNl s is '
                               'CR-free and is s when s is CR-free',
    'C17_parse_file_any_location': 'the same WITHOUT "the name is a file": only "pybtex.io._open ends with a handle whose file holds enc s" is assumed (the name itself, the bytes path '
                                   'kpsewhich printed, or the name again); parse_file = parse_string(univNl s) for unicode_io classes, parse_string(s) for byte classes or CR-free s',
    'C17_parse_entry_points_bibtexml': 'BibTeXML (reader after fix C17-4): for the DECLARED document the writer produces, enc(xmlDecl name ++ s ++ newline), with the '
                                       'explicit hypotheses "the codec represents that document" (whatever it is called), "ElementTree ignores the declaration inside a str" (hdecl), the declared '
                                       'document is CR-free (hnl), the name is an existing file whose one open succeeds: parse_bytes = parse_stream = parse_file(file-like) = parse_file(path) = parse_string(s)',
    'C17_parse_files': 'parse_files is the sequential composition of parse_file on one parser: no file -> the database unchanged and nothing opened; fs1 ++ fs2 -> fs1 then fs2 '
                       'on the result; a failure in the middle -> that error, the events so far, no later file looked at',
    'C17_write_entry_points': 'BaseWriter (codec and printing core abstract; to_string / to_bytes are both defined through write_stream in the model): unicode_io -> to_bytes = enc(to_string) unconditionally; byte plug-ins -> to_string = dec(to_bytes) and write_file leaves '
                              'exactly to_bytes after one open; a file-like object receives what write_stream writes; core errors are the same everywhere '
                              '(world: only the one open call write_file makes is assumed to succeed)',
    'C17_write_file_partial': 'unicode_io plug-ins: write_file leaves exactly to_bytes in the file after one text-mode open with the encoding, PROVIDED write_stream '
                              'calls stream.write at least once or the codec encodes "" as no bytes',
    'C17_write_file_neg': 'witness that the proviso is needed: no write call + byte-order-mark codec: to_bytes is the mark, the file stays empty (finding C17-empty-document-bom)',
    'C17_write_entry_points_bibtexml': 'BibTeXML, UNDER hshape (the pretty-XML body, an abstract parameter, is strip(body) ++ one newline: ASSUMED, the text-level _PrettyXMLWriter is not '
                                       'modelled) and hutf8 (the hard-wired UTF-8 codec round-trips) and one successful wb open: to_bytes = enc(XML declaration naming the encoding ++ to_string '
                                       '++ newline); write_file leaves exactly that',
    'C17_write_entry_points_bibtexml_body': 'BibTeXML WITHOUT hshape, hutf8 only for the body at hand: to_string = strip(body), to_bytes = enc(declaration ++ body), write_file leaves exactly '
                                            'to_bytes after one wb open; "to_bytes = declaration ++ to_string ++ newline" holds for a document IFF its body has the shape hshape',
    'C17_write_entry_points_bibtexml_shape_neg': 'witness that hshape is needed: a core whose XML body ends in two newlines has to_bytes different from enc(declaration ++ to_string ++ newline)',
    'C17_suffix_eq_name': 'regenerated tables: every suffix entry is found from EVERY file name dir/stem.sfx, its class is reachable by a name or alias, and every '
                          'named class with a default_suffix is what that suffix selects',
    'C17_module_functions': 'database.parse_* / BibliographyData.to_*: a class given as format is used as it is, no format + unnamed stream = the default plug-in, and over the '
                            'regenerated tables every reader / writer suffix selects from every file name dir/stem.sfx the class SOME format name or alias selects (existential: which name '
                            'is not stated -- weaker than "suffix = naming it" for a fixed pairing)',
    'C17_tables_wf': 'regenerated tables: no duplicate (group, name), groups are base groups or their .aliases/.suffixes, defaults exist, importlib.metadata = setup.py',
    'C17_classes_wf': 'regenerated class wiring (unicode_io + overridden entry points) of every installed reader/writer is one the model knows, and the three formats '
                      'are wired as the theorems are applied to them',
    'C17_runtime_plugins': 'after ANY history, for a key (group, name) that PASSES THE ARGUMENT CHECKS (hb: name non-empty / suffix starts with a period ...: baseGroup succeeds; hd: '
                           'the base group is a known plug-in group): a free or forced key registers (True), then yields exactly the new class, other keys untouched; a taken key unforced '
                           'returns False and the registry is unchanged; the two-table implementation refines the one-table reference for the whole history',
    'C17_runtime_found_like_installed': 'a run-time name is found by name, a run-time alias by name unless a real name hides it, a run-time suffix from every file name dir/stem.sfx',
    'C17_installed_not_shadowed': 'after ANY history without a forced registration every installed key still yields its installed class',
    'C17_enumerate_plugin_names': 'enumerate_plugin_names lists exactly the names an exact lookup in the group finds (run-time and installed alike, never an alias or suffix), '
                                  'run-time names first; a registration in another group never changes it',
    'C17_open_faults': 'all worlds whose io.open / Popen fail ONLY with EnvironmentError (Env.opener : Except IOErr; LookupError of an unknown encoding, ValueError are not representable): '
                       'file-like passes through; every such failure is the PybtexError for the name given; read = one attempt (name if file, else what kpsewhich '
                       'returned, else name); write = first attempt, then TEXMFOUTPUT-joined second attempt iff set, success there is success, double failure reports the first error',
    'C17_kpsewhich': 'pybtex.kpathsea.kpsewhich for every behaviour of the program: cannot be started -> pybtex error for the name, nothing opened; non-zero exit -> the name '
                     'itself is opened; exit 0 -> the printed bytes minus trailing ASCII white space are opened as a bytes path (the name itself if nothing is left)',
    'C17_fallback_path': 'posixpath.join(dir, name) is dir/name for a relative name (dir non-empty, no trailing slash); an absolute name is retried unchanged',
    'C17_module_file_argument': '[model wiring: every conjunct is rfl, restates moduleFileName] parse_file / to_file (code WITH fix C17-x1): a file-like object whose name is the str p is treated as the path p = find_plugin(group, format, filename=p); a bytes path and a name that is absent / bytes / int are treated as an unnamed stream; content is carried by op modfile and C17_module_file_argument_tables',
    'C17_module_file_argument_tables': 'regenerated tables, no format given: every file argument without a str name (bytes path; name absent / bytes / ANY int) gets the default plug-in = the class the name bibtex selects, never an error; a file-like object named dir/stem.sfx gets, for every installed suffix entry, the class of the suffix, which SOME format name selects too (existential, as C17_module_functions) (hypotheses: empty run-time registry; dir empty or ending in "/", stem without "/" and not made of periods only)',
    'C17_open_general_refines': 'pybtex.io._open modelled over a world whose io.open / Popen may raise ANY exception (EnvX): on worlds where every failure is an EnvironmentError '
                                'it makes the same attempts in the same order and returns the same handle / PybtexError as the model of C17_open_faults / C17_kpsewhich',
    'C17_open_foreign_exceptions': 'EVERY world (no assumption on what io.open / Popen raise): a PybtexError built by _open carries the name given; a file-like object passes through; '
                                   'an exception that is not an EnvironmentError leaves unconverted at the call that raised it: first write attempt -> one attempt, no TEXMFOUTPUT '
                                   'fall-back; EnvironmentError first + foreign exception at the fall-back attempt -> the foreign one leaves after the two attempts; read: from the one '
                                   'open call, or from starting kpsewhich (nothing opened); and a foreign exception that leaves was raised by some io.open call or by Popen',
    'C17_parse_guards': 'BaseParser.parse_string(bytes) / parse_bytes(str) raise the ValueError with the message of the source whatever core, codec and database are, and on '
                        'a value of the right type are parseString / parseBytes [model wiring]; IF dec(enc s) = s THEN parse_bytes(enc s) = parse_string(s) through the guards '
                        'for both unicode_io values of a class overriding parse_stream only',
}
RULE = ('entry points: a fixed set of hand-made databases x every installed reader/writer name and alias + two synthetic third-party plug-ins (unicode_io True / False, '
        'registered at run time) x encodings {default, utf-8, utf-16, latin-1, alias spellings utf8 / UTF8 / U8 / L1, utf-8-sig, utf-16-le, utf-32, cp1252, iso-8859-15, '
        'ascii -- when representable} x every entry point x every registered suffix (exhaustive over that configuration space); parse_files over 0..3 files with a '
        'missing file at each position; seeded random databases (bibgen) with non-ASCII / astral text injected; plug-in histories: every sequence of <= L registrations '
        'over a 14-call alphabet with 8 probes after each call, error calls, every installed entry; open matrix: every combination of {isfile, kpsewhich program: exit 1 / '
        'found / empty / cannot start / no newline / trailing white space / output but exit 1 / killed / non-ASCII path, open fails at name / at found / at fall-back, '
        'TEXMFOUTPUT unset/dir/dir-slash/empty, relative/nested/absolute name, raw/unicode, file-like}; real files + a kpsewhich program of our own on PATH; '
        'splitext over {a . /}^<=6, join over {a /}^<=3 pairs; module-level parse_file / to_file x {no format, every installed name, one alias} x every kind of '
        'file argument (str / bytes path, memory stream, TemporaryFile, open(str), open(bytes), open(fd), name attribute None / "" / str / int / bytes) x every '
        'installed suffix + lookup errors; 336 worlds whose io.open / Popen raise non-EnvironmentErrors at the first / fall-back / located attempt or when starting '
        'kpsewhich; parse_string / parse_bytes with a str and a bytes value on 5 reader classes x 3 encodings; non-trivial = anything but a skipped case; distinct by case JSON')
TRUSTED = ['codecs, TextIOWrapper, the file system, subprocess + /bin/sh (kpse family), PyYAML, xml.sax / ElementTree, latexcodec: exercised for real, never modelled',
           'importlib.metadata.entry_points is memoised per argument tuple inside the harness process (a pure function of the installed metadata; 3 ms per call otherwise)',
           'probe subclasses of the real plug-in classes replace ONLY the plug-in core (parse_stream / the text parser) to record what the '
           'dispatch layer hands over; every result compared by the oracle comes from the unmodified classes',
           'failure worlds are built by patching the names `io`, `posixpath`, `environ` inside pybtex.io and `Popen` inside pybtex.kpathsea (unittest.mock), never the '
           'global modules; the kpse family patches nothing (PATH of the worker process is changed for the duration of one case)']
ASSUMPTIONS = ['POSIX: writing to a text-mode file translates nothing (os.linesep is the line feed); reading one translates CRLF and CR to LF (modelled: univNl; '
               'documents with carriage returns are generated from programmatically built databases)',
               'a text-mode file holds str.encode of what was written to it, except that it stays empty when write was never called (modelled: textFile); '
               'hence finding C17-empty-document-bom: EMPTY document written without any write call under a BOM-writing codec (utf-16, utf-32, utf-8-sig: "".encode gives '
               'the BOM): its witness cases are generated only when the finding is listed in known_findings.json, skipped (bucket entrypoints:skip) otherwise',
               'a (format, encoding) pair is exercised only when the encoding can represent the document',
               'BibTeXML writer: the characters _PrettyXMLWriter sends through the XMLGenerator are an abstract parameter (WriterCore.xmlBody); that this body is '
               'strip(body) followed by exactly one newline is hypothesis hshape of C17_write_entry_points_bibtexml (needed: _shape_neg; without it: _body), and that the '
               'hard-wired UTF-8 codec round-trips the body is hypothesis hutf8; both are exercised by the correspondence on every BibTeXML case, never proved',
               'C17_open_faults / C17_kpsewhich: failures of io.open and of starting kpsewhich are EnvironmentErrors (IOErr), the only failures pybtex.io converts. Since the '
               'extension the general world EnvX (Model/IOArgs.lean) also has exceptions of any other class (LookupError of an unknown encoding name, ValueError ...): they '
               'leave unconverted at the call that raised them (C17_open_foreign_exceptions; family openx), and EnvX restricted to EnvironmentErrors is Env '
               '(C17_open_general_refines). The oracle demands nothing for them (argument errors, not failures to open a file)',
               'module-level parse_file / to_file: the model follows /repo WITH proposed fix C17-x1 (a `name` attribute that is not a str -- the descriptor number of '
               'tempfile.TemporaryFile() / open(fd), the bytes name of open(b"...") -- is not a file name to guess the format from); on a tree without it the check reports '
               'those calls (TypeError) as failing inputs of the modfile family. A bytes PATH is not used for guessing either (code as it is: isinstance(file, str))',
               'parse_file = parse_string needs CR-free text for unicode_io readers (C17_parse_entry_points hnl); otherwise the relation is univNl (C17_parse_file_newlines)',
               'BibTeXML reader: the model follows /repo WITH proposed fix C17-4 (the reader decodes with the encoding it was given); "ElementTree ignores an XML '
               'declaration inside a str" is hypothesis hdecl of C17_parse_entry_points_bibtexml, exercised by the correspondence']
SERIAL = False

READER_METHODS = ('parse_file', 'parse_files', 'parse_string', 'parse_bytes', 'parse_stream')
WRITER_METHODS = ('write_file', 'write_stream', '_to_string_or_bytes', 'to_string', 'to_bytes')
IN, OUT = 'pybtex.database.input', 'pybtex.database.output'


# ------------------------------------------------------------------------------------------------
# helpers on the real code

def _memo_entry_points():
    import pybtex.plugin as P
    if getattr(P.entry_points, '_verif_memo', False):
        return
    real, cache = P.entry_points, {}

    def entry_points(**kw):
        key = tuple(sorted(kw.items()))
        if key not in cache:
            cache[key] = real(**kw)
        return cache[key]
    entry_points._verif_memo = True
    entry_points._verif_real = real
    P.entry_points = entry_points


def class_id(cls):
    return '%s:%s' % (cls.__module__, cls.__qualname__)


def wiring(cls, side):
    from pybtex.database.input import BaseParser
    from pybtex.database.output import BaseWriter
    base, methods = (BaseParser, READER_METHODS) if side == 'read' else (BaseWriter, WRITER_METHODS)
    found = set()
    for c in cls.__mro__:
        if c is base:
            break
        found.update(m for m in methods if m in c.__dict__)
    return bool(cls.unicode_io), sorted(found)


@functools.lru_cache(maxsize=None)
def installed_table():
    """[(group, name, value)] as pybtex.plugin sees it."""
    import pybtex.plugin as P
    real = getattr(P.entry_points, '_verif_real', P.entry_points)
    eps = real()
    out = []
    for g in sorted(eps.groups):
        if g.startswith('pybtex.'):
            for ep in eps.select(group=g):
                out.append((g, ep.name, ep.value.replace(' ', '')))
    return sorted(out)


def suffixes_of(group, cls):
    """suffixes registered for the class: installed ones, then those registered at run time (the synthetic plug-ins)"""
    import pybtex.plugin as P
    cid = class_id(cls)
    inst = sorted(n for g, n, v in installed_table() if g == group + '.suffixes' and v == cid)
    return inst + sorted(n for n, k in P._RUNTIME_PLUGINS.get(group + '.suffixes', {}).items() if k is cls and n not in inst)


def family(cls):
    m = cls.__module__.rsplit('.', 1)[-1]
    return {'bibtex': 'bibtex', 'bibtexml': 'bibtexml'}.get(m, 'base')


# ---- synthetic third-party plug-ins: minimal BaseParser / BaseWriter subclasses that override ONLY parse_stream / write_stream,
# ---- one with unicode_io = True and one with False, registered through register_plugin (name, alias, suffix).  Their "format" is
# ---- BibTeX text, so that what they return can be compared; everything between the public entry point and parse_stream /
# ---- write_stream is BaseParser / BaseWriter code that no installed class exercises any more for unicode_io = False.

SYNTH = {'verif-synu': (True, '.vsynu', 'verif-synthetic-text'), 'verif-synb': (False, '.vsynb', 'verif-synthetic-bytes')}


def _synth_classes():
    g = globals()
    if '_SYNTH' in g:
        return g['_SYNTH']
    from pybtex.database.input import BaseParser
    from pybtex.database.output import BaseWriter

    def parse_stream(self, stream):
        from pybtex.database.input.bibtex import Parser
        got = stream.read()
        text = got if self.unicode_io else got.decode(self.encoding)      # a byte plug-in is handed bytes in ITS encoding
        inner = Parser(encoding=self.encoding)
        inner.data = self.data
        inner.parse_string(text)
        return self.data

    def write_stream(self, bib_data, stream):
        from pybtex.database.output.bibtex import Writer
        text = Writer(encoding=self.encoding).to_string(bib_data)
        stream.write(text if self.unicode_io else text.encode(self.encoding))

    out = {}
    for name, (u, sfx, _alias) in SYNTH.items():
        tag = 'Text' if u else 'Bytes'
        out[name] = (type('Synthetic%sReader' % tag, (BaseParser,), {'unicode_io': u, 'default_suffix': sfx, 'parse_stream': parse_stream}),
                     type('Synthetic%sWriter' % tag, (BaseWriter,), {'unicode_io': u, 'write_stream': write_stream}))
    g['_SYNTH'] = out
    return out


def ensure_synth():
    """Register the synthetic plug-ins in this process (idempotent; impl_plughist saves and restores the registry)."""
    import pybtex.plugin as P
    classes = _synth_classes()
    for name, (u, sfx, alias) in SYNTH.items():
        for group, cls in ((IN, classes[name][0]), (OUT, classes[name][1])):
            if P._RUNTIME_PLUGINS.get(group, {}).get(name) is not cls:
                P.register_plugin(group, name, cls, force=True)
                P.register_plugin(group + '.aliases', alias, cls, force=True)
                P.register_plugin(group + '.suffixes', sfx, cls, force=True)


def err(e):
    k = compat.pybtex_error_kind(e)
    return {'err': k}


def canon_db(db):
    entries = []
    for key, e in db.entries.items():
        persons = [[role, [[p.first_names, p.middle_names, p.prelast_names, p.last_names, p.lineage_names] for p in ps]]
                   for role, ps in e.persons.items()]
        entries.append([key, e.original_type, e.type, [[k, v] for k, v in e.fields.items()], persons])
    return {'entries': entries, 'preamble': list(db.preamble_list)}


def hx(b):
    """bytes -> the wire format (lower-case hex)"""
    return bytes(b).hex()


def streamj(v):
    if isinstance(v, str):
        return {'kind': 'text', 'data': v}
    return {'kind': 'binary', 'data': hx(v)}


def xml_decl(enc_name):
    return '<?xml version="1.0" encoding="%s"?>\n' % enc_name


# ------------------------------------------------------------------------------------------------
# databases

INJECT_L1 = ['café', 'Ünï', 'straße ©', 'Ã©']       # representable in latin-1 (the last one is a UTF-8 look-alike)
INJECT_ANY = ['€ 5', 'Łódź', 'λ-calculus', '1970–1971', '中文', '\U0001d4d0 \U0001f600']

FIXED_DBS = [
    '',
    '@article{k1, title = {Plain ascii}, year = 1999}\n',
    '@article{k1, title = {Café Ã© straße}, author = {Knüth, Donald and Müller, Jürgen}, year = 1999}\n',
    '@book{B:1, title = {€ 5 and λ}, editor = {Łukasiewicz, Jan}, note = {中文 \U0001f600}}\n@misc{m2, note = {second}}\n',
    '@preamble{"\\newcommand{\\x}{y}"}\n@misc{p1, title = {With preamble}, url = {http://x.y/z}}\n',
    '@misc{k, note = {Ã©}}\n',                       # Latin-1 text whose bytes are also valid UTF-8
    '@InProceedings{Mixed-Case, Title = {A {B}raced {\\"o} title}, AUTHOR = {von Beethoven, Jr, Ludwig and {Barnes and Noble}}, month = jan}\n',
]


def bib_source(case):
    if 'db' in case:
        return json.dumps(case['db'], ensure_ascii=False)      # (only its representability is looked at)
    if 'bib' in case:
        return case['bib']
    raise ValueError('case without a database')


def build_db(d):
    """A database built programmatically ({'preamble': [...], 'entries': [[key, type, [[field, value]...], [[role, [name...]]...]]]}): field
    values reach the writers as they are (raw CR, tabs, outer blanks), which no .bib source can achieve -- the reader normalises white space."""
    from pybtex.database import BibliographyData, Entry, Person
    db = BibliographyData(preamble=list(d.get('preamble', [])))
    for key, typ, fields, persons in d['entries']:
        e = Entry(typ, fields=[(f, v) for f, v in fields])
        for role, names in persons:
            for n in names:
                e.add_person(Person(n), role)
        db.add_entry(key, e)
    return db


def case_db(case):
    if 'db' in case:
        try:
            return build_db(case['db'])
        except Exception:  # noqa -- not a database
            return None
    return make_db(case['bib'])


def make_db(src):
    """The database of a case (parsed from .bib text by the real reader) or an error marker."""
    from pybtex import errors
    from pybtex.database import parse_string
    with errors.capture() as captured:
        db = parse_string(src, 'bibtex')
    if captured:
        return None
    return db


def _calls_write(cls, kw, db, u):
    """Does write_stream call stream.write at all?  (A text file emits the byte-order mark with the first write call.)"""
    base = _io.StringIO if u else _io.BytesIO

    class Rec(base):
        calls = 0

        def write(self, x):
            Rec.calls += 1
            return base.write(self, x)

        def writelines(self, xs):
            Rec.calls += 1
            return base.writelines(self, xs)
    try:
        cls(**kw).write_stream(db, Rec())
    except Exception:  # noqa -- reported by the entry points themselves
        return True
    return Rec.calls > 0


def representable(text, enc):
    try:
        return text.encode(enc).decode(enc) == text
    except UnicodeError:
        return False


# ------------------------------------------------------------------------------------------------
# entry points: preparation shared by impl and to_request (both deterministic functions of the case)

def _cache_key(case):
    return json.dumps(case, sort_keys=True)


_PREP = {}


def prepare(case):
    key = _cache_key(case)
    if key not in _PREP:
        if len(_PREP) > 2000:
            _PREP.clear()
        _PREP[key] = _prepare(case)
    return _PREP[key]


def _prepare(case):
    """-> dict(skip=reason) | dict(cls, u, ov, enc_name, codec, db, text [reader: s, b])"""
    _memo_entry_points()
    ensure_synth()
    from pybtex.plugin import find_plugin
    from pybtex.exceptions import PybtexError
    side = case['side']
    group = IN if side == 'read' else OUT
    try:
        cls = find_plugin(group, case['fmt'])
    except PybtexError as e:
        return {'skip': 'no plug-in: %s' % e}
    db = case_db(case)
    if db is None:
        return {'skip': 'source database has errors'}
    kw = {} if case['enc'] is None else {'encoding': case['enc']}
    inst = cls(**kw)
    enc_name = inst.encoding
    wcls = find_plugin(OUT, case['fmt'])
    u, ov = wiring(cls, side)
    p = {'cls': cls, 'u': u, 'ov': ov, 'enc_name': enc_name, 'kw': kw, 'db': db, 'family': family(cls), 'wcls': wcls}
    if not representable(bib_source(case), enc_name):
        return {'skip': 'encoding cannot represent the database'}
    # the document: what the real writer of this format prints for the database
    try:
        text = wcls(**kw).to_string(db)
    except PybtexError as e:
        return {'skip': 'writer refuses the database: %s' % type(e).__name__}
    except Exception as e:  # the writer itself is broken on this input: the writing case reports it
        if side == 'write':
            p['text_error'] = compat.pybtex_error_kind(e)
            text = None
        else:
            return {'skip': 'writer failed: %s' % type(e).__name__}
    if text is not None:
        if not representable(text, enc_name):
            return {'skip': 'encoding cannot represent the document'}
    if side == 'write' and text is not None:
        p['wrote'] = _calls_write(cls, kw, db, u)
    if side == 'write' and text == '' and ''.encode(enc_name) != b'' and u and not p['wrote'] and not finding_listed(FINDING_BOM):
        return {'skip': 'empty document under a BOM codec (finding %s not listed)' % FINDING_BOM}
    p['text'] = text
    if side == 'read' and case.get('source') == 'bib' and p['family'] == 'bibtex':
        src = bib_source(case).replace('\r\n', '\n').replace('\r', '\n')
        if representable(src, enc_name):
            p['text'] = text = src
    if side == 'read':
        p['s'] = text
        # the bytes that "correspond to the text": for BibTeXML what the writer produces, the declared document
        p['doc'] = xml_decl(enc_name) + text + '\n' if p['family'] == 'bibtexml' else text
        if not representable(p['doc'], enc_name):
            return {'skip': 'encoding cannot represent the document'}
        p['b'] = p['doc'].encode(enc_name)
    return p


def _fault_bytes(case, p):
    return (b'\xff\xfe\xfd' + p['b']) if case.get('corrupt') else p['b']


def _codec_pairs(strings, enc):
    return [[s, hx(s.encode(enc))] for s in strings]


PLAIN_WORLD = {'isfile': [], 'locate': {'kind': 'none'}, 'fail': [], 'environ': []}


def _reader_entries(p, sfx):
    return [
        {'entry': 'parse_string'},
        {'entry': 'parse_bytes'},
        {'entry': 'parse_stream'},
        {'entry': 'parse_file_path', 'path': 'F' + sfx},
        {'entry': 'parse_file_stream'},
        {'entry': 'parse_files', 'bases': ['F'], 'suffix': sfx},
    ]


WRITER_ENTRIES = [{'entry': 'to_string'}, {'entry': 'to_bytes'}, {'entry': 'write_file_path', 'path': 'F.out'},
                  {'entry': 'write_file_stream'}]


def multi_docs(case):
    """parse_files family: the prepared documents of the files (case['bib'] then case['more']), or a skip marker"""
    ps = []
    for bib in [case['bib']] + list(case['more']):
        q = prepare({k: v for k, v in dict(case, bib=bib).items() if k not in ('more', 'missing', 'nfiles')})
        if 'skip' in q or q.get('text') is None:
            return None
        ps.append(q)
    return ps[:case['nfiles']]


def _docs_of(ps):
    out = []
    for q in ps:
        for t in (q['s'], q['doc']):
            if t not in out:
                out.append(t)
    return out


def _files_req(pairs):
    return [[f, hx(b)] for q, b in pairs for f in both_forms(q)]


def req_entrypoints(case):
    p = prepare(case)
    if 'skip' in p or p.get('text') is None:
        return {'op': 'ping', 's': ''}
    enc = p['enc_name']
    world = case.get('world')
    if case['side'] == 'read':
        sfx = (suffixes_of(IN, p['cls']) or ['.dat'])[0]
        base = {'op': 'entrypoints', 'side': 'read', 'u': p['u'], 'ov': p['ov'], 'enc': enc, 'codec': _codec_pairs(_docs_of([p]), enc),
                'utf8': [], 's': p['s'], 'b': hx(p['b'])}
        if 'more' in case:
            docs = multi_docs(case)
            if docs is None or (case.get('missing') is not None and not can_run_scripts()):
                return {'op': 'ping', 's': ''}
            present = [i for i in range(len(docs)) if i != case.get('missing')]
            names = ['G%d%s' % (i, sfx) for i in range(len(docs))]
            w = dict(PLAIN_WORLD, isfile=[names[i] for i in present])
            return dict(base, codec=_codec_pairs(_docs_of(docs), enc), files=_files_req([(names[i], docs[i]['b']) for i in present]),
                        world=world_req(w, only=[names[i] for i in present]),
                        entries=[{'entry': 'parse_files', 'bases': ['G%d' % i for i in range(len(docs))], 'suffix': sfx}])
        if world is None:
            w = world_req(dict(PLAIN_WORLD, isfile=['F' + sfx]))
            return dict(base, files=_files_req([('F' + sfx, p['b'])]), world=w, entries=_reader_entries(p, sfx))
        # a fault world: the in-memory file system of the implementation side has exactly case['files']
        return dict(base, files=_files_req([(f, _fault_bytes(case, p)) for f in case['files']]), world=world_req(world, only=case['files']),
                    entries=[{'entry': 'parse_file_path', 'path': case['path']}])
    text = p['text']
    core_text = text + '\n' if p['family'] == 'bibtexml' else text
    strings = [text, xml_decl(enc) + core_text] if p['family'] == 'bibtexml' else [text]
    entries = WRITER_ENTRIES if world is None else [{'entry': 'write_file_path', 'path': case['path']}]
    return {'op': 'entrypoints', 'side': 'write', 'u': p['u'], 'ov': p['ov'], 'enc': enc, 'codec': _codec_pairs(strings, enc),
            'utf8': _codec_pairs([core_text], 'utf-8'), 'files': [], 'world': world_req(world or PLAIN_WORLD), 'text': core_text,
            'wrote': p.get('wrote', True), 'entries': entries}


# ---- probes: what the dispatch layer hands to the plug-in's own core ------------------------------

def _probe_class(cls, ov, rec):
    """(Probe class, context manager factory): a subclass of the real class whose own core only records what it is handed.
    Chosen by the WIRING of the class (which entry points it overrides), as the model is."""
    if 'parse_bytes' in ov:          # a class that hands bytes to ElementTree itself (the BibTeXML reader before fix C17-4)
        import pybtex.database.input.bibtexml as M

        class FakeET(object):
            @staticmethod
            def fromstring(v):
                rec.append(['ET.bytes' if isinstance(v, bytes) else 'ET.str', v])

            @staticmethod
            def parse(stream):
                v = stream.read()
                rec.append(['ET.bytes' if isinstance(v, bytes) else 'ET.textstream', v])

        class Probe(cls):
            def parse_tree(self, tree):
                return self.data
        return Probe, lambda: mock.patch.object(M, 'ET', FakeET)
    if 'parse_string' in ov:         # parse_string is the text core (BibTeX; BibTeXML after fix C17-4)
        class Probe(cls):
            def parse_string(self, text):
                rec.append(['parse_string', text])
                return self.data
    else:
        class Probe(cls):
            def parse_stream(self, stream):
                rec.append(['parse_stream', stream.read()])
                return self.data
    return Probe, contextlib.nullcontext


def _rec_json(rec):
    return [{'core': c, 'got': streamj(v)} for c, v in rec]


def _run_entry(f):
    """Result of one real entry point: canonical database or error kind."""
    try:
        return canon_db(f())
    except Exception as e:  # noqa
        return err(e)


def _own_stream(p, path=None):
    """A stream of the kind the class asks for, holding the document (in memory, or the real file)."""
    if path is not None:
        return open(path, 'r', encoding=p['enc_name'], newline='') if p['u'] else open(path, 'rb')
    return _io.StringIO(p['s']) if p['u'] else _io.BytesIO(p['b'])


def impl_read(case, p):
    from pybtex import database
    from pybtex.database import BibliographyData
    from pybtex.plugin import find_plugin
    cls, kw, s, b, fmt = p['cls'], p['kw'], p['s'], p['b'], case['fmt']
    sfxs = suffixes_of(IN, cls) or ['.dat']
    results, paths = {}, []
    tmp = tempfile.mkdtemp(prefix='verif-c17-')
    try:
        files = {}
        for sfx in sfxs:
            files[sfx] = os.path.join(tmp, 'F' + sfx)
            with open(files[sfx], 'wb') as f:
                f.write(b)
        first = files[sfxs[0]]
        results['parse_string'] = _run_entry(lambda: database.parse_string(s, fmt, **kw))
        results['parse_string(default encoding)'] = _run_entry(lambda: database.parse_string(s, fmt))   # a str has no encoding
        results['from_string'] = _run_entry(lambda: BibliographyData.from_string(s, fmt, **kw))
        results['parse_bytes'] = _run_entry(lambda: database.parse_bytes(b, fmt, **kw))
        results['parse_file(path,name)'] = _run_entry(lambda: database.parse_file(first, fmt, **kw))
        for sfx in sfxs:
            results['parse_file(path%s)' % sfx] = _run_entry(lambda: database.parse_file(files[sfx], **kw))
        results['parse_file(memory stream,name)'] = _run_entry(lambda: database.parse_file(_own_stream(p), fmt, **kw))
        if cls is find_plugin(IN):        # an unnamed stream and no format: the default plug-in of the group
            results['parse_file(unnamed memory stream, no format)'] = _run_entry(lambda: database.parse_file(_own_stream(p), **kw))

        def with_file(g):
            f = _own_stream(p, first)
            try:
                return g(f)
            finally:
                f.close()
        results['parse_file(file object,name)'] = _run_entry(lambda: with_file(lambda f: database.parse_file(f, fmt, **kw)))
        results['parse_file(file object by its name)'] = _run_entry(lambda: with_file(lambda f: database.parse_file(f, **kw)))
        results['Parser.parse_string'] = _run_entry(lambda: cls(**kw).parse_string(s))
        results['Parser.parse_bytes'] = _run_entry(lambda: cls(**kw).parse_bytes(b))
        results['Parser.parse_stream'] = _run_entry(lambda: cls(**kw).parse_stream(_own_stream(p)))
        results['Parser.parse_file'] = _run_entry(lambda: cls(**kw).parse_file(first))
        results['Parser.parse_files'] = _run_entry(lambda: cls(**kw).parse_files([os.path.join(tmp, 'F')], sfxs[0]))
        results['find_plugin(class)'] = _run_entry(lambda: database.parse_string(s, cls, **kw))
        # the dispatch paths, through the module functions with the probe class as `bib_format`
        rec = []
        Probe, ctx = _probe_class(cls, p['ov'], rec)
        calls = [
            lambda: database.parse_string(s, Probe, **kw),
            lambda: database.parse_bytes(b, Probe, **kw),
            lambda: Probe(**kw).parse_stream(_own_stream(p)),
            lambda: database.parse_file(first, Probe, **kw),
            lambda: database.parse_file(_own_stream(p), Probe, **kw),
            lambda: Probe(**kw).parse_files([os.path.join(tmp, 'F')], sfxs[0]),
        ]
        with ctx():
            for c in calls:
                del rec[:]
                try:
                    c()
                    paths.append(_rec_json(rec))
                except Exception as e:  # noqa
                    paths.append(err(e))
    finally:
        shutil.rmtree(tmp, ignore_errors=True)
    return {'results': results, 'paths': paths}


@contextlib.contextmanager
def fake_kpsewhich(tmp, script):
    """Puts a `kpsewhich` of our own first (and alone) on PATH for the duration: the real pybtex.kpathsea.kpsewhich starts it with
    the real subprocess.Popen.  script: {'kind': 'print', 'rc': n, 'out': text, 'arg': expected argument or None} -- a shell script
    that prints exactly `out` and exits with `rc` (3 if it was not handed exactly `arg`); {'kind': 'missing'} -- no such program;
    {'kind': 'noexec'} -- a file of that name that may not be executed."""
    bindir = os.path.join(tmp, 'bin')
    os.makedirs(bindir, exist_ok=True)
    prog = os.path.join(bindir, 'kpsewhich')
    if script['kind'] == 'print':
        octal = ''.join('\\0%03o' % b for b in os.fsencode(script['out']))
        check = "[ \"$#\" = 1 ] && [ \"$1\" = '%s' ] || exit 3\n" % script['arg'] if script.get('arg') is not None else ''
        with open(prog, 'w') as f:
            f.write("#!/bin/sh\n%sprintf '%%b' '%s'\nexit %d\n" % (check, octal, script['rc']))
        os.chmod(prog, 0o755)
    elif script['kind'] == 'noexec':
        with open(prog, 'w') as f:
            f.write('#!/bin/sh\nexit 0\n')
        os.chmod(prog, 0o644)
    old = os.environ.get('PATH')
    os.environ['PATH'] = bindir
    try:
        yield
    finally:
        if old is None:
            del os.environ['PATH']
        else:
            os.environ['PATH'] = old


NOT_FOUND = {'kind': 'print', 'rc': 1, 'out': '', 'arg': None}


@functools.lru_cache(maxsize=None)
def can_run_scripts():
    """Can a shell script written to the temporary directory be started with the PATH trick (there is a /bin/sh, the directory is not
    mounted noexec)?  Otherwise the families that need a kpsewhich program of our own are left out (and the scope says so)."""
    import subprocess
    tmp = tempfile.mkdtemp(prefix='verif-c17-')
    try:
        with fake_kpsewhich(tmp, {'kind': 'print', 'rc': 7, 'out': 'ok\n', 'arg': 'x y'}):
            p = subprocess.Popen(['kpsewhich', 'x y'], stdout=subprocess.PIPE, stderr=subprocess.PIPE)
            out = p.communicate()[0]
            return p.returncode == 7 and out == b'ok\n'
    except Exception:  # noqa
        return False
    finally:
        shutil.rmtree(tmp, ignore_errors=True)


def script_locate(script, sub=lambda x: x):
    """the world entry that describes what running the script gives"""
    if script['kind'] == 'print':
        return {'kind': 'proc', 'rc': script['rc'], 'stdout': sub(script['out'])}
    return {'kind': 'error', 'strerror': 'No such file or directory' if script['kind'] == 'missing' else 'Permission denied'}


def _untmp(x, tmp, repl='<T>'):
    """canonical form of something that may mention the temporary directory: <T> stands for it"""
    if isinstance(x, bytes):
        return {'bytes': hx(os.fsencode(os.fsdecode(x).replace(tmp, repl)))}
    if isinstance(x, str):
        return x.replace(tmp, repl)
    if isinstance(x, dict):
        return {k: _untmp(v, tmp, repl) for k, v in x.items()}
    if isinstance(x, list):
        return [_untmp(v, tmp, repl) for v in x]
    return x


def impl_multi(case, p):
    """parse_files with 0, 2 or 3 files (one of them possibly missing) on real files, against parsing the strings in turn on
    ONE parser.  When a file is missing the lookup goes through a kpsewhich of our own that finds nothing."""
    docs = multi_docs(case)
    if docs is None:
        return {'skip': 'a document of the list cannot be used'}
    if case.get('missing') is not None and not can_run_scripts():
        return {'skip': 'a shell script in the temporary directory cannot be started on this machine'}
    cls, kw = p['cls'], p['kw']
    sfx = (suffixes_of(IN, cls) or ['.dat'])[0]
    missing = case.get('missing')
    results, paths = {}, []
    tmp = tempfile.mkdtemp(prefix='verif-c17-')
    try:
        bases = [os.path.join(tmp, 'G%d' % i) for i in range(len(docs))]
        for i, d in enumerate(docs):
            if i != missing:
                with open(bases[i] + sfx, 'wb') as f:
                    f.write(d['b'])

        def run(klass):
            try:
                return {'ok': canon_db(klass(**kw).parse_files(bases, sfx))}
            except Exception as e:  # noqa
                return _untmp(_open_error(e), tmp + os.sep, '')

        def reference():
            parser = cls(**kw)
            for i, d in enumerate(docs):
                if i == missing:
                    return {'missing': 'G%d%s' % (i, sfx)}
                parser.parse_string(d['s'])
            return {'ok': canon_db(parser.data)}
        with fake_kpsewhich(tmp, NOT_FOUND):
            results['Parser.parse_files'] = run(cls)
            try:
                results['reference'] = reference()
            except Exception as e:  # noqa
                results['reference'] = err(e)
            rec = []
            Probe, ctx = _probe_class(cls, p['ov'], rec)
            with ctx():
                try:
                    Probe(**kw).parse_files(bases, sfx)
                    paths.append(_rec_json(rec))
                except Exception as e:  # noqa
                    oe = _untmp(_open_error(e), tmp + os.sep, '')
                    paths.append({'err': oe['err'], 'message': oe['message'] if oe['message'].startswith('unable to open') else None})
    finally:
        shutil.rmtree(tmp, ignore_errors=True)
    return {'multi': True, 'results': results, 'paths': paths}


def _read_bytes(path):
    with open(path, 'rb') as f:
        return f.read()


def _write_entry(f, get):
    try:
        r = f()
        return get(r)
    except Exception as e:  # noqa
        return err(e)


def impl_write(case, p):
    from pybtex.plugin import find_plugin
    cls, kw, db, fmt = p['cls'], p['kw'], p['db'], case['fmt']
    sfxs = suffixes_of(OUT, cls) or ['.dat']
    out = {}
    tmp = tempfile.mkdtemp(prefix='verif-c17-')
    try:
        out['to_string'] = _write_entry(lambda: db.to_string(fmt, **kw), lambda r: r)
        out['to_bytes'] = _write_entry(lambda: db.to_bytes(fmt, **kw), hx)
        out['Writer.to_string'] = _write_entry(lambda: cls(**kw).to_string(db), lambda r: r)
        out['Writer.to_bytes'] = _write_entry(lambda: cls(**kw).to_bytes(db), hx)
        named = os.path.join(tmp, 'named.out')
        out['to_file(path,name)'] = _write_entry(lambda: db.to_file(named, fmt, **kw), lambda r: hx(_read_bytes(named)))
        for sfx in sfxs:
            path = os.path.join(tmp, 'F' + sfx)
            out['to_file(path%s)' % sfx] = _write_entry(lambda: db.to_file(path, **kw), lambda r: hx(_read_bytes(path)))
        wf = os.path.join(tmp, 'wf.out')
        out['Writer.write_file'] = _write_entry(lambda: cls(**kw).write_file(db, wf), lambda r: hx(_read_bytes(wf)))
        # a file-like object of the kind the class asks for: the call returns its getvalue()
        mem = _io.StringIO() if p['u'] else _io.BytesIO()
        out['to_file(memory stream,name)'] = _write_entry(lambda: db.to_file(mem, fmt, **kw), streamj)
        if cls is find_plugin(OUT):       # an unnamed stream and no format: the default plug-in of the group
            mem2 = _io.StringIO() if p['u'] else _io.BytesIO()
            out['to_file(unnamed memory stream, no format)'] = _write_entry(lambda: db.to_file(mem2, **kw), streamj)
        # a real file object, format chosen from its name
        fo_path = os.path.join(tmp, 'obj' + sfxs[0])

        def to_file_object():
            f = open(fo_path, 'w', encoding=p['enc_name'], newline='') if p['u'] else open(fo_path, 'wb')
            try:
                db.to_file(f, **kw)
            finally:
                f.close()
            return _read_bytes(fo_path)
        out['to_file(file object by its name)'] = _write_entry(to_file_object, hx)
    finally:
        shutil.rmtree(tmp, ignore_errors=True)
    return {'results': out, 'meta': {'family': p['family'], 'enc': p['enc_name'], 'u': p['u'], 'wrote': p.get('wrote', True)}}


# ---- fault worlds through the public entry points --------------------------------------------------

class _Keep(object):
    """An in-memory binary file that remembers its content after close()."""

    def __init__(self, fs, path, data=b''):
        self.fs, self.path = fs, path
        self.buf = _io.BytesIO(data)

    def raw(self, mode):
        outer = self

        class Raw(_io.BytesIO):
            def close(self):
                if 'w' in mode:
                    outer.fs[outer.path] = self.getvalue()
                _io.BytesIO.close(self)
        r = Raw(b'' if 'w' in mode else self.buf.getvalue())
        r.name = self.path
        return r


MSG_ERRNO = {'Permission denied': errno.EACCES, 'No such file or directory': errno.ENOENT, 'Is a directory': errno.EISDIR,
             'Read-only file system': errno.EROFS, 'No space left on device': errno.ENOSPC, 'Not a directory': errno.ENOTDIR}
WRITE_FAILS = ['Permission denied', 'No such file or directory', 'Is a directory', 'No space left on device']


def proc_of(loc):
    """What running the kpsewhich PROGRAM gives in a world: {'kind': 'proc', 'rc', 'stdout'} or {'kind': 'error', 'strerror'} (it
    cannot be started).  The short forms 'none' (exit 1, no output) and 'found' (exit 0, the path and a newline -- or nothing at all
    for the empty path) are what the real program does."""
    k = loc['kind']
    if k == 'none':
        return {'kind': 'proc', 'rc': 1, 'stdout': ''}
    if k == 'found':
        return {'kind': 'proc', 'rc': 0, 'stdout': loc['path'] + '\n' if loc['path'] else ''}
    return loc


def patharg(p):
    """a path argument on the wire: str as it is, bytes as {'bytes': hex}"""
    return {'bytes': hx(p)} if isinstance(p, bytes) else p


def both_forms(path):
    return [path, {'bytes': hx(os.fsencode(path))}]


def world_req(world, only=None):
    """the world as the driver wants it: every path of `fail` (and of `only`: the files that exist, when given) in both forms"""
    loc = proc_of(world['locate'])
    if loc['kind'] == 'proc':
        loc = dict(loc, stdout=hx(os.fsencode(loc['stdout'])))
    w = {'isfile': world['isfile'], 'environ': world['environ'], 'locate': loc,
         'fail': [[f, m] for q, m in world['fail'] for f in both_forms(q)]}
    if only is not None:
        w['only'] = [f for q in only for f in both_forms(q)]
    return w


class World(object):
    """pybtex.io with its outside names replaced, and the process `pybtex.kpathsea.kpsewhich` starts (and nothing else: the real
    `kpsewhich` function runs)."""

    def __init__(self, world, files=None):
        self.w = world
        self.fs = dict(files or {})
        self.events = []
        self.fail = dict((p, m) for p, m in world['fail'])
        self.proc = proc_of(world['locate'])

    def open(self, path, mode='r', **kw):
        self.events.append({'ev': 'open', 'path': patharg(path), 'mode': mode, 'encoding': kw.get('encoding')})
        extra = set(kw) - {'encoding'}
        if extra:
            raise TypeError('unexpected arguments to io.open: %r' % sorted(extra))
        given, path = path, os.fsdecode(path)            # the file system knows one name for both kinds of argument
        if path in self.fail:
            # every kind of EnvironmentError counts as "cannot open": the errno follows the message of the world
            code = MSG_ERRNO.get(self.fail[path], errno.EACCES if 'w' in mode else errno.ENOENT)
            raise OSError(code, self.fail[path], path)
        if 'w' not in mode and path not in self.fs:
            raise IOError(errno.ENOENT, 'No such file or directory', path)
        raw = _Keep(self.fs, path, self.fs.get(path, b'')).raw(mode)
        raw.name = given
        if 'b' in mode:
            return raw
        t = _io.TextIOWrapper(raw, encoding=kw.get('encoding'), newline=None)       # as io.open: universal newlines
        t.mode = mode
        return t

    def isfile(self, path):
        return path in self.w['isfile']

    def popen_class(self):
        world = self

        class FakePopen(object):
            """subprocess.Popen as pybtex.kpathsea uses it: Popen([program, name], stdout=PIPE, stderr=PIPE), communicate(), returncode"""

            def __init__(self, args, **kw):
                args = list(args)
                world.events.append({'ev': 'locate', 'path': args[1] if len(args) == 2 and args[0] == 'kpsewhich' else {'argv': args}})
                if world.proc['kind'] == 'error':
                    raise OSError(errno.ENOENT, world.proc['strerror'], 'kpsewhich')
                self.returncode = None
                self.args = args

            def communicate(self, input=None, timeout=None):
                self.returncode = world.proc['rc']
                return os.fsencode(world.proc['stdout']), b''

            def wait(self, timeout=None):
                self.returncode = world.proc['rc']
                return self.returncode

            def poll(self):
                return self.returncode

            def kill(self):
                pass

            def __enter__(self):
                return self

            def __exit__(self, *a):
                return False
        return FakePopen

    def patches(self):
        import pybtex.io as pio
        import pybtex.kpathsea as kp
        fake_io = mock.Mock(spec=['open', 'TextIOWrapper'])
        fake_io.open = self.open
        fake_io.TextIOWrapper = _io.TextIOWrapper
        fake_pp = mock.Mock(spec=['isfile', 'join'])
        fake_pp.isfile = self.isfile
        fake_pp.join = posixpath.join
        return [mock.patch.object(pio, 'io', fake_io), mock.patch.object(pio, 'posixpath', fake_pp),
                mock.patch.object(kp, 'Popen', self.popen_class(), create=True), mock.patch.object(pio, 'environ', dict(self.w['environ']))]

    def __enter__(self):
        self._ps = self.patches()
        for p in self._ps:
            p.start()
        return self

    def __exit__(self, *a):
        for p in reversed(self._ps):
            p.stop()


def _rendered(e):
    """The error as pybtex prints it (message, prefixed by the file name when the error carries one)."""
    from pybtex.exceptions import PybtexError
    from pybtex.errors import format_error
    try:
        return format_error(e) if isinstance(e, PybtexError) else str(e)
    except Exception as e2:  # noqa
        return 'UNRENDERABLE:%s' % type(e2).__name__


def _open_error(e):
    k = compat.pybtex_error_kind(e)
    return {'err': k, 'message': str(e), 'rendered': _rendered(e)}


def impl_fault(case, p):
    from pybtex import database
    cls, kw, fmt = p['cls'], p['kw'], case['fmt']
    if case['side'] == 'read':
        W = World(case['world'], {f: _fault_bytes(case, p) for f in case['files']})
        with W:
            try:
                db = database.parse_file(case['path'], fmt, **kw)
                res = {'ok': canon_db(db)}
            except Exception as e:  # noqa
                res = _open_error(e)
        want = _run_entry(lambda: database.parse_string(p['s'], fmt, **kw))
        return {'events': W.events, 'result': res, 'reference': want}
    W = World(case['world'])
    with W:
        try:
            p['db'].to_file(case['path'], fmt, **kw)
            res = {'ok': {k: hx(v) for k, v in W.fs.items()}}
        except Exception as e:  # noqa
            res = _open_error(e)
    want = _write_entry(lambda: p['db'].to_bytes(fmt, **kw), hx)
    return {'events': W.events, 'result': res, 'reference': want}


def impl_entrypoints(case):
    p = prepare(case)
    if 'skip' in p:
        return {'skip': p['skip']}
    if p.get('text') is None:
        return {'skip': 'writer failed', 'results': {'to_string': {'err': p['text_error']}}}
    if case.get('world') is not None:
        return impl_fault(case, p)
    if 'more' in case:
        return impl_multi(case, p)
    return impl_read(case, p) if case['side'] == 'read' else impl_write(case, p)


# ------------------------------------------------------------------------------------------------
# plug-in histories

def _klasses():
    from pybtex.plugin import Plugin
    g = globals()
    if '_K' not in g:
        g['_K'] = {n: type(n, (Plugin,), {}) for n in ('K1', 'K2', 'K3')}
    return g['_K']


def _cls_name(c):
    ks = _klasses()
    for n, k in ks.items():
        if c is k:
            return n
    return class_id(c)


def _plug_err(e):
    from pybtex.exceptions import PybtexError
    if isinstance(e, PybtexError):
        return {'err': type(e).__name__, 'msg': str(e)}
    if isinstance(e, ValueError) and str(e) == 'a suffix must start with a period':
        return {'err': 'ValueError', 'msg': str(e)}     # the documented argument check of register_plugin
    return {'err': 'INTERNAL:' + type(e).__name__, 'msg': str(e)[:200]}


def impl_plughist(case):
    _memo_entry_points()
    import pybtex.plugin as P
    ks = _klasses()
    R = P._RUNTIME_PLUGINS
    saved = {g: dict(d) for g, d in R.items()}
    R.clear()
    out = []
    try:
        for op in case['ops']:
            try:
                if op['o'] == 'register':
                    out.append(bool(P.register_plugin(op['g'], op['n'], ks[op['k']], force=op['force'])))
                elif op['o'] == 'find':
                    name = op.get('name')
                    if name is None or name['t'] == 'none':
                        nm = None
                    elif name['t'] == 'str':
                        nm = name['v']
                    else:
                        nm = ks[name['v']]
                    out.append({'cls': _cls_name(P.find_plugin(op['g'], nm, filename=op.get('filename')))})
                elif op['o'] == 'enum':
                    names = list(P.enumerate_plugin_names(op['g']))
                    nrt = len(R.get(op['g'], {}))
                    out.append({'names': names[:nrt] + sorted(names[nrt:])})
                else:
                    raise KeyError(op['o'])
            except Exception as e:  # noqa
                out.append(_plug_err(e))
    finally:
        R.clear()
        R.update(saved)
    return out


# ------------------------------------------------------------------------------------------------
# open matrix

def impl_openmatrix(case):
    import pybtex.io as pio
    W = World(case['world'], {})
    # every path can be opened for reading unless it is listed as failing
    real_open = W.open

    def open_any(path, mode='r', **kw):
        key = os.fsdecode(path)
        if 'w' not in mode and key not in W.fail and key not in W.fs:
            W.fs[key] = b''
        return real_open(path, mode, **kw)
    W.open = open_any
    sentinel = _io.BytesIO(b'user stream')
    arg = sentinel if case['arg'] == 'stream' else case['path']
    with W:
        try:
            fn = pio.open_raw if case['fn'] == 'raw' else pio.open_unicode
            f = fn(arg, case['mode'], case['encoding']) if case['encoding'] is not None else fn(arg, case['mode'])
            if f is sentinel:
                res = {'ok': 'passthrough'}
            else:
                res = {'ok': {'handle': patharg(getattr(f, 'name', None))}}
        except Exception as e:  # noqa
            res = {'err': {'kind': compat.pybtex_error_kind(e), 'message': str(e), 'rendered': _rendered(e)}}
    if sentinel.closed or sentinel.getvalue() != b'user stream' or sentinel.tell() != 0:
        res['touched'] = True
    return {'events': W.events, 'result': res}


# ------------------------------------------------------------------------------------------------
# the real kpsewhich path: unpatched pybtex.io / pybtex.kpathsea, real files, a kpsewhich program of our own on PATH

KPSE_DOC = '@misc{k1, note = {found through kpsewhich: café}}\n'
# case['doc'] picks one (default 0); the second holds Latin-1 text whose bytes are also well-formed UTF-8 (Ã© = C3 A9)
KPSE_DOCS = [KPSE_DOC, '@misc{k1, author = {Müßig, Jürgen}, note = {Ã©tude sur l\'été}}\n']
KPSE_ENCODINGS = ['latin-1', 'cp1252', 'utf-16', 'utf-8-sig', 'utf-8']


def impl_kpse(case):
    import pybtex.io as pio
    from pybtex import database
    if not can_run_scripts():
        return {'skip': 'a shell script in the temporary directory cannot be started on this machine'}
    tmp = tempfile.mkdtemp(prefix='verif-c17-')

    def sub(x):
        return x.replace('<T>', tmp)
    enc = case.get('enc')                     # the encoding given to open_unicode / parse_file (None: not given); the files are written in it
    ekw = {} if enc is None else {'encoding': enc}
    try:
        content = {}
        for i, rel in enumerate(case['exists']):
            path = sub(rel)
            os.makedirs(os.path.dirname(path), exist_ok=True)
            content[rel] = KPSE_DOCS[case.get('doc', 0)].replace('k1', 'k%d' % (i + 1)).encode(enc or 'utf-8')
            with open(path, 'wb') as f:
                f.write(content[rel])
        script = dict(case['script'])
        if script['kind'] == 'print':
            script['out'] = sub(script['out'])
            script['arg'] = sub(case['name'])
        with fake_kpsewhich(tmp, script):
            try:
                if case['fn'] == 'parse':
                    res = {'ok': {'db': canon_db(database.parse_file(sub(case['name']), 'bibtex', **ekw))}}
                else:
                    f = (pio.open_raw if case['fn'] == 'raw' else pio.open_unicode)(sub(case['name']), **ekw)
                    try:
                        name = f.name
                        try:
                            data = f.read()
                            data = hx(data if isinstance(data, bytes) else data.encode('utf-8'))
                        except UnicodeError as e:         # the file WAS opened: what follows is not a failure to open
                            data = {'read failed': '%s: %s' % (type(e).__name__, e)}
                    finally:
                        f.close()
                    res = {'ok': {'handle': _untmp(name, tmp), 'data': data}}
            except Exception as e:  # noqa
                oe = _untmp(_open_error(e), tmp)
                res = {'err': {'kind': oe['err'], 'message': oe['message'], 'rendered': oe['rendered']}}
        # what the file holds: for parse_file the database parse_string gives for the text, for open_unicode the text (shown as its
        # UTF-8 bytes), for open_raw the bytes
        want = {rel: ({'db': canon_db(database.parse_string(b.decode(enc or 'utf-8'), 'bibtex', **ekw))} if case['fn'] == 'parse' else
                      hx(b) if case['fn'] == 'raw' else hx(b.decode(enc or 'utf-8').encode('utf-8')))
                for rel, b in content.items()}
    finally:
        shutil.rmtree(tmp, ignore_errors=True)
    return {'kpse': True, 'result': res, 'content': want}


def req_kpse(case):
    if not can_run_scripts():
        return {'op': 'ping', 's': ''}
    w = {'isfile': [case['name']] if case['name'] in case['exists'] else [], 'environ': [], 'fail': [],
         'locate': script_locate(case['script'])}
    return {'op': 'openmatrix', 'fn': 'raw' if case['fn'] == 'raw' else 'unicode', 'mode': 'rb' if case['fn'] == 'raw' else 'r', 'encoding': case.get('enc'),
            'arg': 'path', 'path': case['name'], 'world': world_req(w, only=case['exists'])}


# ------------------------------------------------------------------------------------------------
# path functions

def impl_pathfn(case):
    if case['fn'] == 'splitext':
        return list(os.path.splitext(case['a']))
    return posixpath.join(case['a'], case['b'])


# ------------------------------------------------------------------------------------------------
# the interface of check.py

def impl(case):
    op = case['op']
    if op in X.OPS:
        return X.impl(case)
    if op == 'entrypoints':
        return impl_entrypoints(case)
    if op == 'plughist':
        return impl_plughist(case)
    if op == 'openmatrix':
        return impl_openmatrix(case)
    if op == 'pathfn':
        return impl_pathfn(case)
    if op == 'kpse':
        return impl_kpse(case)
    raise ValueError(op)


def to_request(case):
    if case['op'] in X.OPS:
        return X.to_request(case)
    if case['op'] == 'entrypoints':
        return req_entrypoints(case)
    if case['op'] == 'kpse':
        return req_kpse(case)
    if case['op'] == 'openmatrix':
        return dict(case, world=world_req(case['world']))
    return case


def _model_events(evs):
    return [{k: e.get(k) for k in (('ev', 'path', 'mode', 'encoding') if e['ev'] == 'open' else ('ev', 'path'))} for e in evs]


def _model_write(out):
    """reply of the four writer entries -> the view compared with the implementation"""
    if not isinstance(out, list):
        return out
    ts, tb, wf, ws = [o['result'] for o in out]
    return {'to_string': ts, 'to_bytes': tb, 'file': wf.get('bytes') if isinstance(wf, dict) and 'bytes' in wf else wf,
            'stream': ws.get('stream') if isinstance(ws, dict) and 'stream' in ws else ws}


def model_out(case, reply):
    op = case['op']
    if 'pong' in reply:
        return {'skip': True}
    if op in X.OPS:
        return X.model_out(case, reply)
    if op == 'entrypoints':
        if 'pong' in reply:
            return {'skip': True}
        out = reply['out']
        if not isinstance(out, list):
            return out
        if case.get('world') is not None:
            o = out[0]
            r = o['result']
            if case['side'] == 'read':
                res = 'ok' if isinstance(r, list) else {'err': r['err'], 'message': r.get('message')}
            else:
                res = {'ok': r['file']} if 'file' in r else {'err': r['err'], 'message': r.get('message')}
            return {'events': _model_events(o['events']), 'result': res}
        if case['side'] == 'read':
            return [o['result'] for o in out]
        return _model_write(out)
    if op in ('openmatrix', 'kpse'):
        o = reply['out']
        r = o['result']
        if 'err' in r:
            r = {'err': {'kind': r['err']['kind'], 'message': r['err']['message']}}
        if op == 'kpse':             # on the real file system the attempts cannot be watched, only their outcome
            return {'result': 'ok' if case['fn'] == 'parse' and 'ok' in r else r}
        return {'events': _model_events(o['events']), 'result': r}
    return reply['out']


def compare_view(io):
    """The part of the implementation's output the model predicts."""
    if isinstance(io, dict) and 'skip' in io:
        return {'skip': True}
    if isinstance(io, dict) and (io.get('modfile') or io.get('openx')):
        return X.compare_view(io)
    if isinstance(io, dict) and 'paths' in io:
        return io['paths']
    if isinstance(io, dict) and 'kpse' in io:
        r = io['result']
        if 'err' in r:
            return {'result': {'err': {'kind': r['err']['kind'], 'message': r['err']['message']}}}
        return {'result': 'ok' if 'db' in r['ok'] else {'ok': {'handle': r['ok']['handle']}}}
    if isinstance(io, dict) and 'reference' in io:
        r = io['result']
        if 'ok' in r and 'entries' in r['ok']:
            res = 'ok'                                   # parse_file returned a database
        elif 'ok' in r:
            res = {'ok': sorted(r['ok'])[0] if len(r['ok']) == 1 else sorted(r['ok'])}    # to_file: the path(s) written
        else:
            msg = r.get('message')
            res = {'err': r['err'], 'message': msg if msg and msg.startswith('unable to open') else None}
        return {'events': io['events'], 'result': res}
    if isinstance(io, dict) and 'events' in io and isinstance(io.get('result'), dict) and isinstance(io['result'].get('err'), dict):
        e = io['result']['err']
        return {'events': io['events'], 'result': {'err': {'kind': e['kind'], 'message': e['message']}}}
    if isinstance(io, dict) and 'results' in io:
        r = io['results']
        return {'to_string': r['to_string'], 'to_bytes': r['to_bytes'], 'file': r['to_file(path,name)'],
                'stream': r['to_file(memory stream,name)']}
    return io


_PATH_CHARS = set('abcdefghijklmnopqrstuvwxyzABCDEFGHIJKLMNOPQRSTUVWXYZ0123456789/._-~<>')


def names_file(text, name):
    """Does the text name the file `name` -- the name itself, not a longer path that merely contains it ('f.bib' inside '/texmf/f.bib',
    'a.bbl' inside '/out/a.bbl')?  An occurrence counts when it is not preceded by a path character and is followed by the end of the
    text, by a character that cannot continue a path, or by a period that ends a sentence."""
    if not name or not isinstance(text, str):
        return False
    i = text.find(name)
    while i >= 0:
        before = text[i - 1] if i > 0 else ''
        after = text[i + len(name):]
        left_ok = before == '' or before not in _PATH_CHARS
        right_ok = (after == '' or after[0] not in _PATH_CHARS or
                    (after[0] == '.' and (len(after) == 1 or after[1] not in _PATH_CHARS)))
        if left_ok and right_ok:
            return True
        i = text.find(name, i + 1)
    return False


def _is_internal(x):
    return isinstance(x, dict) and isinstance(x.get('err'), str) and x['err'].startswith('INTERNAL')


def _short(x, n=160):
    s = json.dumps(x, ensure_ascii=False)
    return s if len(s) <= n else s[:n] + '...'


def _world_target(case):
    """The file a read of case['path'] opens in a CONSISTENT world where that open succeeds, or None when the world is not of that kind:
    the name itself when it is a file; otherwise what a kpsewhich that exits with 0 printed (a clean path and one newline, as the real
    program does).  The file must be one of case['files'] (the in-memory file system holds the document there) and not fail to open."""
    w = case.get('world')
    if w is None:
        return None
    failing = set(q for q, _ in w['fail'])
    path = case['path']
    if path in w['isfile']:
        target = path
    else:
        proc = proc_of(w['locate'])
        if not (proc['kind'] == 'proc' and proc['rc'] == 0 and proc['stdout'].endswith('\n')):
            return None
        target = proc['stdout'][:-1]
        if not target or target != target.strip():
            return None
    return target if target in case.get('files', []) and target not in failing else None


def oracle(case, io, reply):
    op = case['op']
    fails = []
    if op in X.OPS:
        return X.oracle(case, io, reply)
    if op == 'pathfn':
        return fails
    if op == 'plughist':
        spec = reply.get('spec') or []
        for i, (a, o) in enumerate(zip(io, case['ops'])):
            if isinstance(a, dict) and str(a.get('err', '')).startswith('INTERNAL'):
                fails.append('runtime_plugins: step %d %s raised %s (%s)' % (i, _short(o), a['err'], a.get('msg')))
                break
            want = spec[i] if i < len(spec) else None
            if o['o'] == 'enum':
                # found exactly like installed ones: the names listed for a group are the names an exact lookup in that group finds
                # (run-time and installed alike, an alias or a suffix never); order and repetition are not part of the property
                if isinstance(want, dict) and isinstance(a, dict) and 'names' in a and set(a['names']) != set(want['nameset']):
                    fails.append('runtime_plugins: step %d enumerate_plugin_names(%r) lists %s, the one-table reference holds %s under that group (history %s)' % (
                        i, o['g'], _short(sorted(set(a['names']))), _short(sorted(want['nameset'])), _short([_op_short(x) for x in case['ops'][:i]], 400)))
                    break
                continue
            if want is not None and a != want:
                clause = 'suffix_eq_name' if o['o'] == 'find' and o.get('filename') and not (o.get('name') or {}).get('v') else 'runtime_plugins'
                fails.append('%s: step %d %s gives %s, the one-table reference gives %s (history %s)' % (
                    clause, i, _short(o), _short(a), _short(want), _short([_op_short(x) for x in case['ops'][:i]], 400)))
                break
        return fails
    if op == 'openmatrix':
        r = io['result']
        w = case['world']
        if r.get('touched'):
            fails.append('open_faults: the file-like argument was read, moved or closed by open_%s' % case['fn'])
        if case['arg'] == 'stream':
            if r.get('ok') != 'passthrough' or io['events']:
                fails.append('open_faults: a file-like object did not pass through untouched: %s events %s' % (_short(r), _short(io['events'])))
            return fails
        opens = [e['path'] for e in io['events'] if e['ev'] == 'open']
        failing = dict((p, m) for p, m in w['fail'])
        if 'err' in r:
            e = r['err']
            if e['kind'] != 'PybtexError':
                fails.append('open_faults: failure to open %r surfaced as %s: %s' % (case['path'], e['kind'], e['message'][:120]))
            elif not names_file(e['rendered'], case['path']):
                fails.append('open_faults: the error does not name the file %r (the name given, as a whole): %r' % (case['path'], e['rendered']))
        if 'w' in case['mode']:
            env = dict(w['environ'])
            want = [case['path']]
            if case['path'] in failing and 'TEXMFOUTPUT' in env:
                want.append(posixpath.join(env['TEXMFOUTPUT'], case['path']))
            if opens != want:
                fails.append('open_faults: write attempts %r, expected %r (TEXMFOUTPUT=%r)' % (opens, want, env.get('TEXMFOUTPUT')))
            ok_expected = any(q not in failing for q in want)
            if ok_expected != ('ok' in r):
                fails.append('open_faults: write of %r with failing %r, TEXMFOUTPUT=%r ended in %s' % (
                    case['path'], sorted(failing), env.get('TEXMFOUTPUT'), _short(r)))
            elif 'ok' in r and r['ok'].get('handle') != [q for q in want if q not in failing][0]:
                fails.append('open_faults: opened %r instead of %r' % (r['ok'].get('handle'), [q for q in want if q not in failing][0]))
            elif 'err' in r and failing[case['path']] not in r['err']['message']:
                fails.append('open_faults: double failure does not report the first error %r: %r' % (failing[case['path']], r['err']['message']))
        else:
            if len(opens) > 1:
                fails.append('open_faults: %d open attempts for a read' % len(opens))
            # the kpsewhich lookup: a name that is not a file, the program exits with 0 and prints the path of a file that can be
            # opened, followed by a newline (what the real program does): that file is what gets opened
            proc = proc_of(w['locate'])
            if case['path'] not in w['isfile'] and proc['kind'] == 'proc' and proc['rc'] == 0 and proc['stdout'].endswith('\n'):
                found = proc['stdout'][:-1]
                if found and found == found.strip() and found not in failing:
                    got = r.get('ok', {}).get('handle') if 'ok' in r else None
                    if got not in both_forms(found):
                        fails.append('kpsewhich_lookup: kpsewhich printed %r for %r and that file can be opened, but the call ended in %s' % (
                            proc['stdout'], case['path'], _short(r)))
        return fails
    if op == 'kpse':
        if 'skip' in io:
            return fails
        r = io['result']
        name, script = case['name'], case['script']
        if 'err' in r:
            e = r['err']
            if e['kind'] != 'PybtexError':
                fails.append('open_faults: failure to open %r (kpsewhich: %s) surfaced as %s: %s' % (name, _short(script), e['kind'], e['message'][:120]))
            elif not names_file(e['rendered'], name):
                fails.append('open_faults: the error does not name the file %r (the name given, as a whole): %r' % (name, e['rendered']))
        target = None
        if name in case['exists']:
            target = name
        elif script['kind'] == 'print' and script['rc'] == 0 and script['out'].endswith('\n') and script['out'][:-1] in case['exists']:
            target = script['out'][:-1]
        if target is not None:
            want = io['content'][target]
            got = r['ok'].get('data', r['ok']) if 'ok' in r else None
            if got != want:
                fails.append('%s: %r %s and can be opened, but %s ended in %s' % (
                    'entry_points_agree' if target == name or ('ok' in r and r['ok'].get('handle', target) in both_forms(target) + [target]) else 'kpsewhich_lookup', target,
                    'exists' if target == name else 'is what kpsewhich printed for %r' % name,
                    {'raw': 'open_raw', 'unicode': 'open_unicode', 'parse': 'parse_file'}[case['fn']] +
                    ('' if case.get('enc') is None else ' with encoding=%r' % case['enc']), _short(r)) +
                    ('' if case.get('enc') is None else '; the file holds %s' % _short(want)))
        return fails
    # entrypoints
    if 'skip' in io:
        r = io.get('results', {})
        for k, v in r.items():
            if _is_internal(v):
                fails.append('entry_points_agree: %s raised %s' % (k, v['err']))
        return fails
    if 'reference' in io:                      # a fault world through parse_file / to_file
        r = io['result']
        if 'err' in r:
            if r['err'] != 'PybtexError':
                fails.append('open_faults: %s of %r in a world with failing opens raised %s: %s' % (
                    'parse_file' if case['side'] == 'read' else 'to_file', case['path'], r['err'], r.get('message', '')[:120]))
            elif not names_file(r.get('rendered', ''), case['path']):
                fails.append('open_faults: the error does not name the file %r (the name given, as a whole): %r' % (case['path'], r.get('rendered')))
        elif case['side'] == 'read':
            if r['ok'] != io['reference']:
                fails.append('entry_points_agree: parse_file through the fall-back location differs from parse_string')
        else:
            vals = list(r['ok'].values())
            if len(vals) != 1 or vals[0] != io['reference']:
                fails.append('write_entry_points: to_file in a world with failing opens wrote %s, to_bytes is %s' % (_short(r['ok']), _short(io['reference'])))
        # "parsing ... a file ... containing them equals parsing the string": the file that gets opened (the name itself when it is a
        # file, else what kpsewhich printed) exists, holds exactly the encoded bytes and can be opened -- then nothing was a failure to
        # open, and the outcome is the database parse_string gives, in the encoding the reader was given
        target = _world_target(case)
        if case['side'] == 'read' and target is not None and not case.get('corrupt') and not (isinstance(io['reference'], dict) and 'err' in io['reference']):
            if 'err' in r:
                fails.append('entry_points_agree: %r %s, holds the document encoded in %s and can be opened, but parse_file(%r, %r, encoding=%r) ended in %s: %s' % (
                    target, 'is a file' if target == case['path'] else 'is what kpsewhich printed for %r' % case['path'],
                    case['enc'] or 'the default encoding', case['path'], case['fmt'], case['enc'], r['err'], _short(r.get('message'), 140)))
        return fails
    res = io['results']
    for k, v in res.items():
        if _is_internal(v):
            fails.append('entry_points_agree: %s raised %s (format %s, encoding %s)' % (k, v['err'], case['fmt'], case['enc']))
    if fails:
        return fails
    if io.get('multi'):
        got, ref = res['Parser.parse_files'], res['reference']
        if 'missing' in ref:
            if got.get('err') != 'PybtexError':
                fails.append('open_faults: parse_files with the file %r missing ended in %s' % (ref['missing'], _short(got)))
            elif not names_file(got.get('rendered', ''), ref['missing']):
                fails.append('open_faults: the error does not name the missing file %r (as a whole): %r' % (ref['missing'], got.get('rendered')))
        elif {k: got.get(k) for k in ('ok', 'err')} != {k: ref.get(k) for k in ('ok', 'err')}:
            fails.append('entry_points_agree: parse_files over %d files differs from parsing the %d strings in turn on one parser (format %s, encoding %s): %s vs %s' % (
                case['nfiles'], case['nfiles'], case['fmt'], case['enc'], _short(got), _short(ref)))
        return fails
    if case['side'] == 'read':
        ref = res['parse_string']
        for k, v in res.items():
            if v != ref:
                cl = 'suffix_eq_name' if k.startswith('parse_file(path.') or 'by its name' in k else 'entry_points_agree'
                fails.append('%s: %s differs from parse_string (format %s, encoding %s): %s vs %s' % (
                    cl, k, case['fmt'], case['enc'], _short(v), _short(ref)))
                break
        return fails
    meta = io['meta']
    text, enc = res['to_string'], meta['enc']
    if not isinstance(text, str):
        return fails                                  # a pybtex error from the writer
    doc = xml_decl(enc) + text + '\n' if meta['family'] == 'bibtexml' else text
    want = hx(doc.encode(enc))
    if res['to_bytes'] != want:
        fails.append('write_entry_points: to_bytes is not the to_string document%s encoded in %s (format %s): got %s want %s' % (
            ' with its XML declaration' if meta['family'] == 'bibtexml' else '', enc, case['fmt'], _short(_peek(res['to_bytes'])), _short(_peek(want))))
        return fails
    bom_corner = meta['u'] and text == '' and want != '' and not meta.get('wrote', True)
    for k, v in res.items():
        if k in ('to_string', 'Writer.to_string'):
            if v != text:
                fails.append('write_entry_points: %s differs from to_string' % k)
        elif k.startswith('to_file(') and 'memory stream' in k:
            wantv = streamj(text if meta['u'] else bytes.fromhex(want))
            if v != wantv:
                fails.append('write_entry_points: a file-like object received %s, expected %s' % (_short(v), _short(wantv)))
        elif v != want:
            cl = 'suffix_eq_name' if k.startswith('to_file(path.') or 'by its name' in k else 'write_entry_points'
            fails.append('%s: %s wrote bytes that differ from to_bytes (format %s, encoding %s)%s: %s' % (
                cl, k, case['fmt'], enc, BOM_TAG if bom_corner else '', _short(_peek(v))))
            break
    return fails


BOM_TAG = ' [empty document under a BOM codec]'
FINDING_BOM = 'C17-empty-document-bom'
KNOWN_MATCHERS = {
    FINDING_BOM: lambda case, io, f: BOM_TAG in f and case.get('op') == 'entrypoints' and case.get('side') == 'write',
}


@functools.lru_cache(maxsize=None)
def finding_listed(fid):
    """Is the finding recorded in known_findings.json?  (Read only; the witness is generated only then, because an
    unlisted oracle failure is a VIOLATION.)"""
    try:
        with open(os.path.join(compat.VERIF, 'known_findings.json')) as f:
            return any(k.get('property') == ID and k.get('id') == fid for k in json.load(f).get('findings', []))
    except Exception:  # noqa
        return False


def _peek(h):
    """first bytes of a hex string, readable"""
    if not isinstance(h, str):
        return h
    try:
        return bytes.fromhex(h[:120]).decode('latin-1')
    except ValueError:
        return h[:120]


def _op_short(o):
    if o['o'] == 'register':
        return 'reg(%s,%s,%s%s)' % (o['g'].replace('pybtex.database.', ''), o['n'], o['k'], ',force' if o['force'] else '')
    if o['o'] == 'find':
        n = o.get('name')
        return 'find(%s,%s,%s)' % (o['g'].replace('pybtex.database.', ''), n and n.get('v'), o.get('filename'))
    return 'enum(%s)' % o['g']


def buckets(case, io):
    op = case['op']
    if op in X.OPS:
        return X.buckets(case, io)
    if op == 'entrypoints':
        if isinstance(io, dict) and 'skip' in io:
            return ['entrypoints:skip:' + io['skip'].split(':')[0]]
        tag = 'fault' if case.get('world') is not None else ('files%d%s' % (case['nfiles'], '-missing' if case.get('missing') is not None else '') if 'more' in case else 'agree')
        return ['entrypoints:%s:%s:%s:%s' % (case['side'], tag, case['fmt'], case['enc'])]
    if op == 'plughist':
        return ['plughist:len=%d' % len([o for o in case['ops'] if o['o'] == 'register'])]
    if op == 'openmatrix':
        r = io['result']
        return ['openmatrix:%s:%s:%s' % (case['arg'], 'write' if 'w' in case['mode'] else 'read', 'ok' if 'ok' in r else 'error')]
    if op == 'kpse':
        return ['kpse:skip'] if 'skip' in io else ['kpse:%s:%s:%s%s' % (case['fn'], case['script']['kind'], 'ok' if 'ok' in io['result'] else 'error',
                                                                      '' if case.get('enc') is None else ':encoding=' + case['enc'])]
    return ['pathfn:' + case['fn']]


def nontrivial(case, io):
    return not (isinstance(io, dict) and 'skip' in io)


def corpus():
    return corpus_for(ID)


def _valid_db(d):
    try:
        return (isinstance(d, dict) and all(isinstance(x, str) for x in d.get('preamble', [])) and
                all(isinstance(k, str) and isinstance(t, str) and all(isinstance(f, str) and isinstance(v, str) for f, v in fs) and
                    all(isinstance(r, str) and all(isinstance(n, str) for n in ns) for r, ns in ps) for k, t, fs, ps in d['entries']))
    except Exception:  # noqa
        return False


def _valid_world(w):
    def pairs(l):
        return isinstance(l, list) and all(isinstance(x, list) and len(x) == 2 and all(isinstance(y, str) for y in x) for x in l)
    if not (isinstance(w, dict) and isinstance(w.get('isfile'), list) and all(isinstance(x, str) for x in w['isfile']) and
            pairs(w.get('fail')) and pairs(w.get('environ')) and isinstance(w.get('locate'), dict)):
        return False
    loc = w['locate']
    k = loc.get('kind')
    return (k == 'none' or (k == 'found' and isinstance(loc.get('path'), str)) or (k == 'error' and isinstance(loc.get('strerror'), str)) or
            (k == 'proc' and isinstance(loc.get('rc'), int) and isinstance(loc.get('stdout'), str)))


def valid_case(c):
    if c.get('op') in X.OPS:
        return X.valid_case(c)
    if c.get('op') == 'plughist':
        return isinstance(c.get('ops'), list) and all(isinstance(o, dict) and o.get('o') in ('register', 'find', 'enum') and
                                                      (o['o'] != 'register' or (o.get('k') in ('K1', 'K2', 'K3') and isinstance(o.get('force'), bool)))
                                                      for o in c['ops'])
    if c.get('op') == 'entrypoints':
        if 'more' in c and not (isinstance(c['more'], list) and all(isinstance(b, str) for b in c['more']) and isinstance(c.get('bib'), str) and
                                isinstance(c.get('nfiles'), int) and 0 <= c['nfiles'] <= len(c['more']) + 1 and c.get('side') == 'read' and
                                (c.get('missing') is None or (isinstance(c['missing'], int) and 0 <= c['missing'] < c['nfiles']))):
            return False
        if c.get('world') is not None and not (isinstance(c.get('path'), str) and c['path'] and isinstance(c.get('files'), list) and
                                               all(isinstance(x, str) for x in c['files']) and _valid_world(c['world'])):
            return False
        if 'db' in c and not _valid_db(c['db']):
            return False
        return c.get('side') in ('read', 'write') and (isinstance(c.get('bib'), str) or 'db' in c) and isinstance(c.get('fmt'), str)
    if c.get('op') == 'kpse':
        sc = c.get('script')
        return (isinstance(sc, dict) and sc.get('kind') in ('print', 'missing', 'noexec') and c.get('fn') in ('raw', 'unicode', 'parse') and
                isinstance(c.get('name'), str) and c['name'].startswith('<T>/') and "'" not in c['name'] and isinstance(c.get('exists'), list) and
                all(isinstance(x, str) and x.startswith('<T>/') for x in c['exists']) and
                (sc['kind'] != 'print' or (isinstance(sc.get('rc'), int) and 0 <= sc['rc'] < 256 and isinstance(sc.get('out'), str))) and
                c.get('enc', None) in [None] + KPSE_ENCODINGS and c.get('doc', 0) in range(len(KPSE_DOCS)))
    if c.get('op') == 'openmatrix':
        return (isinstance(c.get('path'), str) and bool(c['path']) and _valid_world(c.get('world')) and c.get('mode') in ('r', 'rb', 'w', 'wb') and
                c.get('fn') in ('raw', 'unicode') and c.get('arg') in ('path', 'stream') and 'encoding' in c)
    return c.get('op') == 'pathfn'


# ------------------------------------------------------------------------------------------------
# generators

G = IN
REG = [
    (G, 'n1', 'K1', False), (G, 'n1', 'K2', False), (G, 'n1', 'K2', True),
    (G + '.aliases', 'n1', 'K3', False), (G + '.aliases', 'a1', 'K3', False), (G + '.aliases', 'a1', 'K1', True),
    (G, 'yaml', 'K1', False), (G, 'yaml', 'K1', True), (G, 'bibyaml', 'K2', False), (G + '.aliases', 'bibyaml', 'K3', False),
    (G + '.suffixes', '.s1', 'K1', False), (G + '.suffixes', '.yaml', 'K2', False), (G + '.suffixes', '.yaml', 'K2', True),
    (G + '.aliases', 'yaml', 'K3', False),
]
REG_SMALL = [0, 1, 2, 4, 6, 7, 8, 10]


def _reg(t):
    return {'o': 'register', 'g': t[0], 'n': t[1], 'k': t[2], 'force': t[3]}


def _find(g, name=None, filename=None, cls=None):
    n = {'t': 'cls', 'v': cls} if cls else ({'t': 'str', 'v': name} if name is not None else None)
    return {'o': 'find', 'g': g, 'name': n, 'filename': filename}


PROBES = [_find(G, 'n1'), _find(G, 'a1'), _find(G, 'yaml'), _find(G, 'bibyaml'), _find(G, filename='d.x/f.s1'),
          _find(G, filename='x.yaml'), _find(G), {'o': 'enum', 'g': G}]


def _hist(regs):
    ops = []
    for t in regs:
        ops.append(_reg(t))
        ops.extend(PROBES)
    return {'op': 'plughist', 'ops': ops}


def gen_plughist(tier, rng, info):
    cases = [_hist([])]
    full = 3 if tier == 'quick' else 4
    n_full = 0
    for n in range(1, full + 1):
        for tup in itertools.product(REG, repeat=n):
            cases.append(_hist(tup))
            n_full += 1
    n_small = 0
    if tier == 'quick':
        for tup in itertools.product([REG[i] for i in REG_SMALL], repeat=4):
            cases.append(_hist(tup))
            n_small += 1
    # every installed entry is found under its own key, every suffix from a file name
    table = installed_table()
    bases = sorted({g for g, _n, _v in table if not g.endswith(('.aliases', '.suffixes'))})
    singles = []
    for g, n, _v in table:
        if g.endswith('.suffixes'):
            base = g[:-len('.suffixes')]
            singles += [_find(base, filename='stem' + n), _find(base, filename='/a.b/c.d' + n), _find(base, filename='..x' + n),
                        _find(base, filename=n), _find(base, filename='dir' + n + '/noext')]
        elif g.endswith('.aliases'):
            singles.append(_find(g[:-len('.aliases')], n))
        else:
            singles.append(_find(g, n))
    for b in bases:
        singles += [_find(b), _find(b, ''), _find(b, filename=''), _find(b, filename='noext'), _find(b, '.bib'), _find(b, 'nope'),
                    _find(b, filename='x.nope'), _find(b, cls='K1'), {'o': 'enum', 'g': b}, _find(b + '.suffixes', '.bib'), _find(b + '.aliases', 'x')]
    singles += [_find('pybtex.invalid', 'x'), _find('pybtex.invalid', cls='K2'), _find('', 'x'),
                _reg(('pybtex.invalid', 'x', 'K1', False)), _reg(('pybtex.invalid.suffixes', '.x', 'K1', False)),
                _reg(('pybtex.invalid.suffixes', 'x', 'K1', False)), _reg((G + '.suffixes', 'nodot', 'K1', False)),
                _reg((G + '.suffixes', '', 'K1', True)), _reg((G + '.suffixes.aliases', 'x', 'K1', False)),
                _reg(('.suffixes', '.x', 'K1', False)), _reg((G + '.aliases.suffixes', '.x', 'K1', False))]
    for i in range(0, len(singles), 12):
        cases.append({'op': 'plughist', 'ops': singles[i:i + 12]})
    # random longer histories over all groups
    names = ['n1', 'a1', 'yaml', 'bibyaml', 'plain', 'latex', 'text', '.s1', '.yaml', '.bib', '', 'x.y']
    groups = bases + [b + s for b in bases[:3] for s in ('.aliases', '.suffixes')] + ['pybtex.invalid']
    for _ in range(300 if tier == 'quick' else 6000):
        ops = []
        for _i in range(rng.randint(3, 14)):
            r = rng.random()
            g = rng.choice(groups)
            if r < 0.45:
                ops.append(_reg((g, rng.choice(names), rng.choice(['K1', 'K2', 'K3']), rng.random() < 0.3)))
            elif r < 0.8:
                ops.append(_find(g, rng.choice(names)))
            elif r < 0.95:
                ops.append(_find(g, filename=rng.choice(['a', 'dir/', '.x', 'x..', 'a.b/c']) + rng.choice(names)))
            else:
                ops.append({'o': 'enum', 'g': g})
        cases.append({'op': 'plughist', 'ops': ops})
    info['scope_plug'] = ('every history of <= %d registrations over %d calls (%d histories)%s, 8 probes after each; %d single calls covering every installed '
                          'entry and the error paths' % (full, len(REG), n_full, ' + every history of 4 over %d calls (%d)' % (len(REG_SMALL), n_small) if n_small else '',
                                                        len(singles)))
    return cases


def gen_openmatrix(info):
    cases = []
    # reading
    for fn, mode, enc in (('raw', 'rb', None), ('unicode', 'r', None), ('unicode', 'r', 'latin-1')):
        for path in ('f.bib', 'sub/f.bst'):
            for isfile in (True, False):
                for loc in ({'kind': 'none'}, {'kind': 'found', 'path': '/texmf/' + path}, {'kind': 'found', 'path': ''},
                            {'kind': 'error', 'strerror': 'No such file or directory'}, {'kind': 'error', 'strerror': 'Permission denied'},
                            {'kind': 'proc', 'rc': 0, 'stdout': '/texmf/' + path},                    # no final newline
                            {'kind': 'proc', 'rc': 0, 'stdout': '/texmf/' + path + ' \t\r\n\n'},        # trailing white space of every kind
                            {'kind': 'proc', 'rc': 0, 'stdout': ' \n'},                               # white space only
                            {'kind': 'proc', 'rc': 1, 'stdout': '/texmf/' + path + '\n'},             # printed something but failed
                            {'kind': 'proc', 'rc': -9, 'stdout': ''},                                 # killed
                            {'kind': 'proc', 'rc': 0, 'stdout': ' /tex mf/\u00fc\u4e2d/' + path + '\x0b\x0c\n'}):   # inner / leading blanks, non-ASCII
                    for fail_p in (False, True):
                        for fail_q in (False, True):
                            fail = ([[path, 'No such file or directory']] if fail_p else []) + \
                                   ([['/texmf/' + path, 'Permission denied']] if fail_q else [])
                            w = {'isfile': [path] if isfile else [], 'locate': loc, 'fail': fail, 'environ': [['TEXMFOUTPUT', '/out']]}
                            cases.append({'op': 'openmatrix', 'fn': fn, 'mode': mode, 'encoding': enc, 'arg': 'path', 'path': path, 'world': w})
    # writing
    for fn, mode, enc in (('raw', 'wb', None), ('unicode', 'w', None), ('unicode', 'w', 'utf-16')):
        for path in ('a.bbl', 'sub/a.bbl', '/abs/a.bbl'):
            for tex in (None, '/out', '/out/', '', 'rel'):
                for fail1 in (False,) + tuple(WRITE_FAILS):
                    for fail2 in (False, True):
                        env = [['HOME', '/h']] + ([['TEXMFOUTPUT', tex]] if tex is not None else [])
                        second = posixpath.join(tex, path) if tex is not None else None
                        fail = [[path, fail1]] if fail1 else []
                        if fail2 and second is not None and second != path:
                            fail.append([second, 'Read-only file system'])
                        elif fail2 and second is None:
                            continue
                        w = {'isfile': [], 'locate': {'kind': 'none'}, 'fail': fail, 'environ': env}
                        cases.append({'op': 'openmatrix', 'fn': fn, 'mode': mode, 'encoding': enc, 'arg': 'path', 'path': path, 'world': w})
    # file-like objects
    for fn, mode in (('raw', 'rb'), ('raw', 'wb'), ('unicode', 'r'), ('unicode', 'w')):
        w = {'isfile': [], 'locate': {'kind': 'error', 'strerror': 'x'}, 'fail': [['s', 'y']], 'environ': [['TEXMFOUTPUT', '/out']]}
        cases.append({'op': 'openmatrix', 'fn': fn, 'mode': mode, 'encoding': None, 'arg': 'stream', 'path': 's', 'world': w})
    info['scope_open'] = '%d worlds x calls of open_raw / open_unicode' % len(cases)
    return cases


def gen_pathfn(info):
    cases = []
    for n in range(0, 7):
        for tup in itertools.product('a./', repeat=n):
            cases.append({'op': 'pathfn', 'fn': 'splitext', 'a': ''.join(tup)})
    for p in ('x.bib', 'dir.d/x', 'a.b.c', '.hidden', '..', 'x.', 'd/.x.y', 'café.yaml', 'x. bib', 'x.\n', '/.bib', 'a/b.c/'):
        cases.append({'op': 'pathfn', 'fn': 'splitext', 'a': p})
    parts = [''.join(t) for n in range(0, 4) for t in itertools.product('a/', repeat=n)]
    for a in parts:
        for b in parts:
            cases.append({'op': 'pathfn', 'fn': 'join', 'a': a, 'b': b})
    info['scope_path'] = 'splitext on every string over {a . /} up to length 6; join on every pair over {a /} up to length 3'
    return cases


# the four encodings of round 1, then alias spellings of the same codecs and other codecs able to represent (some of) the documents:
# how a codec is CALLED must not matter, and a codec is a parameter of the theorems (only dec (enc s) = s is assumed)
ENCODINGS = [None, 'utf-8', 'utf-16', 'latin-1', 'utf8', 'UTF8', 'U8', 'utf-8-sig', 'utf-16-le', 'utf-32', 'L1', 'cp1252', 'iso-8859-15', 'ascii']


def format_names():
    """every name and alias of the reader group (the writer group has the same), then the synthetic third-party plug-ins
    (registered at run time: a name and an alias each)"""
    t = installed_table()
    inst = sorted({n for g, n, _v in t if g in (IN, IN + '.aliases')} & {n for g, n, _v in t if g in (OUT, OUT + '.aliases')})
    return inst + sorted(SYNTH) + [SYNTH['verif-synb'][2]]


MULTI_DOCS = ['@article{m1, title = {Caf\u00e9 one}, author = {Kn\u00fcth, D.}}\n',
              '@book{m2, title = {Zwei stra\u00dfe}}\n@misc{m2b, note = {x}}\n',
              '@misc{m3, note = {\u00dcn\u00ef three}}\n']
# (number of files, index of the missing one)
MULTI_SHAPES = [(0, None), (1, None), (2, None), (3, None), (3, 1), (2, 0), (3, 2), (1, 0)]


PROG_VALUES = ['a\rb', 'a\r\nb', ' lead', 'trail ', 'tab\there', 'end\r', '\r\n', 'x\n\ny', 'a \r b', 'a\r\rb', 'caf\u00e9\r\nstra\u00dfe \u00a0x']


def prog_dbs():
    """databases built programmatically: raw CR / CRLF, tabs, outer blanks in field values, names and the preamble"""
    dbs = [{'preamble': [], 'entries': [['k', 'misc', [['note', v], ['title', 'T']], [['author', ['Kn\u00fcth, D.']]]]]} for v in PROG_VALUES]
    dbs.append({'preamble': ['pre\ramble', 'two\r\n'], 'entries': [
        ['k1', 'article', [['f%d' % i, v] for i, v in enumerate(PROG_VALUES)], [['author', ['A\rB C', 'D\r\nE, F']], ['editor', [' G  H ']]]],
        ['k2', 'misc', [['note', '\r']], []]]})
    return dbs


def gen_prog(fmts):
    return [{'op': 'entrypoints', 'side': side, 'fmt': fmt, 'enc': enc, 'db': db}
            for db in prog_dbs() for fmt in fmts for enc in (None, 'latin-1', 'utf-16') for side in ('read', 'write')]


def gen_multi(fmts):
    cases = []
    for fmt in fmts:
        for enc in (None, 'latin-1', 'utf-16', 'utf8'):
            for n, missing in MULTI_SHAPES:
                if missing is not None and not can_run_scripts():
                    continue
                cases.append({'op': 'entrypoints', 'side': 'read', 'fmt': fmt, 'enc': enc, 'bib': MULTI_DOCS[0], 'more': MULTI_DOCS[1:],
                              'nfiles': n, 'missing': missing})
        # the same key in two files: the second file is refused, by parse_files as by parse_string
        cases.append({'op': 'entrypoints', 'side': 'read', 'fmt': fmt, 'enc': None, 'bib': MULTI_DOCS[0], 'more': [MULTI_DOCS[2], MULTI_DOCS[0]],
                      'nfiles': 3, 'missing': None})
    return cases


def gen_kpse(info):
    if not can_run_scripts():
        info['scope_kpse'] = 'kpsewhich program on PATH: LEFT OUT (a shell script in the temporary directory cannot be started on this machine)'
        return []
    name, target = '<T>/in/f.bib', '<T>/texmf/f.bib'
    odd = '<T>/tex mf \u00fc\u4e2d/f.bib'
    worlds = [
        ({'kind': 'print', 'rc': 0, 'out': target + '\n'}, [target]),                    # found
        ({'kind': 'print', 'rc': 0, 'out': target + '\n'}, []),                          # prints a path that does not exist
        ({'kind': 'print', 'rc': 0, 'out': target}, [target]),                           # no final newline
        ({'kind': 'print', 'rc': 0, 'out': target + ' \t\r\n\n'}, [target]),              # trailing white space of every kind
        ({'kind': 'print', 'rc': 0, 'out': odd + '\n'}, [odd]),                          # blanks and non-ASCII in the path
        ({'kind': 'print', 'rc': 1, 'out': ''}, [target]),                               # not found (exit 1)
        ({'kind': 'print', 'rc': 1, 'out': target + '\n'}, [target]),                    # exit 1 although it printed the path
        ({'kind': 'print', 'rc': 2, 'out': 'kpsewhich: trouble\n'}, []),
        ({'kind': 'print', 'rc': 255, 'out': ''}, []),
        ({'kind': 'print', 'rc': 0, 'out': ''}, [target]),                               # exit 0 without output
        ({'kind': 'print', 'rc': 0, 'out': '\n'}, [target]),
        ({'kind': 'missing'}, [target]),                                                # no such program
        ({'kind': 'noexec'}, [target]),                                                 # the program may not be executed
        ({'kind': 'missing'}, [name]),                                                  # the name is a file: no lookup at all
        ({'kind': 'print', 'rc': 0, 'out': target + '\n'}, [name, target]),              # the name is a file: it wins
    ]
    cases = [{'op': 'kpse', 'fn': fn, 'script': sc, 'name': name, 'exists': ex} for sc, ex in worlds for fn in ('raw', 'unicode', 'parse')]
    # the encoding given to the reader x where the file is: in the TeX tree (found by the program), under a path with blanks and
    # non-ASCII, in the directory named (no lookup) -- files written in that encoding, two non-ASCII documents
    enc_worlds = [worlds[0], worlds[4], worlds[14]]
    n_enc = 0
    for enc in KPSE_ENCODINGS:
        for doc in range(len(KPSE_DOCS)):
            for sc, ex in enc_worlds:
                for fn in ('raw', 'unicode', 'parse'):
                    cases.append({'op': 'kpse', 'fn': fn, 'script': sc, 'name': name, 'exists': ex, 'enc': enc, 'doc': doc})
                    n_enc += 1
    info['scope_kpse'] = ('%d runs of open_raw / open_unicode / parse_file on real temporary files with a kpsewhich program of our own first on PATH '
                          '(found, wrong path, no newline, trailing white space, blanks and non-ASCII, exit 1 / 2 / 255, no output, missing program, '
                          'not executable, name is a file); of these %d with encoding= %r given to the call and the files written in it '
                          '(found in the tree / odd path / name is a file x %d non-ASCII documents)' % (len(cases), n_enc, KPSE_ENCODINGS, len(KPSE_DOCS)))
    return cases


def _inject(rng, doc, pool):
    """Put non-ASCII text into some field values / a person name of an abstract document."""
    for cmd in doc:
        if cmd['k'] == 'entry' and rng.random() < 0.8:
            cmd['fields'].append(['abstract', [{'lit': rng.choice(pool) + ' ' + rng.choice(pool)}]])
            if rng.random() < 0.3 and not any(n.lower() in ('author', 'editor') for n, _ in cmd['fields']):
                cmd['fields'].append(['author', [{'lit': 'Müller, Jürgen and %s, X' % rng.choice(INJECT_L1)}]])
    return doc


LOCATED_ENCODINGS = ['latin-1', 'cp1252', 'utf-16', 'utf-8-sig', 'utf-32']


def located_worlds(path):
    """(path, files, world): the file is in the working directory; is not there and kpsewhich finds it in the TeX tree; the same under a
    path with blanks and non-ASCII, given as the output of the program; in the working directory although kpsewhich would find another."""
    tree, odd = '/texmf/bibtex/bib/' + path, '/tex mf/\u00fc\u4e2d/' + path
    return [
        (path, [path], {'isfile': [path], 'locate': {'kind': 'none'}, 'fail': [], 'environ': []}),
        (path, [tree], {'isfile': [], 'locate': {'kind': 'found', 'path': tree}, 'fail': [], 'environ': []}),
        (path, [odd], {'isfile': [], 'locate': {'kind': 'proc', 'rc': 0, 'stdout': odd + '\n'}, 'fail': [], 'environ': []}),
        (path, [path, tree], {'isfile': [path], 'locate': {'kind': 'found', 'path': tree}, 'fail': [], 'environ': []}),
    ]


def gen_entrypoints(tier, rng, info):
    cases = []
    ensure_synth()
    fmts = format_names()
    multi = gen_multi(fmts)
    cases += multi
    prog = gen_prog(fmts)
    cases += prog
    n_fixed = 0
    for bib in FIXED_DBS:
        for fmt in fmts:
            for enc in ENCODINGS:
                for side in ('read', 'write'):
                    cases.append({'op': 'entrypoints', 'side': side, 'fmt': fmt, 'enc': enc, 'bib': bib})
                    n_fixed += 1
                if fmt == 'bibtex':
                    cases.append({'op': 'entrypoints', 'side': 'read', 'fmt': fmt, 'enc': enc, 'bib': bib, 'source': 'bib'})
    # fault worlds through parse_file / to_file, every format
    n_fault = 0
    bib = FIXED_DBS[2]
    for fmt in fmts:
        for enc in (None, 'latin-1'):
            rd = {'op': 'entrypoints', 'side': 'read', 'fmt': fmt, 'enc': enc, 'bib': bib}
            worlds = [
                ('in.dat', ['in.dat'], {'isfile': ['in.dat'], 'locate': {'kind': 'none'}, 'fail': [], 'environ': []}),
                ('in.dat', [], {'isfile': [], 'locate': {'kind': 'none'}, 'fail': [], 'environ': []}),
                ('in.dat', ['/texmf/in.dat'], {'isfile': [], 'locate': {'kind': 'found', 'path': '/texmf/in.dat'}, 'fail': [], 'environ': []}),
                ('in.dat', ['/texmf/in.dat'], {'isfile': [], 'locate': {'kind': 'found', 'path': '/texmf/in.dat'},
                                              'fail': [['/texmf/in.dat', 'Permission denied']], 'environ': []}),
                ('in.dat', ['in.dat'], {'isfile': ['in.dat'], 'locate': {'kind': 'none'}, 'fail': [['in.dat', 'Permission denied']], 'environ': []}),
                ('in.dat', [], {'isfile': [], 'locate': {'kind': 'error', 'strerror': 'No such file or directory'}, 'fail': [], 'environ': []}),
            ]
            for path, files, w in worlds:
                cases.append(dict(rd, world=w, path=path, files=files))
                n_fault += 1
            if fmt == 'bibtex' and enc is None:          # undecodable file: parse_file turns UnicodeDecodeError into a PybtexError
                cases.append(dict(rd, world=worlds[0][2], path='in.dat', files=['in.dat'], corrupt=True))
                n_fault += 1
            wr = {'op': 'entrypoints', 'side': 'write', 'fmt': fmt, 'enc': enc, 'bib': bib}
            for tex in (None, '/out'):
                for f1 in (False,) + tuple(WRITE_FAILS[:3]):
                    for f2 in (False, True):
                        if f2 and tex is None:
                            continue
                        fail = ([['o.dat', f1]] if f1 else []) + ([['/out/o.dat', 'Read-only file system']] if f2 else [])
                        w = {'isfile': [], 'locate': {'kind': 'none'}, 'fail': fail, 'environ': [['TEXMFOUTPUT', tex]] if tex else []}
                        cases.append(dict(wr, world=w, path='o.dat', files=[]))
                        n_fault += 1
    # where the file is found x the encoding given to the reader: the same encoded document in the working directory, in the TeX tree
    # (kpsewhich prints its path) and under a path with blanks / non-ASCII; encodings other than the default one, text that is not ASCII
    n_loc = 0
    for fmt in fmts:
        for enc in LOCATED_ENCODINGS:
            for bib in (FIXED_DBS[2], FIXED_DBS[5]):
                for path, files, w in located_worlds('refs.dat'):
                    cases.append({'op': 'entrypoints', 'side': 'read', 'fmt': fmt, 'enc': enc, 'bib': bib, 'world': w, 'path': path, 'files': files})
                    n_loc += 1
    if tier != 'quick':
        for i in range(150):
            doc = _inject(rng, bibgen.gen_doc(rng, max_cmds=3), INJECT_L1)
            bib = bibgen.render(doc, bibgen.Layout([], rng), {'ws': rng.choice([0, 1, 3, 4, 7])})
            path = rng.choice(['in.dat', 'sub/refs.bib', 'x.y/z', 'r\u00e9f.dat'])
            path, files, w = rng.choice(located_worlds(path))
            cases.append({'op': 'entrypoints', 'side': 'read', 'fmt': rng.choice(fmts), 'enc': rng.choice(ENCODINGS[1:]), 'bib': bib,
                          'world': w, 'path': path, 'files': files})
            n_loc += 1
    info['n_located'] = n_loc
    n_rand = 90 if tier == 'quick' else 600
    for i in range(n_rand):
        doc = bibgen.gen_doc(rng, max_cmds=4)
        l1 = rng.random() < 0.4
        doc = _inject(rng, doc, INJECT_L1 if l1 else INJECT_L1 + INJECT_ANY)
        bib = bibgen.render(doc, bibgen.Layout([], rng), {'ws': rng.choice([0, 1, 3, 4, 7])})
        for fmt in fmts:
            encs = ENCODINGS if l1 else [e for e in ENCODINGS if e is None or e.lower().replace('_', '-').startswith(('u', 'utf'))]
            for enc in (encs if tier != 'quick' else [rng.choice(encs[:3]), rng.choice(encs)]):
                for side in ('read', 'write'):
                    cases.append({'op': 'entrypoints', 'side': side, 'fmt': fmt, 'enc': enc, 'bib': bib})
            if fmt == 'bibtex':
                cases.append({'op': 'entrypoints', 'side': 'read', 'fmt': fmt, 'enc': rng.choice(encs), 'bib': bib, 'source': 'bib'})
    info['scope_entry'] = ('%d hand-made databases x format names %r (installed names and aliases, then the synthetic third-party plug-ins registered at run '
                           'time: unicode_io True / False) x encodings %r x {read, write}: every entry point and every registered suffix (%d cases); '
                           'parse_files over %r (files, missing index) x formats x 4 encodings (%d cases); %d programmatically built databases (raw CR / CRLF, '
                           'tabs, outer blanks in fields, names, preamble) x formats x 3 encodings x {read, write} (%d cases); '
                           '%d fault worlds through parse_file / to_file; %d reads of a non-ASCII document through parse_file in worlds where the file '
                           'is in the working directory / is located by kpsewhich (plain path, path with blanks and non-ASCII) x reader encodings %r '
                           'x formats; %d random databases' % (
                               len(FIXED_DBS), fmts, ENCODINGS, n_fixed, MULTI_SHAPES, len(multi), len(prog_dbs()), len(prog), n_fault,
                               info.pop('n_located'), LOCATED_ENCODINGS, n_rand))
    return cases


def gen_cases(tier, rng, info):
    _memo_entry_points()
    cases = []
    cases += gen_pathfn(info)
    cases += gen_openmatrix(info)
    cases += gen_kpse(info)
    cases += gen_plughist(tier, rng, info)
    cases += X.gen_modfile(info)
    cases += X.gen_openx(info)
    cases += X.gen_guard(info)
    cases += gen_entrypoints(tier, rng, info)
    info['exhaustive'] = True
    info['scope'] = '; '.join(info.pop(k) for k in ('scope_entry', 'scope_plug', 'scope_open', 'scope_kpse', 'scope_path', 'scope_modfile', 'scope_openx', 'scope_guard'))
    return cases


LEVEL_TEXT = ('Machine-checked (Lean 4) theorems about an executable model of pybtex\'s entry-point plumbing: the unicode_io dispatch of BaseParser / BaseWriter and '
              'the overrides of the installed classes (all entry points are one computation up to the codec and the newline translation of a text-mode file; '
              'parse_files is the sequential composition of parse_file), find_plugin / register_plugin / enumerate_plugin_names over the regenerated '
              'entry-point tables and a run-time registry (refinement to a one-table reference by induction over every history; suffix = name decided over the '
              'tables and lifted to every file name), pybtex.io._open with its TEXMFOUTPUT logic (every failure pattern, with the sequence of open attempts) and '
              'pybtex.kpathsea.kpsewhich over every behaviour of the program. Tied to the code by a correspondence check that drives every public entry point on '
              'real files and streams, real codecs (14 spellings), installed and synthetic third-party plug-ins, the real module registry, a patched pybtex.io and '
              'an unpatched one with a kpsewhich program of our own on PATH.')
LEVEL_NOTE = ('PARTIAL by nature. MODELLED and proved: which core function each entry point reaches and with what (text or bytes, encoded/decoded by which codec '
              'call, newline-translated or not), what write_file leaves in the file, the XML declaration + strip/newline bookkeeping of the BibTeXML writer, plug-in '
              'lookup order / aliases / suffixes / force / enumeration, os.path.splitext and posixpath.join, the open / fall-back / error-wrapping logic and the order '
              'of open attempts, kpsewhich (cannot start / return code / bytes.rstrip of the output / bytes path). ASSUMED (parameters of the theorems, exercised for '
              'real by the correspondence but never proved): the codecs (only `dec (enc s) = s` for the document at hand is used -- stated as a hypothesis, whatever the '
              'codec is called), TextIOWrapper = codec + universal newlines on reading, that a file yields the bytes written to it, the plug-ins\' own parsing and '
              'printing cores (BibTeX reader/writer, PyYAML, xml.sax, ElementTree: "ElementTree ignores the XML declaration inside a str" is hypothesis hdecl), the '
              'kpsewhich program, os.environ, importlib.metadata (its answer is regenerated into Gen/Plugins.lean and compared with setup.py; stale metadata breaks '
              'the build), latexcodec. Not covered: undecodable bytes handed to parse_bytes (UnicodeDecodeError by design of the API), streams of the wrong kind '
              '(text stream to a byte plug-in), the shape of the pretty-printed '
              'XML body (hypothesis hshape, see ASSUMPTIONS), newline translation on non-POSIX platforms, concurrent modification of the registry. The model follows /repo WITH '
              'proposed fixes C17-1 (plugin), C17-2 (YAML plug-ins honour `encoding`), C17-3 (BibTeXML parse_string), C17-4 (BibTeXML reader decodes with the encoding '
              'it was given: proposed_fixes/C17-4.*; on a tree without it the check reports the BibTeXML byte / file entry points under e.g. encoding utf8 as a '
              'failing input) and C17-x1 (parse_file / to_file take only a str `name` of a file object for a file name: proposed_fixes/C17-x1.*; without it '
              'parse_file(tempfile.TemporaryFile()) is a failing input). Exceptions of io.open / Popen that are not EnvironmentErrors are modelled (EnvX) and proved to leave '
              'unconverted; "every failure is the PybtexError for the name given" quantifies over EnvironmentErrors only. Recorded boundary (finding C17-empty-document-bom, C17_write_file_partial / _neg): for an EMPTY document written without any write '
              'call under a byte-order-mark codec to_bytes is the mark while the written file stays empty.')
