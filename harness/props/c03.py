"""C03 -- BST style programs execute with BibTeX stack-language semantics."""
import io as _io
import itertools
import os
import shutil
import tempfile

import compat  # noqa: F401
from props.base import to_request, corpus_for  # noqa: F401

ID = 'C03'
CASE_TIMEOUT = None      # impl() runs each program under its own alarm (case['timeout'])
LEAN_MODULES = ['PybtexModel.Props.C03']
THEOREMS = {
    'C03_builtin_short_stack': 'every built-in pops arity(b) raw values first (Python order) and only then looks at them: on a shorter stack it raises BibTeXError(pop from empty stack) whatever the types of the values present',
    'C03_builtin_plus': 'a b + pushes a+b; fewer than two values -> BibTeXError(pop from empty stack) whatever they are; a non-integer operand -> TypeError (internal), never a default',
    'C03_builtin_minus': 'a b - pushes a-b (negative results kept); fewer than two values -> BibTeXError whatever they are; with two values present a non-integer -> TypeError',
    'C03_builtin_concat': 'x y * pushes the concatenation; a missing field is the empty string; fewer than two values -> BibTeXError whatever they are; ill-typed operands -> TypeError',
    'C03_builtin_plus_mul_same': 'observation on the pinned code: + and * are the same Python operator',
    'C03_builtin_gt_lt': 'a b > / a b < push 1 or 0 for a>b / a<b on integers (argument order pinned); fewer than two values -> BibTeXError whatever they are; mixed or non-comparable operands -> TypeError',
    'C03_builtin_gt_lt_str': '< and > on strings compare by code-point lexicographic order',
    'C03_builtin_eq': 'a b = pushes 1/0 for equal integers or equal strings (missing = ""); integer vs string is 0; like Python == it accepts any two values: function values by their bodies (structural), an object never equals an integer/string, variable objects by their __eq__; fewer than two values -> BibTeXError',
    'C03_builtin_eq_objects': '== on two variable objects: global variables by value, functions by body, a field / crossref / built-in only with itself, two entry variables of one class raise AttributeError (no _value attribute), different classes unequal',
    'C03_builtin_assign_global_int': "v 'name := on a global integer variable stores v and changes nothing else; wrong type -> ValueError",
    'C03_builtin_assign_global_str': "v 'name := on a global string variable stores v (a missing field as such); wrong type -> ValueError",
    'C03_builtin_assign_entry_int': "v 'name := on an entry integer variable writes the frame of the current entry only",
    'C03_builtin_assign_entry_str': "v 'name := on an entry string variable (sort.key$, label ...) writes the frame of the current entry only",
    'C03_builtin_assign_errors': ':= with fewer than two values is a BibTeXError whatever they are; a non-variable top operand or a function/field/built-in target is an AttributeError, never an assignment',
    'C03_builtin_stack_ops': 'duplicate$ pop$ swap$ skip$ quote$ do what their names say for values of any type; too short stacks are BibTeXErrors whatever the values',
    'C03_builtin_empty': 'empty$ pushes 1 iff the string is missing, empty or white space only; ill-typed: the integer 0 is falsy and gives 1, every other non-string is an AttributeError',
    'C03_builtin_missing': 'missing$ pushes 1 exactly for a missing-field value, 0 for every other value',
    'C03_builtin_chr_to_int': 'chr.to.int$ pushes the code point of a one-character string; ANYTHING else (other length, missing field, integer, function, variable) is a BibTeXError (Python catches the TypeError of ord)',
    'C03_builtin_int_to_chr': 'int.to.chr$ pushes chr(n) for 0 <= n < 0x110000, BibTeXError outside while n fits a C int, OverflowError (internal) beyond; a non-integer is a TypeError',
    'C03_builtin_int_to_str': 'int.to.str$ pushes the decimal representation; str() of a function/variable object (its repr) is not modelled (internal, marked unmodelled)',
    'C03_builtin_cite_type_preamble': 'cite$ pushes the current key as spelled in the citation list, type$ the entry type, preamble$ the concatenated preamble',
    'C03_builtin_write': 'write$ appends its operand to the output buffer and emits nothing',
    'C03_builtin_newline': 'newline$ emits wrap(buffer) and "\\n" and clears the buffer; the stack is untouched',
    'C03_builtin_warning_top_stack': 'warning$ reports its operand (an integer as its decimal text; repr of an object unmodelled); top$ pops and prints one value of ANY type; stack$ prints and empties the whole stack top first (object print-outs abstracted to the tag <object>)',
    'C03_builtin_substring': 's start len substring$ pushes the documented substring (Spec.substring via C12_substring_spec) for all integers; fewer than three values -> BibTeXError whatever they are; non-integer start -> TypeError; start 0 -> "" whatever the other operands; else non-integer len / non-string s -> TypeError',
    'C03_builtin_text_length': 'text.length$ pushes bibtexLen (C12) or raises the nesting error',
    'C03_builtin_text_length_spec': 'with C12_len_spec: text.length$ pushes the reference text length (braces not counted, special character once)',
    'C03_builtin_text_prefix': 's n text.prefix$ pushes bibtexPrefix s n (C12); fewer than two values -> BibTeXError whatever they are; non-integer n -> TypeError; n <= 0 -> "" whatever s; n > 0 and non-string s -> TypeError',
    'C03_builtin_text_prefix_spec': 'with C12_prefix_len / C12_prefix_nonpos: the pushed prefix has text length min(n, len) for n >= 0 and is empty for n <= 0',
    'C03_builtin_purify_width_num_names': 'purify$ / width$ / num.names$ push bibtexPurify / bibtexWidth over the regenerated table / the number of " and "-separated names',
    'C03_builtin_purify_spec': 'with C12: a purified string consists of letters, digits and blanks and purify$ is idempotent on it',
    'C03_builtin_change_case': 'change.case$ selects the conversion by the lower-cased first character of the mode (t, l, u); empty mode (also the integer 0) / other letter are BibTeXErrors raised before the string is used; other integers / objects as mode and a non-string s under a valid mode are TypeErrors; fewer than two values -> BibTeXError',
    'C03_builtin_change_case_spec': 'with C12_case_letters: change.case$ changes nothing but the case of letters (closed special characters)',
    'C03_builtin_add_period': 'add.period$ appends "." unless the string is empty or its last non-"}" character is . ? ! (three shapes covering every string); a missing field stays missing; ill-typed: the integer 0 is pushed back, every other non-string is an AttributeError',
    'C03_builtin_format_name': 'names n fmt format.name$ formats the n-th name with formatName (C11); n outside 1..count warns and pushes "" (for n < 1 before names and fmt are used: integer names in decimal, repr of an object unmodelled; beyond the count the format is unused); malformed format is a syntax error; non-integer n, non-string names (n >= 1) or format (n in range) are TypeErrors; fewer than three values -> BibTeXError',
    'C03_builtin_format_name_spec': 'with C11_matches_spec: the pushed string is the outcome of the reference rule Spec.formatName',
    'C03_builtin_newline_short': 'with C19_short_identity: a buffered text of at most 79 characters is emitted as one right-stripped line',
    'C03_builtin_call_type': 'call.type$ executes the function named like the entry type; undefined type: warning text pinned, then default.type if defined, else nothing',
    'C03_builtin_table': 'summary: whenever the documented table Doc (Spec/BstSem.lean) of the stack-only built-ins says b turns operands args into res, a call on a stack starting with args replaces them by res and changes nothing else',
    'C03_if': 'p f2 f1 if$ executes f2 if p > 0 else f1 on the stack below the three operands (only the chosen operand is executed); fewer than three values -> BibTeXError whatever they are; non-integer p / non-executable chosen operand -> internal',
    'C03_while_unfold': 'while$ = execute p; pop n; n <= 0 stop, else execute f and repeat: one-step equation with fuel and the fuel-free unfolding law; fewer than two values -> BibTeXError whatever they are',
    'C03_fuel_mono': 'a finished run (state or non-fuel error) is unchanged by more fuel, for all six mutually recursive functions',
    'C03_deterministic': 'two finished runs of the same code from the same state agree, whatever the fuel',
    'C03_exec_literals': 'literals push themselves, { } pushes the function, \'name pushes the variable (undefined -> BibTeXError), a name is executed (undefined -> BibTeXError); bodies run left to right',
    'C03_exec_variable': 'executing a global variable pushes its value, an entry variable the value in the current entry frame (default 0 / ""), a field its value or a missing field, a function runs its body',
    'C03_iterate_order': 'ITERATE {f} is the left fold of "make the entry current; execute f" over the citation list in order',
    'C03_reverse_order': 'REVERSE {f} is the same fold over the reversed citation list',
    'C03_ready': 'READ establishes "database present and every citation in it" (missing entries reported and dropped) without touching variables, entry variables or output; every command preserves it',
    'C03_execute': 'EXECUTE {f} executes f once',
    'C03_strLt_spec': 'the string comparison is code-point lexicographic order, a strict total order (irreflexive, transitive, trichotomous)',
    'C03_sort': 'after SORT the citation list is a permutation of the old one, non-decreasing in sort.key$ (never assigned = ""), stable, nothing else changes; SORT succeeds when all assigned keys are strings',
    'C03_sort_unique': 'sortedness + stability determine the sorted list uniquely',
    'C03_scoping': 'any execution preserves the Frame: current entry, database, citations, macros, preamble; entry variables of every other entry; every name keeps its object (only values of global variables change); output only through write/newline events; reports / print-outs only appended',
    'C03_scoping_entry_store': 'an entry-variable assignment for entry k is read back for k and changes no other variable of k and no variable of another entry',
    'C03_scoping_only_assign': 'only := touches variables: every other built-in that does not execute code leaves the variable table and all entry variables unchanged; := on a global changes the binding of that name (up to case) only',
    'C03_scoping_iterate': 'a whole ITERATE/REVERSE round keeps database, citations, macros, preamble, persists variables and leaves entry variables of unlisted entries untouched',
    'C03_scoping_commands': 'every command: output only through events, reports only appended, database and citation list (up to order) kept except by READ; SORT/READ/MACRO do not touch the variable table; ITERATE/REVERSE/EXECUTE only change values of globals',
    'C03_declare_entry': 'ENTRY declares exactly its fields, crossref, its integer and its string entry variables (all other names unchanged, nothing else changes) when the names are fresh and distinct up to case; otherwise BibTeXError',
    'C03_declare_function': 'FUNCTION binds a fresh name to its body; redeclaring any name is a BibTeXError',
    'C03_declare_globals': 'INTEGERS / STRINGS bind each listed name to a fresh global 0 / "" (overwriting an existing binding, as the pinned code does); all other names unchanged',
    'C03_declare_macro': 'MACRO defines the macro (last definition wins) and changes nothing else',
    'C03_output': 'the .bbl text of run is the concatenation of the emitted lines = render of the run\'s write/newline events: each newline$ contributes wrap(pending text) + "\\n", text after the last newline$ is discarded',
    'C03_output_render': 'unfolding of the event semantics: write accumulates, newline emits wrap(pending) + "\\n", events extend the emitted text',
    'C03_output_only_write_newline': 'no built-in other than write$ / newline$ (and the three that execute code) touches the emitted lines or the buffer',
}
RULE = ('well-typed straight-line programs: every sequence of up to the tier length of typed units (literals from the operand pool, '
        'fields incl. a missing one, every built-in with its operand shapes, global and entry variables) that type-checks from the empty '
        'stack, executed per entry by ITERATE and followed by a typed dump of the stack; seeded random structured programs (nested function '
        'literals, if$, counter-bounded while$, SORT / REVERSE, MACRO, call.type$); ill-typed programs: every built-in on every stack of '
        'depth 0..3 over one operand of each kind (integers 0/1/2, string, missing field, quoted variable, function literal) and of depth '
        '1..2 over every kind of variable object, followed by stack$ newline$ (engine and semantics must agree on ok + same output / '
        'BibTeXError / non-pybtex exception); the golden (bib, bst) pairs of tests/data as corpus; '
        'non-trivial = program with at least one built-in; distinct by program text')
TRUSTED = ['a value pushed by \'name is modelled as a reference by name (differs from the code only when a variable is re-declared while '
           'such a reference is on the stack; never generated)',
           'what top$ / stack$ print for a function or variable object (its Python repr, which may contain a memory address) is abstracted '
           'to the tag <object> on both sides of the comparison',
           'the .bst text is parsed by the C15 model, the .bib text by the C01 model with person_fields=[] and the MACRO table']
ASSUMPTIONS = ['the output is pinned for well-typed programs (Python raises TypeError/AttributeError where BibTeX prints a message); on ill-typed '
               'operands the model follows the pinned Python code: same error class, and the same ordinary result where Python has one',
               'while$ loops are counter bounded; no non-ASCII letters']

BIB = '''@article{Knuth84, author = {Donald E. Knuth and Leslie Lamport}, title = {The {\\TeX}book: a Guide}, year = 1984, note = "x."}
@book{lamport:86, author = "Lamport, Leslie", title = "{\\'E}tude in {L}a{T}e{X}", year = {1986}, crossref = {parent}}
@misc{parent, title = {Parent Title}, note = {inherited note}, booktitle = {B}}
@misc{unused, title = {U}}
'''
CITES = ['Knuth84', 'lamport:86']
FUEL = 200000

INTS = [-2, -1, 0, 1, 2, 7]
STRS = ['', 'a', 'ab{c}d', "{\\'e}x", 'A b: C', 'x.', 'Smith, John and Doe, Jane', '  ', '}', 'q?}}']

I, S, F = 'I', 'S', 'F'
# unit = (source text, types popped (top last), types pushed)
UNITS = []
for n in INTS:
    UNITS.append(('#%d' % n, [], [I]))
for s in STRS:
    UNITS.append(('"%s"' % s, [], [S]))
for f in ('title', 'note', 'author', 'booktitle', 'cite$', 'type$', 'quote$', 'preamble$', 'crossref'):
    UNITS.append((f, [], [S]))
for op in ('+', '-', '>', '<', '='):
    UNITS.append((op, [I, I], [I]))
UNITS += [('*', [S, S], [S]), ('=', [S, S], [I]),
          ('text.length$', [S], [I]), ('width$', [S], [I]), ('num.names$', [S], [I]), ('empty$', [S], [I]), ('missing$', [S], [I]),
          ('purify$', [S], [S]), ('add.period$', [S], [S]),
          ('int.to.str$', [I], [S]),
          ('substring$', [S, I, I], [S]), ('text.prefix$', [S, I], [S]),
          ('"l" change.case$', [S], [S]), ('"u" change.case$', [S], [S]), ('"t" change.case$', [S], [S]),
          ('#1 "{ff~}{vv~}{ll}{, jj}" format.name$', [S], [S]), ('#2 "{f.~}{ll}" format.name$', [S], [S]),
          ('"a" chr.to.int$', [], [I]), ('#65 int.to.chr$', [], [S]),
          ('duplicate$', [S], [S, S]), ('duplicate$', [I], [I, I]), ('pop$', [S], []), ('pop$', [I], []),
          ('swap$', [S, I], [I, S]), ('swap$', [I, S], [S, I]), ('swap$', [S, S], [S, S]), ('swap$', [I, I], [I, I]),
          ('skip$', [], []),
          ("'gi :=", [I], []), ('gi', [], [I]), ("'gs :=", [S], []), ('gs', [], [S]),
          ("'count :=", [I], []), ('count', [], [I]), ("'label :=", [S], []), ('label', [], [S]),
          ('{ "yes" } { "no" } if$', [I], [S]), ("{ #1 pop$ } 'skip$ if$", [I], []),
          ('warning$', [S], []), ('top$', [S], []), ('top$', [I], []), ('write$', [S], []), ('newline$', [], []),
          ('entry.max$', [], [I]), ('global.max$', [], [I])]

HEADER = ('ENTRY { title author year note booktitle } { count } { label }\n'
          'INTEGERS { gi gj }\nSTRINGS { gs gt }\n')


def dump_code(types):
    out = []
    for t in reversed(types):
        out.append('int.to.str$ write$ newline$' if t == I else '"[" swap$ * "]" * write$ newline$')
    return ' '.join(out)


def make_program(body, types, sort=False):
    src = HEADER + 'FUNCTION {main} { %s %s }\nREAD\n' % (body, dump_code(types))
    src += 'ITERATE {main}\n'
    return src


def typed_sequences(maxlen):
    def rec(prefix, stack, depth):
        yield prefix, stack
        if depth == maxlen:
            return
        for u in UNITS:
            pops = u[1]
            if len(stack) >= len(pops) and (not pops or stack[-len(pops):] == pops):
                yield from rec(prefix + [u[0]], stack[:len(stack) - len(pops)] + u[2], depth + 1)
    yield from rec([], [], 0)


_TMP = {}


def _tmpdir():
    d = _TMP.get(os.getpid())
    if d is None:
        d = tempfile.mkdtemp(prefix='verif-c03-')
        _TMP[os.getpid()] = d
        import atexit
        atexit.register(shutil.rmtree, d, True)
    return d


def canon_report(e):
    cls = type(e).__name__
    msg = e.args[0] if e.args else ''
    if isinstance(msg, int):
        msg = str(msg)          # warning$ on an integer: BibTeXError(n), printed as str(n)
    elif not isinstance(msg, str):
        msg = OBJECT_TAG        # an object: its repr may contain a memory address
    if cls == 'InvalidNameString':
        import ast
        try:
            msg = ast.literal_eval(msg[len('Too many commas in '):])
        except Exception:
            pass
    return [cls, msg]


OBJECT_TAG = '<object>'
_OBJ_REPR = ('Function(', 'Integer(', 'String(', 'EntryInteger(', 'EntryString(', '<pybtex.bibtex.interpreter.', '<builtin ')


def errclass_view(case, io):
    """View of an engine result for the ill-typed family: the print-out of a function / variable object (Python repr, may contain a
    memory address) becomes the tag the model prints; where the table UNMODELLED says that Python computes the repr of an object
    (or defers the failure to the next newline$) every outcome but a BibTeXError is the class UNMODELLED."""
    if case.get('unmodelled'):
        if 'error' in io and io['error'][0] not in ('INTERNAL',):
            return io
        return {'error': ['UNMODELLED']}
    if 'error' in io:
        return {'error': io['error']}
    io = dict(io)
    io['printed'] = [OBJECT_TAG if l.startswith(_OBJ_REPR) else l for l in io['printed']]
    return io


def impl(case):
    io = impl_raw(case)
    if case.get('errclass'):
        return errclass_view(case, io)
    return io


def impl_raw(case):
    import pybtex.io
    from pybtex import errors
    from pybtex.bibtex import format_from_strings
    from pybtex.exceptions import PybtexError
    d = _tmpdir()
    path = os.path.join(d, 'style%d' % (abs(hash(case['bst'])) % 100000))
    with open(path + '.bst', 'w', encoding='utf-8', newline='') as f:
        f.write(case['bst'])
    old_out = pybtex.io.stdout
    buf = _io.StringIO()
    pybtex.io.stdout = buf
    import signal

    class _Timeout(BaseException):
        pass

    def _alarm(*a):
        raise _Timeout()
    old_handler = signal.signal(signal.SIGALRM, _alarm)
    signal.alarm(case.get('timeout', 60))
    try:
        with errors.capture() as captured:
            bbl = format_from_strings(case['bibs'], style=path, citations=list(case['citations']), min_crossrefs=case['min_crossrefs'])
        printed = buf.getvalue().split('\n')
        if printed and printed[-1] == '':
            printed.pop()
        return {'bbl': bbl, 'reports': [canon_report(e) for e in captured], 'printed': printed}
    except PybtexError as e:
        cls = type(e).__name__
        if cls in ('PybtexSyntaxError', 'TokenRequired', 'PrematureEOF') and getattr(e, 'parser', None) is not None and type(e.parser).__name__ == 'BstParser':
            return {'error': ['BST-SYNTAX']}
        return {'error': [cls]}
    except (RecursionError, _Timeout):
        return {'error': ['OUT-OF-FUEL']}
    except Exception as e:  # noqa
        return {'error': ['INTERNAL'], 'detail': '%s: %s' % (type(e).__name__, e)}
    finally:
        signal.alarm(0)
        signal.signal(signal.SIGALRM, old_handler)
        pybtex.io.stdout = old_out
        try:
            os.unlink(path + '.bst')
        except OSError:
            pass


def to_request(case):  # noqa: F811
    return {'op': 'bstrun', 'bst': case['bst'], 'bibs': case['bibs'], 'citations': case['citations'],
            'min_crossrefs': case['min_crossrefs'], 'fuel': case.get('fuel', FUEL)}


def model_out(case, reply):
    o = reply['out']
    if 'error' in o:
        if case.get('errclass') and o['error'][0] == 'INTERNAL' and o['error'][1].startswith('unmodelled:'):
            return {'error': ['UNMODELLED']}
        return {'error': [o['error'][0]]}
    return o


def compare_view(io):
    if 'error' in io:
        return {'error': io['error']}
    return io


def oracle(case, io, reply):
    """C03 pins the output: for a well-typed program of the generated family the engine must produce what the semantics
    (the Lean model, tied to the documented built-ins by the C03 theorems) defines."""
    fails = []
    mo = model_out(case, reply)
    if ('error' in io and io['error'][0] == 'OUT-OF-FUEL') or ('error' in mo and mo['error'][0] == 'OUT-OF-FUEL'):
        return fails
    if case.get('errclass'):
        # ill-typed family: engine and semantics must agree on the class (ok + same output / BibTeXError / INTERNAL / UNMODELLED)
        if compare_view(io) != mo:
            fails.append('illtyped_class: engine %r, semantics %r; program=%r' % (
                {k: io.get(k) for k in ('error', 'detail', 'printed', 'bbl', 'reports') if k in io}, mo, case['bst'][-200:]))
        return fails
    if 'error' in io and io['error'][0] == 'INTERNAL' and case.get('welltyped', True):
        fails.append('builtins_documented: a well-typed program raised a non-pybtex exception: %s; program=%r' % (io.get('detail'), case['bst'][-300:]))
    elif case.get('welltyped', True) and 'error' not in mo and compare_view(io) != mo:
        keys = [k for k in ('bbl', 'reports', 'printed', 'error') if io.get(k) != mo.get(k)]
        fails.append('output_defined: %s differ from the BST semantics: engine %r, semantics %r; program=%r' % (
            keys, {k: io.get(k) for k in keys}, {k: mo.get(k) for k in keys}, case['bst'][-400:]))
    return fails


def buckets(case, io):
    b = ['error:' + io['error'][0]] if 'error' in io else ['ok']
    b.append(case.get('family', '?'))
    return b


def nontrivial(case, io):
    return '$' in case['bst'].split('READ')[0].split('FUNCTION', 1)[-1] or ':=' in case['bst']


def valid_case(case):
    return False     # programs are not shrunk by the generic JSON shrinker (it would break well-typedness)


def corpus():
    out = list(corpus_for(ID))
    data = os.path.join(compat.REPO, 'tests', 'data')
    pairs = [('xampl.bib', 'unsrt'), ('xampl.bib', 'plain'), ('xampl.bib', 'alpha'), ('xampl.bib', 'abbrv'),
             ('cyrillic.bib', 'unsrt'), ('xampl_mixed.bib', 'unsrt')]   # cyrillic/alpha sorts on non-ASCII letters: outside the model
    for bib, bst in pairs:
        bp, sp = os.path.join(data, bib), os.path.join(data, bst + '.bst')
        if os.path.exists(bp) and os.path.exists(sp):
            with open(bp, encoding='utf-8') as f:
                bibtext = f.read()
            with open(sp, encoding='utf-8') as f:
                bsttext = f.read()
            out.append({'op': 'bstrun', 'bst': bsttext, 'bibs': [bibtext], 'citations': ['*'], 'min_crossrefs': 2, 'fuel': 50000000,
                        'family': 'golden:%s/%s' % (bib, bst), 'welltyped': True})
    return out


def mk(body, types, family):
    return {'op': 'bstrun', 'bst': make_program(body, types), 'bibs': [BIB], 'citations': CITES, 'min_crossrefs': 2,
            'family': family, 'welltyped': True}


def random_program(rng):
    """Structured programs: helper functions, if$/while$, entry and global variables, SORT/REVERSE, MACRO, call.type$."""
    lines = ['ENTRY { title author year note } { n } { lab }', 'INTEGERS { i j k }', 'STRINGS { s t }']
    if rng.random() < 0.5:
        lines.append('MACRO {jan} {"January"}')
        lines.append('MACRO {%s} {"%s"}' % (rng.choice(['foo', 'Bar', 'x.y']), rng.choice(['F', 'G g'])))

    def int_expr(d):
        r = rng.random()
        if d > 2 or r < 0.3:
            return rng.choice(['#%d' % rng.choice(INTS), 'i', 'n', 'title text.length$', 'author num.names$', 'note empty$', 'note missing$'])
        if r < 0.6:
            return '%s %s %s' % (int_expr(d + 1), int_expr(d + 1), rng.choice(['+', '-', '>', '<', '=']))
        if r < 0.8:
            return '%s %s =' % (str_expr(d + 1), str_expr(d + 1))
        return '%s { %s } { %s } if$' % (int_expr(d + 1), int_expr(d + 1), int_expr(d + 1))

    def str_expr(d):
        r = rng.random()
        if d > 2 or r < 0.3:
            return rng.choice(['"%s"' % rng.choice(STRS), 's', 'lab', 'title', 'note', 'author', 'cite$', 'type$', 'year'])
        if r < 0.5:
            return '%s %s *' % (str_expr(d + 1), str_expr(d + 1))
        if r < 0.7:
            return '%s %s' % (str_expr(d + 1), rng.choice(['purify$', 'add.period$', '"l" change.case$', '"t" change.case$', '"u" change.case$',
                                                         '#1 "{vv~}{ll}{, f.}" format.name$']))
        if r < 0.8:
            return '%s %s %s substring$' % (str_expr(d + 1), int_expr(d + 1), int_expr(d + 1))
        if r < 0.9:
            return '%s int.to.str$' % int_expr(d + 1)
        return '%s { %s } { %s } if$' % (int_expr(d + 1), str_expr(d + 1), str_expr(d + 1))

    def stmt(d):
        r = rng.random()
        if r < 0.2:
            return "%s '%s :=" % (int_expr(1), rng.choice(['i', 'n']))   # never j: it is the while$ counter
        if r < 0.4:
            return "%s '%s :=" % (str_expr(1), rng.choice(['s', 't', 'lab']))
        if r < 0.6:
            return '%s write$ newline$' % str_expr(1)
        if r < 0.7 and d < 2:
            v = 'j' if d == 0 else 'k'
            return "#%d '%s := { %s #0 > } { %s %s #1 - '%s := } while$" % (rng.randint(0, 4), v, v, stmt(d + 1), v, v)
        if r < 0.8 and d < 2:
            return '%s { %s } { %s } if$' % (int_expr(1), stmt(d + 1), stmt(d + 1))
        if r < 0.85:
            return '%s warning$' % str_expr(1)
        if r < 0.9:
            return '%s top$' % rng.choice([int_expr(1), str_expr(1)])
        return 'helper'
    lines.append('FUNCTION {helper} { %s write$ newline$ }' % str_expr(1))
    lines.append('FUNCTION {article} { "ART " cite$ * write$ newline$ }')
    if rng.random() < 0.5:
        lines.append('FUNCTION {default.type} { "DEFAULT " type$ * write$ newline$ }')
    lines.append('FUNCTION {presort} { %s purify$ "l" change.case$ \'sort.key$ := }' % str_expr(1))
    lines.append('FUNCTION {main} { %s call.type$ }' % ' '.join(stmt(0) for _ in range(rng.randint(1, 4))))
    lines.append('READ')
    r = rng.random()
    if r < 0.6:
        lines.append('ITERATE {presort}')
        lines.append('SORT')
    elif r < 0.65:
        lines.append('SORT')     # sorting without any sort.key$ assignment: all keys empty, order unchanged
    lines.append(rng.choice(['ITERATE {main}', 'REVERSE {main}', 'ITERATE {main}\nREVERSE {main}']))
    if rng.random() < 0.3:
        lines.append('EXECUTE {skip$}')
    return '\n'.join(lines) + '\n'


# assignment / read units over every kind of variable (global int / string, entry int / string, sort.key$), with the default
# values 0 and "" in the pool: "assign a value, assign the default, read" needs five units
ASSIGN_UNITS = ([('#%d' % n, [], [I]) for n in (0, 3, -1)] + [('"%s"' % x, [], [S]) for x in ('', 'x')] +
                [("'gi :=", [I], []), ('gi', [], [I]), ("'gs :=", [S], []), ('gs', [], [S]),
                 ("'count :=", [I], []), ('count', [], [I]), ("'label :=", [S], []), ('label', [], [S]),
                 ("'sort.key$ :=", [S], []), ('sort.key$', [], [S])])


def assign_sequences(nassign):
    """Up to `nassign` assignments (every variable kind x every value of its type, defaults included) followed by one read."""
    ivars, svars = ['gi', 'count'], ['gs', 'label', 'sort.key$']
    assigns = (["#%d '%s :=" % (n, v) for v in ivars for n in (0, 3, -1)] + ['"%s" \'%s :=' % (x, v) for v in svars for x in ('', 'x')])
    import itertools
    for k in range(nassign + 1):
        for seq in itertools.product(assigns, repeat=k):
            for v in ivars + svars:
                yield list(seq) + [v], [I if v in ivars else S]


def multipass_program(rng):
    """Several ITERATE / REVERSE passes that set, selectively reset (to the default values too) and then show entry and global variables."""
    iv = lambda: '#%d' % rng.choice([0, 0, 3, -1, 7])   # noqa: E731
    sv = lambda: '"%s"' % rng.choice(['', '', 'x', 'Yz'])   # noqa: E731
    lines = ['ENTRY { title author year note } { n m } { lab tag }', 'INTEGERS { i }', 'STRINGS { s }']
    fns = []
    for k in range(rng.randint(2, 4)):
        body = []
        for _ in range(rng.randint(1, 4)):
            body.append(rng.choice(["%s 'n :=" % iv(), "%s 'm :=" % iv(), "%s 'lab :=" % sv(), "%s 'tag :=" % sv(), "%s 'i :=" % iv(), "%s 's :=" % sv(),
                                    "%s 'sort.key$ :=" % sv(), "n #1 + 'n :=", 'lab "+" * \'lab :=', "n 'm :=", "tag 'lab :="]))
        body = ' '.join(body)
        if rng.random() < 0.6:
            body = 'cite$ "%s" = { %s } \'skip$ if$' % (rng.choice(['Knuth84', 'lamport:86', 'parent', 'unused']), body)
        lines.append('FUNCTION {f%d} { %s }' % (k, body))
        fns.append('f%d' % k)
    lines.append('FUNCTION {show} { cite$ ":" * n int.to.str$ * ":" * m int.to.str$ * ":" * lab * ":" * tag * ":" * sort.key$ * ":" * i int.to.str$ * ":" * s * write$ newline$ }')
    lines.append('READ')
    for f in fns:
        lines.append('%s {%s}' % (rng.choice(['ITERATE', 'ITERATE', 'REVERSE']), f))
        if rng.random() < 0.3:
            lines.append('SORT')
    lines.append('ITERATE {show}')
    return '\n'.join(lines) + '\n'


# ---- ill-typed family: every built-in on every stack of depth 0..3 over one operand of each kind -----------------------------------
ALL_BUILTINS = ['>', '<', '=', '*', ':=', '+', '-', 'add.period$', 'call.type$', 'change.case$', 'chr.to.int$', 'cite$', 'duplicate$',
                'empty$', 'format.name$', 'if$', 'int.to.chr$', 'int.to.str$', 'missing$', 'newline$', 'num.names$', 'pop$', 'preamble$',
                'purify$', 'quote$', 'skip$', 'substring$', 'stack$', 'swap$', 'text.length$', 'text.prefix$', 'top$', 'type$', 'warning$',
                'while$', 'width$', 'write$']
# (source text, kind): integers 0 / 1 / 2 (0 is falsy in Python), a string that is also a valid change.case$ mode and format, a missing
# field, a quoted global variable, a function literal
ILL_POOL = [('#0', 'I'), ('#1', 'I'), ('#2', 'I'), ('"t"', 'S'), ('volume', 'M'), ("'gi", 'O'), ('{ skip$ }', 'O')]
# second pool (depth <= 2): every kind of variable object
ILL_POOL2 = [("'gi", 'O'), ("'gs", 'O'), ("'count", 'O'), ("'label", 'O'), ("'title", 'O'), ("'crossref", 'O'), ("'skip$", 'O'),
             ("'helper", 'O'), ('{ skip$ }', 'O'), ('{ #1 }', 'O'), ('#1', 'I'), ('"a"', 'S'), ('""', 'S')]
ILL_HEADER = ('ENTRY { title volume } { count } { label }\nINTEGERS { gi gj }\nSTRINGS { gs gt }\nFUNCTION {helper} { skip$ }\n')


def unmodelled(builtin, ops):
    """The cases where Python's ordinary result involves the repr of an object (or the failure is deferred): the model declares them
    `unmodelled` (LEVEL_NOTE).  ops: (source, kind) bottom to top."""
    k = [o[1] for o in ops]
    if builtin in ('int.to.str$', 'warning$'):
        return len(k) >= 1 and k[-1] == 'O'
    if builtin == 'write$':
        return len(k) >= 1 and k[-1] in ('I', 'O')
    if builtin == 'format.name$':
        return len(k) >= 3 and k[-2] == 'I' and ops[-2][0] == '#0' and k[-3] == 'O'
    return False


def illtyped_case(builtin, ops, family):
    src = ILL_HEADER + 'FUNCTION {main} { %s %s stack$ newline$ }\nREAD\nITERATE {main}\n' % (' '.join(o[0] for o in ops), builtin)
    c = {'op': 'bstrun', 'bst': src, 'bibs': [BIB], 'citations': ['Knuth84'], 'min_crossrefs': 2, 'family': family, 'errclass': True,
         'fuel': 20000, 'timeout': 20}
    if unmodelled(builtin, ops):
        c['unmodelled'] = True
    return c


def illtyped_cases():
    out = []
    for b in ALL_BUILTINS:
        for d in range(4):
            for ops in itertools.product(ILL_POOL, repeat=d):
                out.append(illtyped_case(b, ops, 'illtyped%d' % d))
        for d in (1, 2):
            for ops in itertools.product(ILL_POOL2, repeat=d):
                if b == 'while$' and d == 2 and ops[0][0] == '{ #1 }' and ops[1][1] == 'O':
                    continue        # { #1 } f while$ with an executable f does not terminate
                out.append(illtyped_case(b, ops, 'illtyped-objects%d' % d))
    return out


def gen_cases(tier, rng, info):
    cases = []
    maxlen = 2 if tier == 'quick' else 3
    na = 0
    for body, types in assign_sequences(2 if tier == 'quick' else 3):
        cases.append(mk(' '.join(body), types, 'assign%d' % (len(body) - 1)))
        na += 1
    for _ in range(600 if tier == 'quick' else 10000):
        cases.append({'op': 'bstrun', 'bst': multipass_program(rng), 'bibs': [BIB], 'citations': rng.choice([CITES, ['*']]),
                      'min_crossrefs': 2, 'family': 'multipass', 'welltyped': True})
    n = 0
    seqs = list(typed_sequences(maxlen))
    for body, types in seqs:
        cases.append(mk(' '.join(body), types, 'straight%d' % len(body)))
        n += 1
    info['exhaustive'] = True
    info['scope'] = ('all %d well-typed unit sequences of length <= %d over %d typed units (operand pool %r, %r); all %d assign/read sequences '
                     'over every variable kind with the default values in the pool' % (n, maxlen, len(UNITS), INTS, STRS, na))
    if tier == 'quick':
        three = list(typed_sequences(3))
        for body, types in rng.sample(three, min(2500, len(three))):
            if len(body) == 3:
                cases.append(mk(' '.join(body), types, 'straight3-sample'))
    ill = illtyped_cases()
    cases.extend(ill)
    info['scope'] += ('; ill-typed: all %d programs "operands built-in" for each of the %d built-ins on every stack of depth 0..3 over %r and of '
                      'depth 1..2 over %r (agreement on ok+output / BibTeXError / INTERNAL)' % (
                          len(ill), len(ALL_BUILTINS), [o[0] for o in ILL_POOL], [o[0] for o in ILL_POOL2]))
    cite_sets = [CITES, ['*'], ['lamport:86', 'unused', 'KNUTH84'], ['nokey', 'Knuth84'], ['parent', 'lamport:86']]
    for _ in range(1500 if tier == 'quick' else 30000):
        cases.append({'op': 'bstrun', 'bst': random_program(rng), 'bibs': [BIB], 'citations': rng.choice(cite_sets),
                      'min_crossrefs': rng.choice([1, 2]), 'family': 'random', 'welltyped': True})
    return cases


LEVEL_TEXT = ('Machine-checked proof (Lean 4) about an executable model of the BST interpreter (pybtex/bibtex/interpreter.py + builtins.py) for EVERY '
              'state, stack content and program: one theorem per built-in (all 37) giving the exact stack / output / state change on the documented '
              'operand shapes with frame conditions; BibTeXError(pop from empty stack) on every stack shorter than the number of values the built-in '
              'pops, whatever their types (the model pops raw values in Python\'s order and inspects them afterwards); on ill-typed operands what the '
              'pinned Python code does (TypeError/AttributeError = internal error, or the ordinary result Python computes), never a silent default; '
              'if$ and the unfolding law of while$; fuel monotonicity and determinism of the six mutually recursive execution functions; '
              'ITERATE / REVERSE as the left fold over the citation list in order / in reverse; SORT = the unique stable sort by sort.key$ under '
              'code-point lexicographic order; scoping (entry variables of other entries untouched, global variables persist, functions never '
              'redefined by execution); ENTRY / INTEGERS / STRINGS / FUNCTION / MACRO declare exactly what they list; the .bbl text is the rendering of '
              'the run\'s write$/newline$ events. The string built-ins are tied to the theorems of C12 (substring$, text.length$, text.prefix$, purify$, '
              'change.case$), C11 (format.name$) and C19 (newline$). The model is tied to the code by a correspondence check that is exhaustive over '
              'well-typed straight-line programs of 90 typed units up to the tier length and over every built-in on every ill-typed stack of depth '
              '0..3 over one operand of each kind, plus seeded random structured programs and the golden styles.')
LEVEL_NOTE = ('Trusted: Lean kernel; axioms propext/Classical.choice/Quot.sound only; the hand-written model (Model/Interp.lean) corresponds to the '
              'Python code only as far as the differential check explores; a value pushed by \'name is a reference by name; the print-out of a '
              'function / variable object by top$ / stack$ is the tag <object>. Ill-typed operands where Python\'s behaviour is an ORDINARY RESULT '
              'and the model follows it: = on any two values (functions by body, variable objects by their __eq__; two entry variables of one class '
              'raise AttributeError); + and * are one operator (two strings concatenate, two integers add, under either name); < and > on two '
              'strings; add.period$ on the integer 0 (pushed back) and empty$ on 0 (gives 1); change.case$ with mode 0 ("empty mode" BibTeXError); '
              'chr.to.int$ on anything but a one-character string (BibTeXError, also for integers and objects); missing$ / duplicate$ / pop$ / swap$ / '
              'top$ / stack$ on any value; int.to.str$ on a string (unchanged); warning$ on an integer (decimal text); substring$ with start 0 ("" '
              'whatever the other operands) and text.prefix$ with a count <= 0 ("" whatever the string); format.name$ with a name number < 1 (warning '
              'before names and format are used; integer names in decimal) or beyond the count (format unused); if$ never looks at the operand it '
              'does not execute. OUT OF DOMAIN, kept as an internal error marked "unmodelled:" although Python gives an ordinary result (it involves '
              'the repr of an object, or the failure is deferred): int.to.str$ and warning$ on a function / variable object, the format.name$ warning '
              '(name number < 1) when names is such an object, and write$ of a non-string (Python appends it and fails with TypeError at the next '
              'newline$, or never if none follows); int.to.chr$ of an integer outside the C int range is an OverflowError (internal), not the '
              'BibTeXError of the other out-of-range integers. Observations, not violations of the property as stated: the pinned code implements + '
              'and * by one Python operator (C03_builtin_plus_mul_same) and INTEGERS / STRINGS silently overwrite an existing binding '
              '(C03_declare_globals).')
