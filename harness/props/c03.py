"""C03 -- BST style programs execute with BibTeX stack-language semantics."""
import io as _io
import itertools
import os
import shutil
import tempfile

import compat  # noqa: F401
from props.base import to_request, corpus_for  # noqa: F401

ID = 'C03'
CASE_TIMEOUT = None      # impl() runs each program under its own alarm (case['timeout'])
LEAN_MODULES = ['PybtexModel.Props.C03', 'PybtexModel.Props.C03x', 'PybtexModel.Props.C03y']
THEOREMS = {
    'C03_builtin_short_stack': "[model wiring] pins the model's own equation (closed form; tie to builtins.py: the correspondence check): every built-in pops arity(b) raw values first (Python order) and only then looks at them: on a shorter stack it raises BibTeXError(pop from empty stack) whatever the types of the values present",
    'C03_builtin_plus': "[model wiring] pins the model's own equation (closed form; tie to builtins.py: the correspondence check): a b + pushes a+b; fewer than two values -> BibTeXError(pop from empty stack) whatever they are; a non-integer operand -> TypeError (internal), never a default",
    'C03_builtin_minus': "[model wiring] pins the model's own equation (closed form; tie to builtins.py: the correspondence check): a b - pushes a-b (negative results kept); fewer than two values -> BibTeXError whatever they are; with two values present a non-integer -> TypeError",
    'C03_builtin_concat': "[model wiring] pins the model's own equation (closed form; tie to builtins.py: the correspondence check): x y * pushes the concatenation; a missing field is the empty string; fewer than two values -> BibTeXError whatever they are; ill-typed operands -> TypeError",
    'C03_builtin_plus_mul_same': '[model wiring] (rfl) observation on the pinned code as modelled: + and * are the same Python operator',
    'C03_builtin_gt_lt': "[model wiring] pins the model's own equation (closed form; tie to builtins.py: the correspondence check): a b > / a b < push 1 or 0 for a>b / a<b on integers (argument order pinned); fewer than two values -> BibTeXError whatever they are; mixed or non-comparable operands -> TypeError",
    'C03_builtin_gt_lt_str': "[model wiring] pins the model's own equation (closed form; tie to builtins.py: the correspondence check): < and > on strings compare by the model function strLt - that strLt is code-point lexicographic order, a strict total order, is C03_strLt_spec",
    'C03_builtin_eq': '[model wiring] pins the model\'s own equation (closed form; tie to builtins.py: the correspondence check): a b = pushes 1/0 for equal integers or equal strings (missing = ""); integer vs string is 0; like Python == it accepts any two values: function values by their bodies (structural), an object never equals an integer/string, variable objects by their __eq__; fewer than two values -> BibTeXError',
    'C03_builtin_eq_objects': '[model wiring] pins the model function objEq (== on two variable objects): global variables by value, functions by body, a field / crossref / built-in only with itself, two entry variables of one class raise AttributeError (no _value attribute), different classes unequal',
    'C03_builtin_assign_global_int': "[model wiring] pins the model's own equation (closed form; tie to builtins.py: the correspondence check): v 'name := on a global integer variable stores v and changes nothing else; wrong type -> ValueError",
    'C03_builtin_assign_global_str': "[model wiring] pins the model's own equation (closed form; tie to builtins.py: the correspondence check): v 'name := on a global string variable stores v (a missing field as such); wrong type -> ValueError",
    'C03_builtin_assign_entry_int': "[model wiring] pins the model's own equation (closed form; tie to builtins.py: the correspondence check): v 'name := on an entry integer variable writes the frame of the current entry only",
    'C03_builtin_assign_entry_str': "[model wiring] pins the model's own equation (closed form; tie to builtins.py: the correspondence check): v 'name := on an entry string variable (sort.key$, label ...) writes the frame of the current entry only",
    'C03_builtin_assign_errors': "[model wiring] pins the model's own equation (closed form; tie to builtins.py: the correspondence check): := with fewer than two values is a BibTeXError whatever they are; a non-variable top operand or a function/field/built-in target is an AttributeError, never an assignment",
    'C03_builtin_stack_ops': "[model wiring] pins the model's own equation (closed form; tie to builtins.py: the correspondence check): duplicate$ pop$ swap$ skip$ quote$ do what their names say for values of any type; too short stacks are BibTeXErrors whatever the values",
    'C03_builtin_empty': 'empty$ pushes 1 iff the string is Blank (independent spec predicate: missing, empty or white space only) - the equation itself pins the model; ill-typed: the integer 0 is falsy and gives 1, every other non-string is an AttributeError',
    'C03_builtin_missing': "[model wiring] pins the model's own equation (closed form; tie to builtins.py: the correspondence check): missing$ pushes 1 exactly for a missing-field value, 0 for every other value",
    'C03_builtin_chr_to_int': "[model wiring] pins the model's own equation (closed form; tie to builtins.py: the correspondence check): chr.to.int$ pushes the code point of a one-character string; ANYTHING else (other length, missing field, integer, function, variable) is a BibTeXError (Python catches the TypeError of ord)",
    'C03_builtin_int_to_chr': '[model wiring + one fact] int.to.chr$ pushes the character whose code point is n for 0 <= n < 0x110000 outside the surrogate block (the pushed character really has code point n); a surrogate code point (0xD800-0xDFFF: Python gives a lone surrogate) is outside the model and stops it with an internal error marked unmodelled: - never another character; BibTeXError outside 0..0x10FFFF while n fits a C int, OverflowError (internal) beyond; a non-integer is a TypeError',
    'C03_builtin_int_to_str': "[model wiring] pins the model's own equation (closed form; tie to builtins.py: the correspondence check): int.to.str$ pushes the decimal representation; str() of a function/variable object (its repr) is not modelled (internal, marked unmodelled)",
    'C03_builtin_cite_type_preamble': "[model wiring] pins the model's own equation (closed form; tie to builtins.py: the correspondence check): cite$ pushes the current key as spelled in the citation list, type$ the entry type, preamble$ the concatenated preamble",
    'C03_builtin_write': "[model wiring] pins the model's own equation (closed form; tie to builtins.py: the correspondence check): write$ appends its operand to the output buffer and emits nothing; the call is recorded as the event write(x) in the trace of output calls",
    'C03_builtin_newline': '[model wiring] pins the model\'s own equation (closed form; tie to builtins.py: the correspondence check): newline$ emits wrap(buffer) and "\\n" and clears the buffer; the stack is untouched; the call is recorded as the event newline in the trace of output calls',
    'C03_builtin_warning_top_stack': "[model wiring] pins the model's own equation (closed form; tie to builtins.py: the correspondence check): warning$ reports its operand (an integer as its decimal text; repr of an object unmodelled); top$ pops and prints one value of ANY type; stack$ prints and empties the whole stack top first (object print-outs abstracted to the tag <object>)",
    'C03_builtin_substring': 's start len substring$ pushes Spec.substring s start len (the independent reference of C12, via C12_substring_spec) for all integers; the error / ill-typed conjuncts pin the model: fewer than three values -> BibTeXError whatever they are; non-integer start -> TypeError; start 0 -> "" whatever the other operands; else non-integer len / non-string s -> TypeError',
    'C03_builtin_text_length': '[model wiring] text.length$ pushes the MODEL function bibtexLen or raises the nesting error; the real claim is C03_builtin_text_length_spec',
    'C03_builtin_text_length_spec': 'with C12_len_spec: text.length$ pushes the reference text length (braces not counted, special character once)',
    'C03_builtin_text_prefix': '[model wiring] s n text.prefix$ pushes the MODEL function bibtexPrefix s n (real claim: C03_builtin_text_prefix_spec); fewer than two values -> BibTeXError whatever they are; non-integer n -> TypeError; n <= 0 -> "" whatever s; n > 0 and non-string s -> TypeError',
    'C03_builtin_text_prefix_spec': 'with C12_prefix_len / C12_prefix_nonpos: the pushed prefix has text length min(n, len) for n >= 0 and is empty for n <= 0',
    'C03_builtin_purify_width_num_names': '[model wiring] purify$ / width$ / num.names$ push the MODEL functions bibtexPurify / bibtexWidthStd (regenerated width table) / length of splitNameList: no independent value spec in this equation - purify$: only C03_builtin_purify_spec; num.names$: C03_builtin_num_names_spec; width$: C03_builtin_width_spec',
    'C03_builtin_purify_spec': 'PARTIAL, with C12: a purified string consists of letters, digits and blanks and purify$ is idempotent on it - the VALUE of purify$ is not specified independently (model function bibtexPurify; correspondence check)',
    'C03_builtin_width_spec': 'width$ "takes the literal literally ... except that special characters are handled specially": for every string within 100 nesting levels width$ pushes the scanner-free one-pass width (Spec.widthOnePass): every character outside a special character counts with its own width, braces and backslashes included; a special character is a { at brace level 0 directly followed by a backslash, nothing else (repair C03-2); without special character: the sum of the character widths. The TEXT of a special character is measured by pybtex\'s rule (finding C03-width-special-char-contents)',
    'C03_builtin_num_names_spec': 'with the C01 characterisation of split_name_list (C01_split_names_spec): for a list written as n+1 names joined by n separators (any spelling of " and "; each name non-empty, brace-balanced, without a separator match at brace level 0) num.names$ pushes n+1',
    'C03_builtin_change_case': '[model wiring] change.case$ = the MODEL function changeCase in the mode selected by the lower-cased first character (t, l, u) - real claim: C03_builtin_change_case_spec; empty mode (also the integer 0) / other letter are BibTeXErrors raised before the string is used; other integers / objects as mode, a non-string s under a valid mode: TypeError; fewer than two values -> BibTeXError',
    'C03_builtin_change_case_spec': 'with C12_case_letters, ONLY for strings whose special characters are closed (specialsClosed): change.case$ changes nothing but the case of letters and keeps the length',
    'C03_builtin_add_period': 'add.period$: the first two conjuncts pin the model (pushes the model function addPeriod s; a missing field stays missing); the next three characterise addPeriod independently: "." appended unless the string is empty or its last non-"}" character is . ? ! (three shapes covering every string); ill-typed: the integer 0 is pushed back, every other non-string is an AttributeError',
    'C03_builtin_format_name': '[model wiring] names n fmt format.name$ formats the n-th name (of splitNameList) with the MODEL function formatName of C11 - real claim: C03_builtin_format_name_spec; n outside 1..count warns and pushes "" (n < 1: before names and fmt are used); malformed format is a syntax error; non-integer n, non-string names (n >= 1) or format (n in range) are TypeErrors; fewer than three values -> BibTeXError',
    'C03_builtin_format_name_spec': 'with C11_matches_spec: the pushed string is the outcome of the reference rule Spec.formatName',
    'C03_builtin_newline_short': 'with C19_short_identity: a buffered text of at most 79 characters is emitted as one right-stripped line',
    'C03_builtin_call_type': "[model wiring] pins the model's own equation (closed form; tie to builtins.py: the correspondence check): call.type$ executes the function named like the entry type; undefined type: warning text pinned, then default.type if defined, else nothing",
    'C03_builtin_table': '[model wiring] summary table: Doc (Spec/BstSem.lean) restates the equations of the C03_builtin_* theorems for the stack-only built-ins (and reuses the model functions bibtexPurify / bibtexWidthStd / splitNameList in its rows): a call on a stack starting with args replaces them by res and changes nothing else',
    'C03_if': "[model wiring] pins the model's own equation (closed form; tie to builtins.py: the correspondence check): p f2 f1 if$ executes f2 if p > 0 else f1 on the stack below the three operands (only the chosen operand is executed); fewer than three values -> BibTeXError whatever they are; non-integer p / non-executable chosen operand -> internal",
    'C03_while_unfold': 'while$: conjuncts 1-2 are [model wiring] (the one-step equations of the fuelled whileLoop, by unfolding); conjuncts 3-4 are the fuel-free unfolding law on the exists-fuel judgements: execute p; pop n; n <= 0 stop, else execute f and repeat; fewer than two values -> BibTeXError whatever they are. No termination claim',
    'C03_fuel_mono': 'a finished run (state or non-fuel error) is unchanged by more fuel, for all six mutually recursive functions; all semantics is fuel-indexed: termination / sufficiency of the fuel is NOT claimed',
    'C03_deterministic': 'two finished runs of the same code from the same state agree, whatever the fuel: the Eval judgements are "exists fuel with result ok", so conjuncts 1-5 are fuel monotonicity (C03_fuel_mono) restated for them; no termination claim',
    'C03_exec_literals': "[model wiring] pins the model's own equation (closed form; tie to interpreter.py: the correspondence check): literals push themselves, { } pushes the function, 'name pushes the variable (undefined -> BibTeXError), a name is executed (undefined -> BibTeXError); bodies run left to right",
    'C03_exec_variable': '[model wiring] pins the model\'s own equation (closed form; tie to interpreter.py: the correspondence check): executing a global variable pushes its value, an entry variable the value in the current entry frame (default 0 / ""), a field its value or a missing field, a function runs its body',
    'C03_iterate_order': 'for a state with Ready s (database present, every citation in it: what READ establishes, C03_ready) and f bound in the variable table: ITERATE {f} is the left fold (independent spec foldEntries) of "make the entry current; execute f; no entry is current" over the citation list in order',
    'C03_reverse_order': 'under the same two hypotheses (Ready s, f bound): REVERSE {f} is the same fold over the reversed citation list',
    'C03_ready': 'READ establishes "database present and every citation in it" (missing entries reported and dropped) without touching variables, entry variables or output; every command preserves it',
    'C03_execute': "[model wiring] pins the model's own equation (closed form; tie to interpreter.py: the correspondence check): EXECUTE {f} executes f once",
    'C03_execute_outside_entry': 'no entry is current outside ITERATE / REVERSE: a run starts without one and no command leaves one behind, so EXECUTE {f} runs f outside any entry, where cite$ / type$ / call.type$ / fields / crossref / reading or assigning an entry variable stop with a non-pybtex error - never with the data of some entry (follows the code with the proposed fix C03-1)',
    'C03_read_spec': "[model wiring] READ re-expressed through the model's own helpers (readerStart / readerResult = the model's readAll / parseLoop, convertDb, addExtraCitations, removeMissing; conjuncts 1-3 are rfl): reader starts with the MACRO table, no person fields, citations as wanted entries; nothing but db / citations / preamble / reports changes. The independent claim about READ is C03_read_order",
    'C03_read_order': 'READ linked to C05 / C14: the database after READ is well formed (DbWF, the hypothesis of the C05 / C14 theorems) whatever the reader delivered; the citation list (iteration order) is Spec.present of Spec.resolved (cited keys in order, * in database order, cross-referenced parents at the threshold, missing keys dropped); exactly the dangling cross-references and missing keys are reported; every listed key has a well-formed entry stored under it',
    'C03_exec_crossref': "[model wiring] pins the model's own equation (closed form; tie to interpreter.py: the correspondence check): executing crossref pushes the key of the cross-referenced entry as stored in the database, a missing-field value when the entry has no crossref field or the target is not in the database",
    'C03_trace': 'the trace of output calls: only write$ / newline$ append to it (each exactly its own event), a command other than EXECUTE / ITERATE / REVERSE touches neither trace nor lines nor buffer, and whatever is executed, the events it appends to the trace are what takes (lines, buffer) from the state before to the state after',
    'C03_strLt_spec': 'the string comparison is code-point lexicographic order, a strict total order (irreflexive, transitive, trichotomous)',
    'C03_sort': 'after SORT the citation list is a permutation of the old one, non-decreasing in sort.key$ (never assigned = ""), stable, nothing else changes; SORT succeeds when all assigned keys are strings',
    'C03_sort_unique': 'sortedness + stability determine the sorted list uniquely',
    'C03_scoping': 'any execution preserves the Frame: current entry, database, citations, macros, preamble; entry variables of every other entry; every name keeps its object (only values of global variables change); output only through write/newline events; reports / print-outs only appended',
    'C03_scoping_entry_store': 'an entry-variable assignment for entry k is read back for k and changes no other variable of k and no variable of another entry',
    'C03_scoping_only_assign': 'only := touches variables: every other built-in that does not execute code leaves the variable table and all entry variables unchanged; := on a global changes the binding of that name (up to case) only',
    'C03_scoping_iterate': 'a whole ITERATE/REVERSE round keeps database, citations, macros, preamble, persists variables and leaves entry variables of unlisted entries untouched',
    'C03_scoping_commands': 'every command: output only through events, reports only appended, database and citation list (up to order) kept except by READ; SORT/READ/MACRO do not touch the variable table; ITERATE/REVERSE/EXECUTE only change values of globals',
    'C03_declare_entry': 'ENTRY declares exactly its fields, crossref, its integer and its string entry variables (all other names unchanged, nothing else changes) when the names are fresh and distinct up to case; otherwise BibTeXError',
    'C03_declare_function': 'FUNCTION binds a fresh name to its body; redeclaring any name is a BibTeXError',
    'C03_declare_globals': 'INTEGERS / STRINGS bind each listed name to a fresh global 0 / "" (overwriting an existing binding, as the pinned code does); all other names unchanged',
    'C03_declare_macro': 'MACRO defines the macro (pins the model: dset on the macro table) and changes nothing else; last definition wins (get/set laws of the table)',
    'C03_output': 'for a run that ends ok within the given fuel: the .bbl text is the concatenation of the emitted lines = render (independent fold) of the trace of the run, i.e. of the write$ / newline$ calls executed, in order: each newline$ contributes wrap(text written since the previous newline$) + "\\n", text after the last newline$ is discarded; the trace is a ghost component the model writes itself (tied to lines / buffer by C03_trace)',
    'C03_output_render': 'facts about the SPEC functions render / emit alone (unfolding of the event semantics): write accumulates, newline emits wrap(pending) + "\\n", events extend the emitted text',
    'C03_output_only_write_newline': 'no built-in other than write$ / newline$ (and the three that execute code) touches the emitted lines or the buffer',
    'C03_straight_line_fuel': 'fuel SUFFICES for straight-line code: for every state s and every function body whose elements are literals, function literals, quoted names, or names that are unbound or bound in s to anything but a FUNCTION and the built-ins if$ / while$ / call.type$ (hypothesis straight s.vars body), the run finishes (state or error other than out-of-fuel) within length + 3 units of fuel and every larger amount of fuel gives the very same result; no claim for bodies that call functions, if$, while$ or call.type$',
    'C03_sort_only': '[model wiring] the function-level entry sortOnly (driver op bstsort, compared with Interpreter.command_sort) is the SORT command of the model on the state holding exactly the given citation list and sort.key$ entries, whatever the fuel and the run parameters - so C03_sort / C03_sort_unique speak about what that op computes',
    'C03_tables_match_source': '[table tie, by evaluation] the tables the model hard-codes against Gen/BstBuiltins.lean (regenerated every run): builtinTable has exactly the keys of pybtex.bibtex.builtins.builtins; initVars holds besides them exactly global.max$ = 20000, entry.max$ = 250 (Integer) and sort.key$ (EntryString); runCommand has a branch for every command_* method of Interpreter (an unknown name, tested on the one sample "NOSUCH", reaches the unknown-command error - no \'only these\' claim); every command the .bst parser accepts (BstParser.COMMANDS) is one of the methods, so the Unknown-command branch of Interpreter.run is unreachable from a parsed file',
    'C03_loop_free_terminates': 'TERMINATION of loop-free style code within an explicit fuel bound: for every depth d, body and state s with loopFree d s body (a Boolean computed from the body text, the FUNCTION bodies in the variable table of s and the entry types of the database of s: no while$ reachable; every called FUNCTION body loop-free at depth d-1 - so the reachable call graph is acyclic -; every reachable if$ directly preceded by two pushes (literal / function literal / quoted name) whose function literal or quoted FUNCTION is loop-free at depth d-1; call.type$ only if every entry type of the database and default.type is unbound, bound to an object that runs no code, or to a FUNCTION loop-free at depth d-1) the run of the body from s finishes (state or error other than out-of-fuel) with fuelBound d s body units of fuel and with every larger amount, with the very same result; fuelBound is computed from the same data (1 + maximum over the elements; not sharp: 30 where 20 are needed in the example); NOT covered: while$, if$ applied to values that were not pushed by the two preceding elements (duplicate$ / swap$ in between); no claim that the depth d exists for a given style (the shipped styles use while$); nothing about pybtex itself beyond the model correspondence (Python recursion has no fuel, it hits the recursion limit)',
    'C03_loop_free_terminates_neg': 'the restriction on if$ cannot be dropped: the program {X} X with X = duplicate$ #1 swap$ duplicate$ if$ mentions only the built-ins duplicate$, swap$, if$ (no while$, no call.type$, no FUNCTION: empty call graph), yet from the initial state it is out of fuel with EVERY amount of fuel (proved for all n, induction on the fuel), and loopFree rejects it at every depth; so "no while$ reachable + acyclic call graph" alone does not give termination',
    'C03_loop_free_execute': 'corollary for the command EXECUTE {t} (hypotheses: upper-cased command name is EXECUTE, the argument group starts with t, loopFree d s [t]): runCommand finishes with every fuel >= fuelBound d s [t] and the result does not depend on that fuel; no claim for whole programs (runProgram)',
    'C03_loop_free_iterate': 'corollary for the commands ITERATE {f} / REVERSE {f} (hypotheses: upper-cased command name is ITERATE or REVERSE, the argument group starts with a token naming f, f is bound in the state, loopFree d s [f]; f may be call.type$): runCommand finishes with every fuel >= fuelBound d s [f] whatever the number of entries (the fuel of the model is per entry) and the result does not depend on that fuel; no claim for whole programs (runProgram), where FUNCTION / READ change the table and the database the predicate is computed from',
    'C03_apply_named': '[model wiring] the function-level entry applyNamed (driver op bstbuiltin, compared with vars[name].execute(interpreter)) is execTok of the name with one more unit of fuel, for a bound name',
}
RULE = ('well-typed straight-line programs: every sequence of up to the tier length of typed units (literals from the operand pool, '
        'fields incl. a missing one, every built-in with its operand shapes, global and entry variables) that type-checks from the empty '
        'stack, executed per entry by ITERATE and followed by a typed dump of the stack; seeded random structured programs (nested function '
        'literals, if$, counter-bounded while$, SORT / REVERSE, MACRO, call.type$); ill-typed programs: every built-in on every stack of '
        'depth 0..3 over one operand of each kind (integers 0/1/2, string, missing field, quoted variable, function literal) and of depth '
        '1..2 over every kind of variable object, followed by stack$ newline$ (engine and semantics must agree on ok + same output / '
        'BibTeXError / non-pybtex exception); the golden (bib, bst) pairs of tests/data as corpus; '
        'second pool (every well-typed sequence of up to two units that uses it): change.case$ modes in either letter case and longer than '
        'one character, names of fields / variables / built-ins in other letter cases, white space other than the blank (tab, FF, FS, NEL, '
        'NBSP, EM SPACE, IDEOGRAPHIC SPACE), int.to.chr$ / chr.to.int$ at the edges of their ranges (0, 127, 255, 0xD7FF, 0xE000, 0xFFFF, '
        '0x10FFFF, a non-BMP character), < and > on strings, lines longer than 79 characters, over two .bib files with style macros, @string, '
        '# concatenation and two @preamble; systematic families: error outcomes of change.case$ / int.to.chr$ / chr.to.int$ (incl. surrogate '
        'code points, declared unmodelled), declaration errors of ENTRY / FUNCTION and INTEGERS / STRINGS over existing names (also names '
        'differing in case only), MACRO redefinition / case variants / shadowing by @string, EXECUTE with effects before and after ITERATE / '
        'REVERSE / SORT, probes that EXECUTE runs outside any entry, while$ whose predicate leaves negative integers, SORT on keys that differ '
        'in letter case only / are equal / empty / never assigned, command names in other '
        'letter cases, a database delivered by another reader (bib_format=YAML) with person fields; '
        'family width: "<s>" width$ for strings with ordinary groups that contain backslashes, special characters of every shape (also the 13 foreign '
        'characters), unclosed groups and stray braces, in contexts, pairs and random strings over {a M blank { } \\ {\\ \' . 1 - ~ ...}; '
        'family unmatched-brace: text.prefix$ (every count), text.length$, purify$, change.case$, width$, substring$ on operands with unmatched closing '
        'braces at brace level 0 in front of groups / special characters, and the chain substring$ -> text.prefix$ that cuts a group in two; '
        'FUNCTION LEVEL (ops bstbuiltin / bstsort, props/c03_fn.py): every built-in executed as builtins[name] on a Python stack (strings with double '
        'quotes, line feeds, %, all kinds of white space, non-ASCII letters / marks / non-BMP characters - ASCII only for purify$ / change.case$ / '
        'format.name$), variable objects and function values, with and without a current entry; := on every kind of variable; if$ / while$ on '
        'function values and quoted names; command_sort alone on keys with any code points; '
        'non-trivial = program with at least one built-in; distinct by program text')
TRUSTED = ['a value pushed by \'name is modelled as a reference by name (differs from the code only when a variable is re-declared while '
           'such a reference is on the stack; never generated)',
           'what top$ / stack$ print for a function or variable object (its Python repr, which may contain a memory address) is abstracted '
           'to the tag <object> on both sides of the comparison',
           'the .bst text is parsed by the C15 model, the .bib text by the C01 model with person_fields=[] and the MACRO table',
           'family alt-reader: what the YAML reader delivers (entries in file order with their Person objects, preamble) is an input of the '
           'semantics (read off the real reader), as for C06',
           'the oracle clause width_as_bibtex compares width$ with bibtex_x_width, a statement-by-statement transliteration of bibtex.web\'s x_width in '
           'the harness (over pybtex\'s width table; the five ligature widths 500 / 722 / 778 / 903 / 1014 as in bibtex.web), independent of pybtex\'s scanner and of '
           'the Lean model; a difference that lies only in what the text of a special character adds is the recorded finding C03-width-special-char-contents',
           'the oracle clause prefix_as_bibtex compares text.prefix$ with bibtex_x_text_prefix (props/c03_fn.py), a statement-by-statement transliteration of '
           'bibtex.web\'s x_text_prefix, independent of pybtex\'s scanner and of the Lean model; not judged where the prefix ends in a special character the '
           'string does not close (pybtex closes it with one brace whatever its inner nesting: C12_prefix_is_prefix) and for counts <= 0',
           'the clauses builtins_documented / sort_documented (props/c03_fn.py) compute the documented result of the built-ins that need no TeX knowledge '
           '(+ - < > = * duplicate$ swap$ pop$ skip$ quote$ missing$ empty$ int.to.str$ chr.to.int$ int.to.chr$ add.period$ cite$) and of SORT in Python, '
           'independently of pybtex and of the Lean model',
           'function level (op bstbuiltin): the harness builds the interpreter state by hand (Interpreter(None, "utf-8"), declarations through Interpreter.run, '
           'a one-entry BibliographyData, current_entry_key / current_entry / current_entry_vars as _iterate sets them, i.stack) - that this is the state '
           'the built-ins meet inside a run is what the end-to-end op bstrun checks; Entry.type is read back from the real Entry',
           'St.trace (the list of write$ / newline$ calls executed) is a ghost component of the model state: nothing in the model reads it, '
           'the driver does not print it; it is the vocabulary of C03_output / C03_trace']
ASSUMPTIONS = ['the output is pinned for well-typed programs (Python raises TypeError/AttributeError where BibTeX prints a message); on ill-typed '
               'operands the model follows the pinned Python code: same error class, and the same ordinary result where Python has one',
               'while$ loops are counter bounded; no non-ASCII letters where letter case or purification is involved (purify$, change.case$, '
               'format.name$: the model uses the ASCII character classes there; C12 has the Unicode-generic primitives); at function level non-ASCII '
               'strings reach every other built-in, width$ (whole width table regenerated) included',
               'int.to.chr$ of a surrogate code point (0xD800-0xDFFF) is outside the model (a Lean Char cannot hold a lone surrogate): the '
               'model stops with an internal error marked unmodelled: (C03_builtin_int_to_chr) and the check compares the class UNMODELLED only',
               'a program has at most one READ (format_from_strings closes its StringIO inputs: a second READ raises ValueError there, the '
               'model reads again)',
               'the model follows /repo WITH the proposed fix C03-2 (proposed_fixes/C03-2.diff): width$ takes a backslash for the text of a special '
               'character only directly behind the brace that opens the group; on a tree without it the clause width_as_bibtex reports "{x\\y}" width$',
               'the model follows /repo WITH the proposed fix C03-1 (proposed_fixes/C03-1.diff): no entry is current outside ITERATE / '
               'REVERSE; on a tree without it the clause execute_outside_entry reports the EXECUTE-after-ITERATE defect']

BIB = '''@article{Knuth84, author = {Donald E. Knuth and Leslie Lamport}, title = {The {\\TeX}book: a Guide}, year = 1984, note = "x."}
@book{lamport:86, author = "Lamport, Leslie", title = "{\\'E}tude in {L}a{T}e{X}", year = {1986}, crossref = {parent}}
@misc{parent, title = {Parent Title}, note = {inherited note}, booktitle = {B}}
@misc{unused, title = {U}}
'''
CITES = ['Knuth84', 'lamport:86']
FUEL = 200000

INTS = [-2, -1, 0, 1, 2, 7]
STRS = ['', 'a', 'ab{c}d', "{\\'e}x", 'A b: C', 'x.', 'Smith, John and Doe, Jane', '  ', '}', 'q?}}']

I, S, F = 'I', 'S', 'F'
# unit = (source text, types popped (top last), types pushed)
UNITS = []
for n in INTS:
    UNITS.append(('#%d' % n, [], [I]))
for s in STRS:
    UNITS.append(('"%s"' % s, [], [S]))
for f in ('title', 'note', 'author', 'booktitle', 'cite$', 'type$', 'quote$', 'preamble$', 'crossref'):
    UNITS.append((f, [], [S]))
for op in ('+', '-', '>', '<', '='):
    UNITS.append((op, [I, I], [I]))
UNITS += [('*', [S, S], [S]), ('=', [S, S], [I]),
          ('text.length$', [S], [I]), ('width$', [S], [I]), ('num.names$', [S], [I]), ('empty$', [S], [I]), ('missing$', [S], [I]),
          ('purify$', [S], [S]), ('add.period$', [S], [S]),
          ('int.to.str$', [I], [S]),
          ('substring$', [S, I, I], [S]), ('text.prefix$', [S, I], [S]),
          ('"l" change.case$', [S], [S]), ('"u" change.case$', [S], [S]), ('"t" change.case$', [S], [S]),
          ('#1 "{ff~}{vv~}{ll}{, jj}" format.name$', [S], [S]), ('#2 "{f.~}{ll}" format.name$', [S], [S]),
          ('"a" chr.to.int$', [], [I]), ('#65 int.to.chr$', [], [S]),
          ('duplicate$', [S], [S, S]), ('duplicate$', [I], [I, I]), ('pop$', [S], []), ('pop$', [I], []),
          ('swap$', [S, I], [I, S]), ('swap$', [I, S], [S, I]), ('swap$', [S, S], [S, S]), ('swap$', [I, I], [I, I]),
          ('skip$', [], []),
          ("'gi :=", [I], []), ('gi', [], [I]), ("'gs :=", [S], []), ('gs', [], [S]),
          ("'count :=", [I], []), ('count', [], [I]), ("'label :=", [S], []), ('label', [], [S]),
          ('{ "yes" } { "no" } if$', [I], [S]), ("{ #1 pop$ } 'skip$ if$", [I], []),
          ('warning$', [S], []), ('top$', [S], []), ('top$', [I], []), ('write$', [S], []), ('newline$', [], []),
          ('entry.max$', [], [I]), ('global.max$', [], [I])]

HEADER = ('ENTRY { title author year note booktitle } { count } { label }\n'
          'INTEGERS { gi gj }\nSTRINGS { gs gt }\n')


def dump_code(types):
    out = []
    for t in reversed(types):
        out.append('int.to.str$ write$ newline$' if t == I else '"[" swap$ * "]" * write$ newline$')
    return ' '.join(out)


def make_program(body, types, sort=False):
    src = HEADER + 'FUNCTION {main} { %s %s }\nREAD\n' % (body, dump_code(types))
    src += 'ITERATE {main}\n'
    return src


def typed_sequences(maxlen):
    def rec(prefix, stack, depth):
        yield prefix, stack
        if depth == maxlen:
            return
        for u in UNITS:
            pops = u[1]
            if len(stack) >= len(pops) and (not pops or stack[-len(pops):] == pops):
                yield from rec(prefix + [u[0]], stack[:len(stack) - len(pops)] + u[2], depth + 1)
    yield from rec([], [], 0)


_TMP = {}


def _tmpdir():
    d = _TMP.get(os.getpid())
    if d is None:
        d = tempfile.mkdtemp(prefix='verif-c03-')
        _TMP[os.getpid()] = d
        import atexit
        atexit.register(shutil.rmtree, d, True)
    return d


def canon_report(e):
    cls = type(e).__name__
    msg = e.args[0] if e.args else ''
    if isinstance(msg, int):
        msg = str(msg)          # warning$ on an integer: BibTeXError(n), printed as str(n)
    elif not isinstance(msg, str):
        msg = OBJECT_TAG        # an object: its repr may contain a memory address
    if cls == 'InvalidNameString':
        import ast
        try:
            msg = ast.literal_eval(msg[len('Too many commas in '):])
        except Exception:
            pass
    return [cls, msg]


OBJECT_TAG = '<object>'
_OBJ_REPR = ('Function(', 'Integer(', 'String(', 'EntryInteger(', 'EntryString(', '<pybtex.bibtex.interpreter.', '<builtin ')


def errclass_view(case, io):
    """View of an engine result for the ill-typed family: the print-out of a function / variable object (Python repr, may contain a
    memory address) becomes the tag the model prints; where the table UNMODELLED says that Python computes the repr of an object
    (or defers the failure to the next newline$) every outcome but a BibTeXError is the class UNMODELLED."""
    if case.get('unmodelled'):
        if 'error' in io and io['error'][0] not in ('INTERNAL',):
            return io
        return {'error': ['UNMODELLED']}
    if 'error' in io:
        return {'error': io['error']}
    io = dict(io)
    io['printed'] = [OBJECT_TAG if l.startswith(_OBJ_REPR) else l for l in io['printed']]
    return io


def impl(case):
    if case['op'] != 'bstrun':
        from props import c03_fn
        return c03_fn.impl(case)
    io = impl_raw(case)
    if case.get('errclass'):
        return errclass_view(case, io)
    return io


def impl_raw(case):
    import pybtex.io
    from pybtex import errors
    from pybtex.bibtex import format_from_strings
    from pybtex.exceptions import PybtexError
    d = _tmpdir()
    path = os.path.join(d, 'style%d' % (abs(hash(case['bst'])) % 100000))
    with open(path + '.bst', 'w', encoding='utf-8', newline='') as f:
        f.write(case['bst'])
    old_out = pybtex.io.stdout
    buf = _io.StringIO()
    pybtex.io.stdout = buf
    import signal

    class _Timeout(BaseException):
        pass

    def _alarm(*a):
        raise _Timeout()
    old_handler = signal.signal(signal.SIGALRM, _alarm)
    signal.alarm(case.get('timeout', 60))
    try:
        kw = {}
        if case.get('bib_format') == 'yaml':
            from pybtex.database.input.bibyaml import Parser as YamlParser
            kw['bib_format'] = YamlParser
        with errors.capture() as captured:
            bbl = format_from_strings(case['bibs'], style=path, citations=list(case['citations']), min_crossrefs=case['min_crossrefs'], **kw)
        printed = buf.getvalue().split('\n')
        if printed and printed[-1] == '':
            printed.pop()
        return {'bbl': bbl, 'reports': [canon_report(e) for e in captured], 'printed': printed}
    except PybtexError as e:
        cls = type(e).__name__
        if cls in ('PybtexSyntaxError', 'TokenRequired', 'PrematureEOF') and getattr(e, 'parser', None) is not None and type(e.parser).__name__ == 'BstParser':
            return {'error': ['BST-SYNTAX']}
        return {'error': [cls]}
    except (RecursionError, _Timeout):
        return {'error': ['OUT-OF-FUEL']}
    except Exception as e:  # noqa
        return {'error': ['INTERNAL'], 'detail': '%s: %s' % (type(e).__name__, e)}
    finally:
        signal.alarm(0)
        signal.signal(signal.SIGALRM, old_handler)
        pybtex.io.stdout = old_out
        try:
            os.unlink(path + '.bst')
        except OSError:
            pass


def to_request(case):  # noqa: F811
    if case['op'] != 'bstrun':
        from props import c03_fn
        return c03_fn.to_request(case)
    req = {'op': 'bstrun', 'bst': case['bst'], 'bibs': case['bibs'], 'citations': case['citations'],
           'min_crossrefs': case['min_crossrefs'], 'fuel': case.get('fuel', FUEL)}
    if case.get('bib_format') == 'yaml':
        # another reader (bib_format=): what it delivers (entries in file order with their persons, preamble) is an input of the semantics
        from pybtex import errors
        from pybtex.database import parse_string
        from props.c01 import canon_db
        with errors.capture():
            ydb = parse_string(case['bibs'][0], 'yaml')
        entries, preamble = canon_db(ydb)
        req['alt'] = {'entries': entries, 'preamble': preamble}
    return req


def model_out(case, reply):
    if case['op'] != 'bstrun':
        from props import c03_fn
        return c03_fn.model_out(case, reply)
    o = reply['out']
    if 'error' in o:
        if case.get('errclass') and o['error'][0] == 'INTERNAL' and o['error'][1].startswith('unmodelled:'):
            return {'error': ['UNMODELLED']}
        return {'error': [o['error'][0]]}
    return o


def compare_view(io):
    if 'error' in io:
        return {'error': io['error']}
    return io


def execute_scope_clause(case, io):
    """From the property text: fields, cite$ / type$ / call.type$ and the per-entry variables exist per entry, ITERATE / REVERSE execute
    their function once for each entry, EXECUTE executes its function once -- outside any entry.  So an EXECUTE must never show data
    of an entry or change a per-entry variable (family execute-scope: the probe prints between the markers <| |> / assigns; the
    following ITERATE {show} prints key:count:label:sort.key$ of every entry)."""
    if 'scope_probe' not in case or 'error' in io:
        return []
    bbl = io.get('bbl', '')
    if case['scope_probe'] == 'read':
        if '<|' in bbl:
            line = [l for l in bbl.split('\n') if '<|' in l][0]
            return ['execute_outside_entry: EXECUTE {probe} ran with an entry current (no entry is current outside ITERATE / REVERSE): it printed %r; '
                    'program=%r' % (line, case['bst'][-330:])]
        return []
    for line in bbl.split('\n'):
        if not line:
            continue
        key, rest = line.rsplit(':', 3)[0], line.rsplit(':', 3)[1:]
        want = ['1', key.lower(), ''] if case.get('visited') else ['0', '', '']
        if rest != want:
            return ['execute_outside_entry: EXECUTE {probe} changed a per-entry variable of entry %r (count:label:sort.key$ = %r, the ITERATE passes '
                    'left %r); program=%r' % (key, ':'.join(rest), ':'.join(want), case['bst'][-330:])]
    return []


# ----------------------------------------------------------------------------------------------
# width$ "as documented": x_width of bibtex.web (the built-in width$; module "Add up the char_widths in this string" with
# "Determine the width of this special character" and "... of this accented or foreign character"), transliterated statement by
# statement.  Independent of pybtex's scanner (scan_bibtex_string) and of the Lean model.  "This function takes the literal
# literally; that is, it assumes each character in the string is to be printed as is, regardless of whether the character has a
# special meaning to TeX, except that special characters (even without their right braces) are handled specially."  A special
# character is a left brace at brace level 0 that is immediately followed by a backslash - nothing else.  Inside it braces, control
# sequences and the white space behind a control sequence have no width, the 13 accented / foreign characters have the width of
# their first letter resp. of the ligature.  The width table is pybtex's (a parameter; bibtex.web has cmr10's).
SS_WIDTH, AE_WIDTH, OE_WIDTH, UPPER_AE_WIDTH, UPPER_OE_WIDTH = 500, 722, 778, 903, 1014
WIDTH_FOREIGN = ('i', 'j', 'oe', 'OE', 'ae', 'AE', 'aa', 'AA', 'o', 'O', 'l', 'L', 'ss')
WIDTH_LIGATURE = {'ss': SS_WIDTH, 'ae': AE_WIDTH, 'oe': OE_WIDTH, 'AE': UPPER_AE_WIDTH, 'OE': UPPER_OE_WIDTH}


def _lex_alpha(c):
    return 'a' <= c <= 'z' or 'A' <= c <= 'Z'


def _char_width(c):
    from pybtex.charwidths import charwidths
    return charwidths.get(c, 0)


def bibtex_x_width(s, pybtex_special_contents=False):
    """x_width.  pybtex_special_contents=True: the same pass, but a special character contributes what pybtex documents for it
    (bibtex_width doctests): every character of its text behind the backslash and the character after it, braces excepted."""
    n = len(s)
    width = 0
    level = 0                                                   # brace_level
    i = 0                                                       # ex_buf_ptr
    while i < n:
        if s[i] == '{':
            level += 1
            if level == 1 and i + 1 < n and s[i + 1] == '\\':   # a special character
                if pybtex_special_contents:
                    j = i + 1
                    while j < n and level > 0:
                        if s[j] == '{':
                            level += 1
                        elif s[j] == '}':
                            level -= 1
                        j += 1
                    body = s[i + 1:j - 1] if level == 0 else s[i + 1:j]
                    width += sum(_char_width(c) for c in body[2:] if c not in '{}')
                    level = 0
                    i = j - 1                                   # (unskip: the main loop steps over the last character)
                else:
                    i += 1                                      # skip over the left brace
                    while i < n and level > 0:
                        i += 1                                  # skip over the backslash
                        x = i
                        while i < n and _lex_alpha(s[i]):
                            i += 1                              # this scans the control sequence
                        if i < n and i == x:
                            i += 1                              # this skips a nonalpha control sequence
                        else:
                            cs = s[x:i]
                            if cs in WIDTH_FOREIGN:             # the width of this accented or foreign character
                                width += WIDTH_LIGATURE[cs] if cs in WIDTH_LIGATURE else _char_width(s[x])
                        while i < n and s[i] in ' \t':
                            i += 1                              # this skips following white space
                        while i < n and level > 0 and s[i] != '\\':
                            if s[i] == '}':
                                level -= 1
                            elif s[i] == '{':
                                level += 1
                            else:
                                width += _char_width(s[i])
                            i += 1
                    i -= 1                                      # unskip the right brace
            else:
                width += _char_width('{')
        elif s[i] == '}':
            if level > 0:                                       # decr_brace_level (a complaint at level 0, the width is added all the same)
                level -= 1
            width += _char_width('}')
        else:
            width += _char_width(s[i])
        i += 1
    return width


def width_clause(case, io):
    """family width: the program prints `"<s>" width$` for the string case['width_of']; the number printed has to be x_width(s).
    A difference that lies only in what the TEXT of a special character contributes (pybtex: every character behind the backslash and
    the character after it; BibTeX: control sequences and the white space behind them nothing, the 13 foreign characters their own
    width) is the recorded finding C03-width-special-char-contents and is tagged as such."""
    if 'width_of' not in case or 'error' in io:
        return []
    s = case['width_of']
    line = io.get('bbl', '').split('\n')[0]
    try:
        got = int(line)
    except ValueError:
        return ['width_as_bibtex: "%s" width$ printed %r, not an integer' % (s, line)]
    want = bibtex_x_width(s)
    if got == want:
        return []
    if got == bibtex_x_width(s, pybtex_special_contents=True):
        return ['width_as_bibtex: "%s" width$ = %d, BibTeX\'s x_width gives %d [special character contents]' % (s, got, want)]
    return ['width_as_bibtex: "%s" width$ = %d, BibTeX\'s x_width gives %d (every character outside a special character - a left '
            'brace at brace level 0 directly followed by a backslash - counts with its own width, braces and backslashes included)' % (s, got, want)]


KNOWN_MATCHERS = {
    'C03-width-special-char-contents': lambda case, io, f: (
        f.startswith('width_as_bibtex:') and f.endswith('[special character contents]') and 'width_of' in case and 'error' not in io
        and io.get('bbl', '').split('\n')[0] == str(bibtex_x_width(case['width_of'], pybtex_special_contents=True))),
}


def oracle(case, io, reply):
    """C03 pins the output: for a well-typed program of the generated family the engine must produce what the semantics
    (the Lean model, tied to the documented built-ins by the C03 theorems) defines."""
    if case['op'] != 'bstrun':
        from props import c03_fn
        return c03_fn.oracle(case, io, reply)
    fails = execute_scope_clause(case, io) + width_clause(case, io) + prefix_clause(case, io)
    mo = model_out(case, reply)
    if ('error' in io and io['error'][0] == 'OUT-OF-FUEL') or ('error' in mo and mo['error'][0] == 'OUT-OF-FUEL'):
        return fails
    if case.get('errclass'):
        # ill-typed family: engine and semantics must agree on the class (ok + same output / BibTeXError / INTERNAL / UNMODELLED)
        if compare_view(io) != mo:
            fails.append('illtyped_class: engine %r, semantics %r; program=%r' % (
                {k: io.get(k) for k in ('error', 'detail', 'printed', 'bbl', 'reports') if k in io}, mo, case['bst'][-200:]))
        return fails
    if 'error' in io and io['error'][0] == 'INTERNAL' and case.get('welltyped', True):
        fails.append('builtins_documented: a well-typed program raised a non-pybtex exception: %s; program=%r' % (io.get('detail'), case['bst'][-300:]))
    elif case.get('welltyped', True) and 'error' not in mo and compare_view(io) != mo:
        keys = [k for k in ('bbl', 'reports', 'printed', 'error') if io.get(k) != mo.get(k)]
        fails.append('output_defined: %s differ from the BST semantics: engine %r, semantics %r; program=%r' % (
            keys, {k: io.get(k) for k in keys}, {k: mo.get(k) for k in keys}, case['bst'][-400:]))
    return fails


def buckets(case, io):
    b = ['error:' + io['error'][0]] if 'error' in io else ['ok']
    b.append(case.get('family', '?'))
    return b


def nontrivial(case, io):
    if case['op'] != 'bstrun':
        return True
    return '$' in case['bst'].split('READ')[0].split('FUNCTION', 1)[-1] or ':=' in case['bst']


def valid_case(case):
    return False     # programs are not shrunk by the generic JSON shrinker (it would break well-typedness)


def corpus():
    out = list(corpus_for(ID))
    data = os.path.join(compat.REPO, 'tests', 'data')
    pairs = [('xampl.bib', 'unsrt'), ('xampl.bib', 'plain'), ('xampl.bib', 'alpha'), ('xampl.bib', 'abbrv'),
             ('cyrillic.bib', 'unsrt'), ('xampl_mixed.bib', 'unsrt')]   # cyrillic/alpha sorts on non-ASCII letters: outside the model
    for bib, bst in pairs:
        bp, sp = os.path.join(data, bib), os.path.join(data, bst + '.bst')
        if os.path.exists(bp) and os.path.exists(sp):
            with open(bp, encoding='utf-8') as f:
                bibtext = f.read()
            with open(sp, encoding='utf-8') as f:
                bsttext = f.read()
            out.append({'op': 'bstrun', 'bst': bsttext, 'bibs': [bibtext], 'citations': ['*'], 'min_crossrefs': 2, 'fuel': 50000000,
                        'family': 'golden:%s/%s' % (bib, bst), 'welltyped': True})
    return out


def mk(body, types, family):
    return {'op': 'bstrun', 'bst': make_program(body, types), 'bibs': [BIB], 'citations': CITES, 'min_crossrefs': 2,
            'family': family, 'welltyped': True}


def random_program(rng):
    """Structured programs: helper functions, if$/while$, entry and global variables, SORT/REVERSE, MACRO, call.type$."""
    lines = ['ENTRY { title author year note } { n } { lab }', 'INTEGERS { i j k }', 'STRINGS { s t }']
    if rng.random() < 0.5:
        lines.append('MACRO {jan} {"January"}')
        lines.append('MACRO {%s} {"%s"}' % (rng.choice(['foo', 'Bar', 'x.y']), rng.choice(['F', 'G g'])))

    def int_expr(d):
        r = rng.random()
        if d > 2 or r < 0.3:
            return rng.choice(['#%d' % rng.choice(INTS), 'i', 'n', 'title text.length$', 'author num.names$', 'note empty$', 'note missing$'])
        if r < 0.6:
            return '%s %s %s' % (int_expr(d + 1), int_expr(d + 1), rng.choice(['+', '-', '>', '<', '=']))
        if r < 0.8:
            return '%s %s =' % (str_expr(d + 1), str_expr(d + 1))
        return '%s { %s } { %s } if$' % (int_expr(d + 1), int_expr(d + 1), int_expr(d + 1))

    def str_expr(d):
        r = rng.random()
        if d > 2 or r < 0.3:
            return rng.choice(['"%s"' % rng.choice(STRS), 's', 'lab', 'title', 'note', 'author', 'cite$', 'type$', 'year'])
        if r < 0.5:
            return '%s %s *' % (str_expr(d + 1), str_expr(d + 1))
        if r < 0.7:
            return '%s %s' % (str_expr(d + 1), rng.choice(['purify$', 'add.period$', '"l" change.case$', '"t" change.case$', '"u" change.case$',
                                                         '#1 "{vv~}{ll}{, f.}" format.name$']))
        if r < 0.8:
            return '%s %s %s substring$' % (str_expr(d + 1), int_expr(d + 1), int_expr(d + 1))
        if r < 0.9:
            return '%s int.to.str$' % int_expr(d + 1)
        return '%s { %s } { %s } if$' % (int_expr(d + 1), str_expr(d + 1), str_expr(d + 1))

    def stmt(d):
        r = rng.random()
        if r < 0.2:
            return "%s '%s :=" % (int_expr(1), rng.choice(['i', 'n']))   # never j: it is the while$ counter
        if r < 0.4:
            return "%s '%s :=" % (str_expr(1), rng.choice(['s', 't', 'lab']))
        if r < 0.6:
            return '%s write$ newline$' % str_expr(1)
        if r < 0.7 and d < 2:
            v = 'j' if d == 0 else 'k'
            return "#%d '%s := { %s #0 > } { %s %s #1 - '%s := } while$" % (rng.randint(0, 4), v, v, stmt(d + 1), v, v)
        if r < 0.8 and d < 2:
            return '%s { %s } { %s } if$' % (int_expr(1), stmt(d + 1), stmt(d + 1))
        if r < 0.85:
            return '%s warning$' % str_expr(1)
        if r < 0.9:
            return '%s top$' % rng.choice([int_expr(1), str_expr(1)])
        return 'helper'
    lines.append('FUNCTION {helper} { %s write$ newline$ }' % str_expr(1))
    lines.append('FUNCTION {article} { "ART " cite$ * write$ newline$ }')
    if rng.random() < 0.5:
        lines.append('FUNCTION {default.type} { "DEFAULT " type$ * write$ newline$ }')
    lines.append('FUNCTION {presort} { %s purify$ "l" change.case$ \'sort.key$ := }' % str_expr(1))
    lines.append('FUNCTION {main} { %s call.type$ }' % ' '.join(stmt(0) for _ in range(rng.randint(1, 4))))
    lines.append('READ')
    r = rng.random()
    if r < 0.6:
        lines.append('ITERATE {presort}')
        lines.append('SORT')
    elif r < 0.65:
        lines.append('SORT')     # sorting without any sort.key$ assignment: all keys empty, order unchanged
    lines.append(rng.choice(['ITERATE {main}', 'REVERSE {main}', 'ITERATE {main}\nREVERSE {main}']))
    if rng.random() < 0.3:
        lines.append('EXECUTE {skip$}')
    return '\n'.join(lines) + '\n'


# assignment / read units over every kind of variable (global int / string, entry int / string, sort.key$), with the default
# values 0 and "" in the pool: "assign a value, assign the default, read" needs five units
ASSIGN_UNITS = ([('#%d' % n, [], [I]) for n in (0, 3, -1)] + [('"%s"' % x, [], [S]) for x in ('', 'x')] +
                [("'gi :=", [I], []), ('gi', [], [I]), ("'gs :=", [S], []), ('gs', [], [S]),
                 ("'count :=", [I], []), ('count', [], [I]), ("'label :=", [S], []), ('label', [], [S]),
                 ("'sort.key$ :=", [S], []), ('sort.key$', [], [S])])


def assign_sequences(nassign):
    """Up to `nassign` assignments (every variable kind x every value of its type, defaults included) followed by one read."""
    ivars, svars = ['gi', 'count'], ['gs', 'label', 'sort.key$']
    assigns = (["#%d '%s :=" % (n, v) for v in ivars for n in (0, 3, -1)] + ['"%s" \'%s :=' % (x, v) for v in svars for x in ('', 'x')])
    import itertools
    for k in range(nassign + 1):
        for seq in itertools.product(assigns, repeat=k):
            for v in ivars + svars:
                yield list(seq) + [v], [I if v in ivars else S]


def multipass_program(rng):
    """Several ITERATE / REVERSE passes that set, selectively reset (to the default values too) and then show entry and global variables."""
    iv = lambda: '#%d' % rng.choice([0, 0, 3, -1, 7])   # noqa: E731
    sv = lambda: '"%s"' % rng.choice(['', '', 'x', 'Yz'])   # noqa: E731
    lines = ['ENTRY { title author year note } { n m } { lab tag }', 'INTEGERS { i }', 'STRINGS { s }']
    fns = []
    for k in range(rng.randint(2, 4)):
        body = []
        for _ in range(rng.randint(1, 4)):
            body.append(rng.choice(["%s 'n :=" % iv(), "%s 'm :=" % iv(), "%s 'lab :=" % sv(), "%s 'tag :=" % sv(), "%s 'i :=" % iv(), "%s 's :=" % sv(),
                                    "%s 'sort.key$ :=" % sv(), "n #1 + 'n :=", 'lab "+" * \'lab :=', "n 'm :=", "tag 'lab :="]))
        body = ' '.join(body)
        if rng.random() < 0.6:
            body = 'cite$ "%s" = { %s } \'skip$ if$' % (rng.choice(['Knuth84', 'lamport:86', 'parent', 'unused']), body)
        lines.append('FUNCTION {f%d} { %s }' % (k, body))
        fns.append('f%d' % k)
    lines.append('FUNCTION {show} { cite$ ":" * n int.to.str$ * ":" * m int.to.str$ * ":" * lab * ":" * tag * ":" * sort.key$ * ":" * i int.to.str$ * ":" * s * write$ newline$ }')
    lines.append('READ')
    for f in fns:
        lines.append('%s {%s}' % (rng.choice(['ITERATE', 'ITERATE', 'REVERSE']), f))
        if rng.random() < 0.3:
            lines.append('SORT')
    lines.append('ITERATE {show}')
    return '\n'.join(lines) + '\n'


# ---- ill-typed family: every built-in on every stack of depth 0..3 over one operand of each kind -----------------------------------
ALL_BUILTINS = ['>', '<', '=', '*', ':=', '+', '-', 'add.period$', 'call.type$', 'change.case$', 'chr.to.int$', 'cite$', 'duplicate$',
                'empty$', 'format.name$', 'if$', 'int.to.chr$', 'int.to.str$', 'missing$', 'newline$', 'num.names$', 'pop$', 'preamble$',
                'purify$', 'quote$', 'skip$', 'substring$', 'stack$', 'swap$', 'text.length$', 'text.prefix$', 'top$', 'type$', 'warning$',
                'while$', 'width$', 'write$']
# (source text, kind): integers 0 / 1 / 2 (0 is falsy in Python), a string that is also a valid change.case$ mode and format, a missing
# field, a quoted global variable, a function literal
ILL_POOL = [('#0', 'I'), ('#1', 'I'), ('#2', 'I'), ('"t"', 'S'), ('volume', 'M'), ("'gi", 'O'), ('{ skip$ }', 'O')]
# second pool (depth <= 2): every kind of variable object
ILL_POOL2 = [("'gi", 'O'), ("'gs", 'O'), ("'count", 'O'), ("'label", 'O'), ("'title", 'O'), ("'crossref", 'O'), ("'skip$", 'O'),
             ("'helper", 'O'), ('{ skip$ }', 'O'), ('{ #1 }', 'O'), ('#1', 'I'), ('"a"', 'S'), ('""', 'S')]
ILL_HEADER = ('ENTRY { title volume } { count } { label }\nINTEGERS { gi gj }\nSTRINGS { gs gt }\nFUNCTION {helper} { skip$ }\n')


def unmodelled(builtin, ops):
    """The cases where Python's ordinary result involves the repr of an object (or the failure is deferred): the model declares them
    `unmodelled` (LEVEL_NOTE).  ops: (source, kind) bottom to top."""
    k = [o[1] for o in ops]
    if builtin in ('int.to.str$', 'warning$'):
        return len(k) >= 1 and k[-1] == 'O'
    if builtin == 'write$':
        return len(k) >= 1 and k[-1] in ('I', 'O')
    if builtin == 'format.name$':
        return len(k) >= 3 and k[-2] == 'I' and ops[-2][0] == '#0' and k[-3] == 'O'
    return False


def illtyped_case(builtin, ops, family):
    src = ILL_HEADER + 'FUNCTION {main} { %s %s stack$ newline$ }\nREAD\nITERATE {main}\n' % (' '.join(o[0] for o in ops), builtin)
    c = {'op': 'bstrun', 'bst': src, 'bibs': [BIB], 'citations': ['Knuth84'], 'min_crossrefs': 2, 'family': family, 'errclass': True,
         'fuel': 20000, 'timeout': 20}
    if unmodelled(builtin, ops):
        c['unmodelled'] = True
    return c


def illtyped_cases():
    out = []
    for b in ALL_BUILTINS:
        for d in range(4):
            for ops in itertools.product(ILL_POOL, repeat=d):
                out.append(illtyped_case(b, ops, 'illtyped%d' % d))
        for d in (1, 2):
            for ops in itertools.product(ILL_POOL2, repeat=d):
                if b == 'while$' and d == 2 and ops[0][0] == '{ #1 }' and ops[1][1] == 'O':
                    continue        # { #1 } f while$ with an executable f does not terminate
                out.append(illtyped_case(b, ops, 'illtyped-objects%d' % d))
    return out


# ======================================================================================================================
# second wave (review f): regions of the input domain the first pools never reached
# ======================================================================================================================
LONG = ('This abstract is deliberately longer than seventy-nine characters so that newline$ has to wrap the line it emits, '
        'more than once, and a_very_long_unbreakable_word_that_is_itself_longer_than_the_line_width_of_seventy_nine_characters_ follows')
# two .bib files; field / type names in other letter cases than the style uses; macros from the style (MACRO) and from the file
# (@string) joined with '#', a file @string shadowing a style MACRO, a style MACRO shadowing a month; two @preamble commands; a
# repeated key in the second file; a blank and an empty field; a field longer than 79 characters
BIB2A = ('@preamble{"\\newcommand{\\noop}[1]{}" # " pre"}\n'
         '@string{pub = "Publisher " # "House"}\n'
         '@string{foo = "shadowed by the file"}\n'
         '@Article{Knuth84, Author = {Donald E. Knuth and Leslie Lamport}, TITLE = {The {\\TeX}book: a Guide}, year = 1984,\n'
         '  note = foo # " and " # bar # ", " # jan # " / " # BAZ # feb, Abstract = {' + LONG + '}}\n'
         '@book{lamport:86, author = "Lamport, Leslie", title = "{\\\'E}tude in {L}a{T}e{X}", year = {1986}, crossref = {parent},\n'
         '  note = {  }, publisher = pub, abstract = {}}\n')
BIB2B = ('@preamble{" second"}\n'
         '@misc{parent, title = {Parent Title}, note = {inherited note}, booktitle = {B}, abstract = pub # { again}, month = mar}\n'
         '@misc{Knuth84, title = {a repeated key in the second file}}\n'
         '@MISC{unused, title = {U}}\n')
MACROS2 = ('MACRO {bar} {"Bar"}\nMACRO {foo} {"from the style"}\nMACRO {jan} {"January"}\nMACRO {baz} {"first"}\nMACRO {baz} {"second"}\n'
           'MACRO {mar} {"March (style)"}\n')
HEADER2 = ('ENTRY { title author year note booktitle Abstract publisher month } { count } { label }\n'
           'INTEGERS { gi gj }\nSTRINGS { gs gt }\n' + MACROS2)

X = 'X'     # a string that may hold non-ASCII characters: consumed only where no letter case / width table / purification is involved
UNITS2 = (
    # white space other than the blank; control characters; code points at the edges of the ranges of chr()
    [('"\t"', [], [S]), ('" \t "', [], [S]), ('"a\tb"', [], [S]), ('"Ab Cd"', [], [S])] +
    [('#%d int.to.chr$' % n, [], [S]) for n in (0, 9, 12, 28, 32, 127)] +
    # (a line feed is typed X only because the harness splits what top$ prints at line feeds)
    [('#%d int.to.chr$' % n, [], [X]) for n in (10, 133, 160, 255, 8195, 12288, 55295, 57344, 65535, 1114111)] +
    [('"\U0001D538"', [], [X]), ('" "', [], [X]), ('"  \t"', [], [X]), ('""', [], [X]), ('"ab"', [], [X])] +
    [('empty$', [X], [I]), ('missing$', [X], [I]), ('duplicate$', [X], [X, X]), ('pop$', [X], []), ('*', [X, X], [X]),
     ('=', [X, X], [I]), ('<', [X, X], [I]), ('>', [X, X], [I]), ('text.length$', [X], [I]), ('#1 #1 substring$', [X], [X]),
     ('swap$', [X, X], [X, X])] +
    # < and > on strings
    [('<', [S, S], [I]), ('>', [S, S], [I])] +
    # change.case$ modes: only the first character counts, in either case
    [('"%s" change.case$' % m, [S], [S]) for m in ('T', 'L', 'U', 'title', 'Lower', 'UPPER', 'tx', 'Ux')] +
    # names are case-insensitive: fields, global / entry variables, built-ins
    [('TITLE', [], [S]), ('Title', [], [S]), ('abstract', [], [S]), ('ABSTRACT', [], [S]), ('publisher', [], [S]), ('month', [], [S]),
     ('abstract " " * abstract *', [], [S]), ('title " -- " * abstract *', [], [S]),
     ("'GI :=", [I], []), ('Gi', [], [I]), ('GI', [], [I]), ("'Gs :=", [S], []), ('GS', [], [S]),
     ("'Count :=", [I], []), ('COUNT', [], [I]), ("'LABEL :=", [S], []), ('Label', [], [S]),
     ("'SORT.KEY$ :=", [S], []), ('Sort.Key$', [], [S]), ('Crossref', [], [S]), ('CITE$', [], [S]), ('Type$', [], [S]),
     ('PREAMBLE$', [], [S]), ('Quote$', [], [S]), ('GLOBAL.MAX$', [], [I]), ('Entry.Max$', [], [I]),
     ('Int.To.Str$', [I], [S]), ('DUPLICATE$', [S], [S, S]), ('Swap$', [S, S], [S, S]), ('POP$', [I], []), ('EMPTY$', [S], [I]),
     ('MISSING$', [S], [I]), ('Text.Length$', [S], [I]), ('PURIFY$', [S], [S]), ('Add.Period$', [S], [S]), ('WIDTH$', [S], [I]),
     ('#2 #3 SUBSTRING$', [S], [S]), ('#3 TEXT.PREFIX$', [S], [S]), ('NUM.NAMES$', [S], [I]), ('#1 "{ll}" FORMAT.NAME$', [S], [S]),
     ('"l" CHANGE.CASE$', [S], [S]), ('{ "yes" } { "no" } IF$', [I], [S]), ("'Skip$ 'SKIP$ If$", [I], []), ('WRITE$', [S], []),
     ('NewLine$', [], []), ('WARNING$', [S], []), ('TOP$', [S], []), ('SKIP$', [], []), ('"a" CHR.TO.INT$', [], [I]),
     ('#66 INT.TO.CHR$', [], [S]), ('#1 #2 + #3 -', [], [I]), ('"a" "b" *', [], [S])])
# chr.to.int$ on every string of the pool that has exactly one character
UNITS2 += [(u[0] + ' chr.to.int$', [], [I]) for u in UNITS2 if u[1] == [] and u[2] in ([S], [X]) and
           (u[0].endswith('int.to.chr$') or u[0] in ('"\U0001D538"', '" "', '"\t"'))]


def dump_code2(types):
    return ' '.join('int.to.str$ write$ newline$' if t == I else '"[" swap$ * "]" * write$ newline$' for t in reversed(types))


def mk2(body, types, family, cites=None):
    src = HEADER2 + 'FUNCTION {main} { %s %s }\nREAD\nITERATE {main}\n' % (body, dump_code2(types))
    return {'op': 'bstrun', 'bst': src, 'bibs': [BIB2A, BIB2B], 'citations': CITES if cites is None else cites, 'min_crossrefs': 2, 'family': family,
            'welltyped': True}


def pool2_sequences(maxlen=2):
    """All well-typed sequences of at most `maxlen` units over the first and the second pool that use the second pool."""
    second = set(id(u) for u in UNITS2)
    allu = UNITS + UNITS2

    def rec(prefix, stack, depth, used):
        if used:
            yield prefix, stack
        if depth == maxlen:
            return
        for u in allu:
            pops = u[1]
            if len(stack) >= len(pops) and (not pops or stack[-len(pops):] == pops):
                yield from rec(prefix + [u[0]], stack[:len(stack) - len(pops)] + u[2], depth + 1, used or id(u) in second)
    yield from rec([], [], 0, False)


def full_program(lines, family, bibs=None, cites=None, errclass=False, unmodelled_=False, mc=2, **kw):
    c = {'op': 'bstrun', 'bst': '\n'.join(lines) + '\n', 'bibs': bibs if bibs is not None else [BIB2A, BIB2B],
         'citations': CITES if cites is None else cites, 'min_crossrefs': mc, 'family': family}
    if errclass:
        c.update({'errclass': True, 'fuel': 20000, 'timeout': 20})
        if unmodelled_:
            c['unmodelled'] = True
    else:
        c['welltyped'] = True
    c.update(kw)
    return c


SHOW = 'FUNCTION {show} { cite$ ":" * count int.to.str$ * ":" * label * ":" * sort.key$ * ":" * gi int.to.str$ * ":" * gs * write$ newline$ }'
DECLS = ['ENTRY { title note } { count } { label }', 'INTEGERS { gi gj }', 'STRINGS { gs gt }']


def errors_family():
    """Built-ins on operands where the documented outcome is an error (or the edge of one): engine and semantics must agree on
    ok + same output / BibTeXError / non-pybtex exception."""
    out = []

    def one(body, unm=False):
        out.append(full_program(DECLS + ['FUNCTION {main} { %s stack$ newline$ }' % body, 'READ', 'ITERATE {main}'], 'errors', errclass=True,
                                unmodelled_=unm, cites=['Knuth84'], bibs=[BIB]))
    for m in ('x', '', '1', ' t', 'X', '{t}', '\t'):
        one('"ab" "%s" change.case$' % m)
        one('title "%s" change.case$ write$' % m)
    for n in (-1, -2, 1114112, 1114113, 2147483647, 2147483648, -2147483648, -2147483649, 10 ** 12, 55295, 57344, 1114111, 0):
        one('#%d int.to.chr$ chr.to.int$' % n)
        one('#%d int.to.chr$ pop$ "after"' % n)
    for n in (55296, 55297, 56320, 57343):         # surrogates: outside the model (Lean's Char has no surrogates), declared as such
        one('#%d int.to.chr$ chr.to.int$' % n, unm=True)
        one('#%d int.to.chr$ pop$ "after"' % n, unm=True)
    for x in ('', 'ab', 'abc', '  ', 'a', ' ', '\U0001D538', '\U0001D538\U0001D538', '\t'):
        one('"%s" chr.to.int$' % x)
    one('note chr.to.int$')
    one('booktitle chr.to.int$')           # undefined name
    one("'nosuch")
    one('nosuch')
    return out


def declaration_family():
    """Declaration errors: a name (up to letter case) is declared twice by ENTRY / FUNCTION (BibTeXError), INTEGERS / STRINGS over
    an existing name (the pinned code overwrites silently), and correct declarations next to them."""
    out = []
    tail = ['FUNCTION {main} { %s stack$ newline$ }', 'READ', 'ITERATE {main}']

    def prog(decls, body='cite$'):
        out.append(full_program(decls + [t % body if '%s' in t else t for t in tail], 'declarations', errclass=True, cites=['Knuth84'], bibs=[BIB]))
    E, GI, GS = DECLS
    # FUNCTION redeclared / over another kind of name / names differing only in case
    for n in ('f', 'F', 'title', 'TITLE', 'count', 'Count', 'label', 'gi', 'GI', 'gs', 'crossref', 'CrossRef', 'sort.key$', 'SORT.KEY$',
              'skip$', 'Skip$', 'global.max$', 'entry.max$', 'newname', ':=', 'main'):
        prog([E, GI, GS, 'FUNCTION {f} { skip$ }', 'FUNCTION {%s} { #1 }' % n])
    # ENTRY: repeated names, crossref, built-ins, an earlier declaration
    for e in ('ENTRY { title Title } { } { }', 'ENTRY { title } { title } { }', 'ENTRY { title } { } { TITLE }', 'ENTRY { crossref } { } { }',
              'ENTRY { } { crossref } { }', 'ENTRY { } { } { CROSSREF }', 'ENTRY { } { } { sort.key$ }', 'ENTRY { } { Sort.Key$ } { }',
              'ENTRY { skip$ } { } { }', 'ENTRY { } { entry.max$ } { }', 'ENTRY { title } { count count } { }', 'ENTRY { title } { count } { Count }',
              'ENTRY { title } { a b } { c d }', 'ENTRY { } { } { }', 'ENTRY { title note } { count } { label }'):
        prog([e])
        prog([GI, e], body='gi')
        prog(['FUNCTION {title} { #1 }', e], body='title')
        prog(['INTEGERS { Title }', e], body='title')
    prog([E, E])
    prog([E, 'ENTRY { other } { } { }'])           # a second ENTRY declares crossref again
    # INTEGERS / STRINGS over a built-in, a field, a function, an entry variable, each other; names differing only in case
    for kind, read in (('INTEGERS', 'int.to.str$'), ('STRINGS', '"<" swap$ * ">" *')):
        for n in ('skip$', 'SKIP$', 'title', 'Title', 'f', 'F', 'count', 'label', 'crossref', 'sort.key$', 'gi', 'Gi', 'gs', 'GS',
                  'global.max$', 'newline$', 'fresh'):
            prog([E, GI, GS, 'FUNCTION {f} { "function f" }', '%s { %s }' % (kind, n)], body='%s %s' % (n, read))
            prog([E, GI, GS, 'FUNCTION {f} { "function f" }', '%s { %s }' % (kind, n)], body="title f gi gs count label")
        prog([E, '%s { a A }' % kind], body='a %s' % read)
        prog([E, '%s { a b a }' % kind], body='b %s' % read)
    prog([E, 'INTEGERS { v }', 'STRINGS { V }'], body='v')
    prog([E, 'STRINGS { v }', 'INTEGERS { V }'], body='#3 \'v := V')
    # a global assigned, then re-declared: the new variable starts at 0 / ""
    out.append(full_program([E, GI, 'FUNCTION {set} { #7 \'gi := }', 'READ', 'EXECUTE {set}', 'INTEGERS { GI }',
                             'FUNCTION {main} { gi stack$ newline$ }', 'ITERATE {main}'], 'declarations', errclass=True, cites=['Knuth84'], bibs=[BIB]))
    return out


def macro_family(rng, n):
    """MACRO: redefinition (the last definition wins), names in other letter cases, macros used by the .bib with '#', a style macro
    shadowed by a file @string and the other way round, a month redefined by the style, an undefined macro."""
    out = []
    names = ['foo', 'Foo', 'FOO', 'bar', 'jan', 'JAN', 'Jan', 'x.y', 'mar']
    vals = ['A', 'b b', '', 'Value {X}', 'jan', '1']
    show = 'FUNCTION {main} { cite$ ":" * note * ":" * title * ":" * month * ":" * preamble$ * write$ newline$ }'

    def one(macros, bib, fam='macro'):
        out.append(full_program(['ENTRY { title note month } { } { }'] + ['MACRO {%s} {"%s"}' % m for m in macros] + [show, 'READ', 'ITERATE {main}'],
                                fam, bibs=bib, cites=['*']))
    uses = ['foo', 'FOO', 'foo # bar', 'bar # " + " # foo # jan', 'jan', 'Jan # "." # feb', '"lit" # foo', 'foo # {braced} # foo', 'x.y', 'nosuch',
            'nosuch # foo']
    # systematic: every pair of definitions of `foo` in two spellings x every use
    for a, b in itertools.product(['foo', 'Foo', 'FOO'], repeat=2):
        for u in uses[:4]:
            one([(a, 'first'), (b, 'second')], ['@misc{k, note = %s, title = foo, month = jan}\n' % u])
    for u in uses:
        one([('foo', 'A'), ('bar', 'B'), ('foo', 'C'), ('x.y', 'dotted'), ('jan', 'Januar')], ['@misc{k, note = %s, title = {t}, month = JAN}\n' % u])
        one([], ['@string{foo = "file"}\n@misc{k, note = %s, title = {t}}\n' % u])
        one([('foo', 'style')], ['@string{foo = "file"}\n@misc{k, note = %s, title = foo}\n@string{FOO = "file2"}\n@misc{k2, note = %s, title = Foo}\n' % (u, u)])
        one([('foo', 'style')], ['@misc{k, note = %s, title = foo}\n' % u, '@string{foo = "second file"}\n@misc{k2, note = %s, title = foo}\n' % u])
        one([('foo', 'style'), ('bar', 'style bar')], ['@string{bar = foo # "+"}\n@preamble{foo # bar # jan}\n@misc{k, note = %s, title = bar}\n' % u])
    for _ in range(n):
        ms = [(rng.choice(names), rng.choice(vals)) for _ in range(rng.randint(0, 5))]
        bib = ''
        for i in range(rng.randint(1, 3)):
            if rng.random() < 0.4:
                bib += '@string{%s = %s}\n' % (rng.choice(names[:5]), ' # '.join(rng.choice(['"s%d"' % i, '{b}'] + names[:6]) for _ in range(rng.randint(1, 2))))
            if rng.random() < 0.3:
                bib += '@preamble{%s}\n' % ' # '.join(rng.choice(['"p"', '{ q }'] + names[:5]) for _ in range(rng.randint(1, 3)))
            bib += '@misc{k%d, note = %s, title = %s, month = %s}\n' % (
                i, ' # '.join(rng.choice(['" l "', '{r}', '12'] + names) for _ in range(rng.randint(1, 4))), rng.choice(names + ['{T}']),
                rng.choice(['jan', 'FEB', 'mar', '{m}', 'foo']))
        one(ms, [bib] if rng.random() < 0.6 else [bib, bib.replace('{k', '{j')], 'macro-random')
    return out


def execute_family(rng, n):
    """EXECUTE with an effect, before and after READ / ITERATE / REVERSE / SORT: global variables persist from command to command,
    output is written in command order, entry variables set by ITERATE are still there in the next pass."""
    out = []
    fns = {'init': '#3 \'gi := "begin" \'gs := "BEGIN" write$ newline$',
           'bump': "gi #10 + 'gi := gs \"+\" * 'gs :=",
           'fin': '"END " gi int.to.str$ * ":" * gs * write$ newline$',
           'half': '"no newline yet"  write$',
           'longline': '"%s" write$ gs write$ newline$' % LONG[:150],
           'visit': "cite$ \":\" * gi int.to.str$ * \":\" * gs * write$ newline$ gi #1 + 'gi := gi 'count := cite$ \"l\" change.case$ 'label := title 'sort.key$ :=",
           'show': 'cite$ ":" * count int.to.str$ * ":" * label * ":" * sort.key$ * ":" * gi int.to.str$ * ":" * gs * write$ newline$'}
    head = DECLS + ['FUNCTION {%s} { %s }' % kv for kv in fns.items()]
    cmds = ['EXECUTE {init}', 'EXECUTE {bump}', 'EXECUTE {fin}', 'EXECUTE {half}', 'EXECUTE {longline}', 'ITERATE {visit}', 'REVERSE {visit}',
            'ITERATE {show}', 'REVERSE {show}', 'SORT', 'EXECUTE {newline$}', 'EXECUTE {skip$}', 'execute {fin}', 'Execute {bump}']
    fixed = [['READ', 'EXECUTE {init}', 'ITERATE {visit}', 'EXECUTE {fin}', 'ITERATE {show}'],
             ['EXECUTE {init}', 'READ', 'ITERATE {visit}', 'EXECUTE {bump}', 'REVERSE {visit}', 'EXECUTE {fin}', 'SORT', 'ITERATE {show}', 'EXECUTE {fin}'],
             ['EXECUTE {init}', 'EXECUTE {fin}'], ['EXECUTE {half}', 'EXECUTE {fin}', 'READ', 'EXECUTE {half}'],
             ['READ', 'ITERATE {visit}', 'EXECUTE {half}', 'ITERATE {show}', 'EXECUTE {newline$}'],
             ['READ', 'EXECUTE {longline}', 'ITERATE {visit}', 'EXECUTE {longline}']]
    for f in fixed:
        for cites in (CITES, ['*'], []):
            out.append(full_program(head + f, 'execute', cites=cites))
    for _ in range(n):
        k = rng.randint(2, 7)
        seq = [rng.choice(cmds) for _ in range(k)]
        seq.insert(rng.randint(0, 2), 'READ')
        # ITERATE / REVERSE / SORT need the database
        r = seq.index('READ')
        seq = [c for i, c in enumerate(seq) if i >= r or c.upper().startswith('EXECUTE')]
        out.append(full_program(head + seq, 'execute', cites=rng.choice([CITES, ['*'], ['parent', 'Knuth84', 'unused'], []])))
    return out


# probes for "EXECUTE runs outside any entry": (function body, kind); kind 'read' = the body prints something that belongs to an
# entry between the markers <| and |>, 'write' = it assigns a per-entry variable
SCOPE_PROBES = [('"<|" cite$ * "|>" * write$ newline$', 'read'), ('"<|" title * "|>" * write$ newline$', 'read'),
                ('"<|" type$ * "|>" * write$ newline$', 'read'), ('"<|" crossref * "|>" * write$ newline$', 'read'),
                ('"<|" count int.to.str$ * "|>" * write$ newline$', 'read'), ('"<|" label * "|>" * write$ newline$', 'read'),
                ('"<|" sort.key$ * "|>" * write$ newline$', 'read'), ('"<|" note missing$ int.to.str$ * "|>" * write$ newline$', 'read'),
                ('call.type$', 'read'), ("#5 'count :=", 'write'), ('"L" \'label :=', 'write'), ('"K" \'sort.key$ :=', 'write'),
                ("gi 'count := \"g\" 'label :=", 'write')]


def execute_scope_family():
    """EXECUTE {f} where f touches what exists per entry only (cite$, type$, fields, crossref, entry variables, call.type$), before
    the first ITERATE and after an ITERATE / REVERSE / SORT: there is no current entry outside ITERATE / REVERSE."""
    out = []
    fns = ['FUNCTION {visit} { cite$ "l" change.case$ \'label := #1 \'count := }', 'FUNCTION {noop} { skip$ }',
           'FUNCTION {misc} { "<|type " type$ * "|>" * write$ newline$ }', 'FUNCTION {default.type} { "<|default " cite$ * "|>" * write$ newline$ }',
           'FUNCTION {show} { cite$ ":" * count int.to.str$ * ":" * label * ":" * sort.key$ * write$ newline$ }']
    befores = [[], ['ITERATE {noop}'], ['REVERSE {noop}'], ['ITERATE {noop}', 'SORT'], ['ITERATE {visit}'], ['EXECUTE {noop}'],
               ['ITERATE {noop}', 'EXECUTE {noop}']]
    for body, kind in SCOPE_PROBES:
        for before in befores:
            for cites in (CITES, ['parent'], []):
                lines = DECLS + fns + ['FUNCTION {probe} { %s }' % body, 'READ'] + before + ['EXECUTE {probe}', 'ITERATE {show}']
                out.append(full_program(lines, 'execute-scope', bibs=[BIB], cites=cites, errclass=True, scope_probe=kind,
                                        visited=('ITERATE {visit}' in before)))
    return out


def while_family():
    """while$ whose predicate leaves integers below 0 (the loop ends on every value <= 0, not only on 0), nested loops, a loop whose
    body runs zero times."""
    out = []
    for start in (-3, -2, -1, 0, 1, 3):
        for pred in ('gi', 'gi #0 +', '#0 gi - #0 swap$ -', 'gi #1 -', 'gi #2 - #1 +'):
            body = ("#%d 'gi := #0 'gj := { %s } { \"body \" gi int.to.str$ * write$ newline$ gi #1 %s 'gi := gj #1 + 'gj := } while$ "
                    '"done " gi int.to.str$ * " after " * gj int.to.str$ * write$ newline$')
            # counting up from a negative start the predicate passes through -2, -1 and ends at 0; counting down from a positive one it ends at 0
            out.append(full_program(DECLS + ['FUNCTION {main} { %s }' % (body % (start, pred, '+' if start <= 0 else '-')), 'READ', 'ITERATE {main}'],
                                    'while', bibs=[BIB], cites=['Knuth84'], timeout=20, fuel=50000))
    nested = ("#2 'gj := { gj #0 > } { #-2 'gi := { gi } { \"inner \" gi int.to.str$ * write$ newline$ gi #1 + 'gi := } while$ "
              "gj #1 - 'gj := \"outer\" write$ newline$ } while$")
    out.append(full_program(DECLS + ['FUNCTION {main} { %s }' % nested, 'READ', 'ITERATE {main}'], 'while', bibs=[BIB], cites=['Knuth84'], timeout=20))
    # predicate and body given by name; a negative literal as the whole predicate is never true
    out.append(full_program(DECLS + ["FUNCTION {p} { count #2 - }", "FUNCTION {b} { count #1 - 'count := cite$ write$ newline$ }",
                                     "FUNCTION {main} { #4 'count := 'p 'b while$ count int.to.str$ write$ newline$ }", 'READ', 'ITERATE {main}'],
                            'while', bibs=[BIB], timeout=20))
    return out


def sort_family(rng, n):
    """SORT on keys that differ in letter case only / are equal / are empty / were never assigned: code-point order (upper case before
    lower case), stable, a missing key sorts as the empty string."""
    out = []
    pool = ['a', 'A', 'b', 'B', 'ab', 'Ab', 'aB', 'AB', '', 'a b', 'Z', 'z', '{a}', '~', '_', 'a', 'B']
    prog = ['ENTRY { note } { } { }',
            "FUNCTION {presort} { note 'sort.key$ := }",
            "FUNCTION {presort.some} { note empty$ 'skip$ { note \"l\" change.case$ \"x\" * 'sort.key$ := } if$ }",
            'FUNCTION {show} { cite$ "=" * sort.key$ * write$ newline$ }', 'READ']

    def one(keys, tail):
        bib = ''.join('@misc{k%d%s}\n' % (i, ', note = {%s}' % k if k is not None else '') for i, k in enumerate(keys))
        out.append(full_program(prog + tail, 'sort', bibs=[bib], cites=['*']))
    tails = [['ITERATE {presort}', 'SORT', 'ITERATE {show}'], ['REVERSE {presort}', 'SORT', 'REVERSE {show}'], ['SORT', 'ITERATE {show}'],
             ['ITERATE {presort.some}', 'SORT', 'ITERATE {show}', 'ITERATE {presort}', 'SORT', 'ITERATE {show}'],
             ['ITERATE {presort}', 'SORT', 'SORT', 'ITERATE {show}'], ['ITERATE {presort}', 'sort', 'ITERATE {show}']]
    for a, b in itertools.product(['a', 'A', 'b', 'B', 'ab', 'Ab', '', None], repeat=2):
        one([a, b, a], tails[0])
        one([b, a], tails[1])
    for _ in range(n):
        one([rng.choice(pool + [None]) for _ in range(rng.randint(2, 7))], rng.choice(tails))
    return out


def spell(name, how):
    return {'lower': name.lower(), 'upper': name.upper(), 'title': name.title(), 'mixed': ''.join(c.upper() if i % 2 else c.lower() for i, c in enumerate(name))}[how]


def command_case_family():
    """Command names, and the names commands take as arguments, in other letter cases."""
    out = []
    prog = [('ENTRY', '{ title Note } { count } { label }'), ('INTEGERS', '{ gi }'), ('STRINGS', '{ gs }'), ('MACRO', '{foo} {"Foo"}'),
            ('FUNCTION', '{Main} { cite$ ":" * TITLE * ":" * note * write$ newline$ Title \'SORT.KEY$ := }'),
            ('FUNCTION', '{init} { "init" write$ newline$ }'), ('READ', ''), ('EXECUTE', '{INIT}'), ('ITERATE', '{main}'), ('SORT', ''),
            ('REVERSE', '{MAIN}'), ('ITERATE', '{Main}')]
    for how in ('lower', 'upper', 'title', 'mixed'):
        out.append(full_program(['%s %s' % (spell(c, how), a) for c, a in prog], 'command-case', bibs=[BIB2A, BIB2B], cites=['*']))
        for i in range(len(prog)):
            out.append(full_program(['%s %s' % (spell(c, how) if j == i else c, a) for j, (c, a) in enumerate(prog)], 'command-case',
                                    bibs=[BIB2A, BIB2B], cites=['*']))
    return out


def yaml_quote(x):
    return '"%s"' % x.replace('\\', '\\\\').replace('"', '\\"')


def alt_family(rng, n):
    """A database delivered by another reader (bib_format=: the YAML reader), where persons arrive as Person objects and a person field
    is read by the style as ' and '.join(str(person)): names without first names keep their empty First part ("Last, Jr," / "World Bank,")."""
    out = []
    firsts, middles = ['', '', 'John', 'J. R.', 'jean'], ['', '', 'M', 'de']
    prelasts, lasts, lineages = ['', '', 'von', 'de la', 'Von'], ['Smith', 'World Bank', 'van Gogh', '{Barnes and Noble}', 'a B', 'X'], ['', '', 'Jr', 'III']
    prog = ['ENTRY { title author editor year } { } { }',
            'FUNCTION {names} { duplicate$ write$ newline$ duplicate$ num.names$ int.to.str$ write$ newline$ duplicate$ #1 "{ff }{vv }{ll}{, jj}" format.name$ '
            'write$ newline$ duplicate$ #2 "{vv~}{ll}{, jj}{, f.}" format.name$ write$ newline$ duplicate$ missing$ int.to.str$ write$ newline$ '
            'purify$ write$ newline$ }',
            'FUNCTION {main} { cite$ ":" * title * ":" * year * ":" * preamble$ * write$ newline$ author names editor names }', 'READ', 'ITERATE {main}']

    def person(spec):
        return '\n'.join(('      - ' if i == 0 else '        ') + '%s: %s' % (k, yaml_quote(v)) for i, (k, v) in enumerate(spec))

    def doc(entries, preamble):
        lines = ['entries:']
        for key, ty, fields, roles in entries:
            lines.append('  %s:' % yaml_quote(key))
            lines.append('    type: %s' % ty)
            for k, v in fields:
                lines.append('    %s: %s' % (k, yaml_quote(v)))
            for role, ps in roles:
                if ps:
                    lines.append('    %s:' % role)
                    lines.extend(person(p) for p in ps)
        if preamble is not None:
            lines.append('preamble: %s' % yaml_quote(preamble))
        return '\n'.join(lines) + '\n'

    def mkperson(f, m, pl, l, j):
        return [(k, v) for k, v in (('first', f), ('middle', m), ('prelast', pl), ('last', l), ('lineage', j)) if v]
    # systematic: every shape (with / without first, middle, von part, Jr) x every kind of last name, alone and as second of two
    shapes = [mkperson(f, m, pl, l, j) for f in ('', 'John') for m in ('', 'M') for pl in ('', 'von') for l in lasts for j in ('', 'Jr')]
    for i in range(0, len(shapes), 2):
        ents = [('k1', 'article', [('title', 'T one'), ('year', '1999')], [('author', shapes[i:i + 2]), ('Editor', shapes[i + 1:i + 2])]),
                ('k2', 'book', [('title', 'T two'), ('crossref', 'k1')], [('author', shapes[i + 1:i + 2])])]
        out.append(full_program(prog, 'alt-reader', bibs=[doc(ents, 'PRE' if i % 4 == 0 else None)], cites=['*'], bib_format='yaml'))
    for _ in range(n):
        ents = []
        for e in range(rng.randint(1, 3)):
            roles = []
            for role in ('author', 'editor'):
                ps = [mkperson(rng.choice(firsts), rng.choice(middles), rng.choice(prelasts), rng.choice(lasts), rng.choice(lineages))
                      for _ in range(rng.randint(0, 3))]
                roles.append((rng.choice([role, role.title(), role.upper()]), ps))
            fields = [('title', rng.choice(['T', 'A {B} c'])), ('year', '19%02d' % rng.randint(0, 99))]
            if e > 0 and rng.random() < 0.5:
                fields.append(('crossref', 'k0'))
            ents.append(('k%d' % e, rng.choice(['article', 'Book', 'misc']), fields, roles))
        out.append(full_program(prog, 'alt-reader', bibs=[doc(ents, rng.choice([None, 'pre {x}', '']))],
                                cites=rng.choice([['*'], ['k0'], ['k1', 'K0'], ['k2', 'k1'], ['nokey', 'k0']]), bib_format='yaml',
                                mc=rng.choice([1, 2])))
    return out


def pool2_random(rng, n, length):
    """random well-typed sequences of exactly `length` units over both pools with at least one unit of the second pool"""
    allu = UNITS + UNITS2
    second = set(id(u) for u in UNITS2)
    done = 0
    while done < n:
        seq, stack, used = [], [], False
        for _ in range(length):
            fit = [u for u in allu if len(stack) >= len(u[1]) and (not u[1] or stack[-len(u[1]):] == u[1])]
            u = rng.choice(fit)
            seq.append(u[0])
            stack = stack[:len(stack) - len(u[1])] + u[2]
            used = used or id(u) in second
        if used:
            done += 1
            yield seq, stack


FMT_NAMES = ["{\\'E}douard Masterly", "Jan {\\'o}s Beethoven", "{\\AA} Bo Carl Dahl", "Jean-Paul Sartre", "Hans{-}Peter Karl Schmidt",
             "Charles Louis Xavier Joseph de la Vall{\\'e}e Poussin", "{Barnes and Noble} Inc", "de la Fontaine, Jr, Jean", "AA BB",
             "A B C D", "{\\oe}x y Z", "von Last", "{\\'{E}}d {\\'o}s {\\o}l Xi", "ab cd Ef", "{ab} {c} Def", "a~b c D"]
FMT_FORMATS = ["{f.~}{vv~}{ll}{, jj}", "{ff~}{vv~}{ll}{, jj}", "{vv~}{ll}{, jj}{, f.}", "{f{}}{l{}}", "{ff }{vv }{ll}", "{ll~}{f.}",
               "{vv~~}{ll}", "{f.}{v.}{l.}", "{ff~}{ll}", "{l~}{f~}", "{ff{-}}{ll}"]


def format_name_family():
    """format.name$ on names whose SHORT parts carry braces / special characters (the tie rule counts text characters, not raw ones),
    hyphens inside and outside braces, von and Jr parts, with formats that tie, abbreviate and give explicit separators"""
    out = []
    for n in FMT_NAMES:
        for f in FMT_FORMATS:
            out.append(mk('"%s" #1 "%s" format.name$' % (n, f), [S], 'fmtname'))
    return out


# ---- width$ -----------------------------------------------------------------------------------------------------------------------
# ordinary groups (the brace that opens them is not followed by a backslash) with a backslash further in, special characters whose
# text pybtex and BibTeX measure alike (one non-letter or one-letter control sequence directly followed by the letters) and others,
# unclosed groups, stray braces
WIDTH_PIECES = ['{x\\y}', '{x\\}', '{xy\\}', '{x \\y z}', '{x{\\y}}', '{{\\y}}', '{x\\y\\z}', '{-\\o}', '{x}{\\y}', '{x\\y}{\\\'z}', '{x{y\\z}w}',
                "{\\'c}", '{\\"o}', "{\\'c{}}", "{\\'c{d}}", '{\\H{o}}', '{\\aa}', '{\\AA}', '{\\}', '{\\a}{\\b}',
                '{\\TeX}', '{\\TeX book}', '{\\v s}', '{\\ss}', '{\\ae}', '{\\oe}', '{\\AE}', '{\\OE}', '{\\o}', '{\\O}', '{\\i}', '{\\j}', '{\\l}', '{\\L}',
                "{\\'{\\i}}", '{\\c c}', '{\\relax}', '{\\relax x}', "{\\'\\i}",
                '{x\\y', '{x{\\y', '{\\x', "{\\'c{", '{', '}', '}x{', '}{x\\y}', '{x\\y}}', '{}', '{{}}', 'a\\b', '\\', 'a b', 'x-y~z', '']
WIDTH_CONTEXT = ['%s', 'a%sb', 'M %s.', '{q}%s', '%s{q}', "{\\'e}%s", "%s{\\'e}", '{%s}', 'x{y%sz}w', '%s%s']


def width_program(s):
    src = HEADER + 'FUNCTION {main} { "%s" width$ int.to.str$ write$ newline$ }\nREAD\nEXECUTE {main}\n' % s
    return {'op': 'bstrun', 'bst': src, 'bibs': [BIB], 'citations': CITES, 'min_crossrefs': 2, 'family': 'width', 'welltyped': True, 'width_of': s}


def width_family(rng, nrandom):
    seen = set()
    out = []

    def add(s):
        if '"' in s or '\n' in s or s in seen:
            return
        seen.add(s)
        out.append(width_program(s))
    for piece in WIDTH_PIECES:
        for ctx in WIDTH_CONTEXT:
            add(ctx.replace('%s', piece))
    for a in WIDTH_PIECES[:20]:
        for b in WIDTH_PIECES[:20]:
            add(a + b)
    alphabet = ['a', 'M', ' ', '{', '}', '\\', '\\', '{\\', "{\\'", 'x', 'y', '.', '1', '-', '~', "'", '{x\\y}', "{\\'e}", '}{', '{{']
    for _ in range(nrandom):
        add(''.join(rng.choice(alphabet) for _ in range(rng.randint(1, 9))))
    return out


# ---- unmatched closing braces at brace level 0 in front of groups / special characters -------------------------------------------------
# A right brace at brace level 0 does not lower the level (BibTeX: `if sp_brace_level > 0 then decr`), so the groups behind it are at
# level 1, 2, ... and text.prefix$ has to close exactly the groups still open where the prefix stops - NOT "as many as there are more
# left than right braces in the prefix".  Such operands come from a style string literal or from substring$ cutting a group in two.
UNMATCHED = ['}cd {efg} h', 'x}y{z{w', '}{ab}c', '}}{a{b}c}d', 'a}b{c}d', "}{\\'e}x{yz}", 'a}{b{c}}{d', '}{a}{b}{c', 'x}}}{y', '}{{{a}b}c}d', '} {a b', 'a}{\\TeX book}{c}']
UNMATCHED_BASES = ['{ab}cd {efg} h', "{x{y}z}w{\\'e}{uv}", '{a}{b}{c{d}e}f']


def prefix_clause(case, io):
    """family unmatched-brace: the program prints `"<s>" #n text.prefix$` between [ ]; it has to be x_text_prefix(s, n) of bibtex.web
    (transliteration in props/c03_fn.py, independent of pybtex's scanner and of the Lean model)."""
    if 'prefix_of' not in case or 'error' in io:
        return []
    from props import c03_fn
    s, n = case['prefix_of']
    want = c03_fn.prefix_expected(s, n)
    if want is None:
        return []
    line = io.get('bbl', '').split('\n')[0]
    if line != '[' + want + ']':
        return ['prefix_as_bibtex: "%s" #%d text.prefix$ printed %r, BibTeX\'s x_text_prefix gives %r (a right brace at brace level 0 does not lower '
                'the level; one right brace is appended per group still open)' % (s, n, line, '[' + want + ']')]
    return []


def unmatched_brace_family():
    out = []
    for s in UNMATCHED:
        for n in range(1, len([c for c in s if c not in '{}']) + 2):
            c = mk('"%s" #%d text.prefix$' % (s, n), [S], 'unmatched-brace')
            c['prefix_of'] = [s, n]
            out.append(c)
        out.append(mk('"%s" text.length$' % s, [I], 'unmatched-brace'))
        out.append(mk('"%s" purify$' % s, [S], 'unmatched-brace'))
        for m in 'tlu':
            out.append(mk('"%s" "%s" change.case$' % (s, m), [S], 'unmatched-brace'))
        out.append(width_program(s))
        for a in (1, 2, 3):
            out.append(mk('"%s" #%d #3 substring$' % (s, a), [S], 'unmatched-brace'))
            out.append(mk('"%s" #-%d #3 substring$ purify$' % (s, a), [S], 'unmatched-brace'))
    # substring$ cuts a group in two, text.prefix$ works on what is left
    for base in UNMATCHED_BASES:
        for a in range(1, len(base) + 1):
            rest = base[a - 1:]
            for n in range(1, 7):
                c = mk('"%s" #%d global.max$ substring$ #%d text.prefix$' % (base, a, n), [S], 'unmatched-brace')
                c['prefix_of'] = [rest, n]
                out.append(c)
            out.append(mk('"%s" #%d global.max$ substring$ text.length$' % (base, a), [I], 'unmatched-brace'))
            out.append(mk('"%s" #%d global.max$ substring$ "u" change.case$ purify$' % (base, a), [S], 'unmatched-brace'))
    return out


def gen_cases(tier, rng, info):
    cases = list(while_family()) + format_name_family() + width_family(rng, 400 if tier == 'quick' else 8000) + unmatched_brace_family()      # first: its well-typed programs are the failing input to report for a change of the loop condition
    maxlen = 2 if tier == 'quick' else 3
    na = 0
    for body, types in assign_sequences(2 if tier == 'quick' else 3):
        cases.append(mk(' '.join(body), types, 'assign%d' % (len(body) - 1)))
        na += 1
    for _ in range(600 if tier == 'quick' else 10000):
        cases.append({'op': 'bstrun', 'bst': multipass_program(rng), 'bibs': [BIB], 'citations': rng.choice([CITES, ['*']]),
                      'min_crossrefs': 2, 'family': 'multipass', 'welltyped': True})
    n = 0
    seqs = list(typed_sequences(maxlen))
    for body, types in seqs:
        cases.append(mk(' '.join(body), types, 'straight%d' % len(body)))
        n += 1
    info['exhaustive'] = True
    info['scope'] = ('all %d well-typed unit sequences of length <= %d over %d typed units (operand pool %r, %r); all %d assign/read sequences '
                     'over every variable kind with the default values in the pool' % (n, maxlen, len(UNITS), INTS, STRS, na))
    if tier == 'quick':
        three = list(typed_sequences(3))
        for body, types in rng.sample(three, min(2500, len(three))):
            if len(body) == 3:
                cases.append(mk(' '.join(body), types, 'straight3-sample'))
    ill = illtyped_cases()
    cases.extend(ill)
    info['scope'] += ('; ill-typed: all %d programs "operands built-in" for each of the %d built-ins on every stack of depth 0..3 over %r and of '
                      'depth 1..2 over %r (agreement on ok+output / BibTeXError / INTERNAL)' % (
                          len(ill), len(ALL_BUILTINS), [o[0] for o in ILL_POOL], [o[0] for o in ILL_POOL2]))
    cite_sets = [CITES, ['*'], ['lamport:86', 'unused', 'KNUTH84'], ['nokey', 'Knuth84'], ['parent', 'lamport:86']]
    for _ in range(1500 if tier == 'quick' else 30000):
        cases.append({'op': 'bstrun', 'bst': random_program(rng), 'bibs': [BIB], 'citations': rng.choice(cite_sets),
                      'min_crossrefs': rng.choice([1, 2]), 'family': 'random', 'welltyped': True})
    # second wave
    n2 = 0
    for body, types in pool2_sequences(2):
        cases.append(mk2(' '.join(body), types, 'pool2-%d' % len(body)))
        n2 += 1
    if tier != 'quick':
        for body, types in pool2_random(rng, 40000, 3):
            cases.append(mk2(' '.join(body), types, 'pool2-3-sample', cites=rng.choice([CITES, ['*'], ['parent', 'KNUTH84']])))
    second = (errors_family() + declaration_family() + macro_family(rng, 300 if tier == 'quick' else 6000) +
              execute_family(rng, 300 if tier == 'quick' else 6000) + execute_scope_family() + command_case_family() +
              sort_family(rng, 200 if tier == 'quick' else 4000) +
              alt_family(rng, 150 if tier == 'quick' else 3000))
    cases.extend(second)
    info['scope'] += ('; second pool: all %d well-typed sequences of length <= 2 over both pools that use one of the %d units of the second '
                      'pool (change.case$ modes in either case and longer, names of fields / variables / built-ins in other letter cases, '
                      'white space other than the blank, int.to.chr$ / chr.to.int$ at the edges of their ranges, < and > on strings, lines '
                      'longer than 79 characters; two .bib files with macros, @string, two @preamble); %d systematic programs: error outcomes of '
                      'change.case$ / int.to.chr$ / chr.to.int$, declaration errors, MACRO redefinition and shadowing, EXECUTE before and after '
                      'ITERATE (with the probes of "EXECUTE runs outside any entry"), while$ with predicates below 0, command names in other '
                      'letter cases, a database delivered by another reader (bib_format) with person fields' % (n2, len(UNITS2), len(second) + len(while_family())))
    from props import c03_fn
    cases.extend(c03_fn.gen(tier, rng, info))
    return cases


LEVEL_TEXT = ('Machine-checked proof (Lean 4) about an executable model of the BST interpreter (pybtex/bibtex/interpreter.py + builtins.py) for EVERY '
              'state, stack content and program: one theorem per built-in (all 37) giving the exact stack / output / state change on the documented '
              '[these equations are readable closed-form PINS of the model, marked [model wiring] in the theorem list: no separately written semantics is refined by them] '
              'operand shapes with frame conditions; BibTeXError(pop from empty stack) on every stack shorter than the number of values the built-in '
              'pops, whatever their types (the model pops raw values in Python\'s order and inspects them afterwards); on ill-typed operands what the '
              'pinned Python code does (TypeError/AttributeError = internal error, or the ordinary result Python computes), never a silent default; '
              'if$ and the unfolding law of while$; fuel monotonicity and determinism of the six mutually recursive execution functions; '
              'ITERATE / REVERSE as the left fold over the citation list in order / in reverse; SORT = the unique stable sort by sort.key$ under '
              'code-point lexicographic order; scoping (entry variables of other entries untouched, global variables persist, functions never '
              'redefined by execution); ENTRY / INTEGERS / STRINGS / FUNCTION / MACRO declare exactly what they list; READ = the parse of the .bib '
              'texts with the MACRO table as initial macros and no person fields, citations = removeMissing (addExtraCitations ...), preamble$ = the '
              'flattened preamble, the resulting database is well formed so that the C05 (order) and C14 (inherited fields) theorems apply; no '
              'entry is current outside ITERATE / REVERSE (EXECUTE runs outside any entry); the .bbl text is the rendering of the trace of the '
              'run = the list of write$ / newline$ calls executed. The string built-ins are tied to the theorems of C12 (substring$, text.length$, text.prefix$, purify$, '
              'change.case$), C11 (format.name$) and C19 (newline$). The model is tied to the code by a correspondence check that is exhaustive over '
              'well-typed straight-line programs of 90 typed units up to the tier length and over every built-in on every ill-typed stack of depth '
              '0..3 over one operand of each kind, plus seeded random structured programs and the golden styles; and FUNCTION BY FUNCTION: every built-in / variable '
              'object executed as vars[name].execute(interpreter) on a Python stack, and command_sort alone (ops bstbuiltin / bstsort: strings no .bst literal can spell, '
              'any code point, with and without a current entry), with clauses computed independently of model and code (x_text_prefix and x_width of bibtex.web, the '
              'documented results of the built-ins that need no TeX knowledge, stable code-point SORT). The names of the built-ins, the initial variables and constants of '
              'Interpreter and the command names are regenerated from the source on every run and compared with the tables of the model by C03_tables_match_source.')
LEVEL_NOTE = ('Trusted: Lean kernel; axioms propext/Classical.choice/Quot.sound only; the hand-written model (Model/Interp.lean) corresponds to the '
              'Python code only as far as the differential check explores; a value pushed by \'name is a reference by name; the print-out of a '
              'function / variable object by top$ / stack$ is the tag <object>. Ill-typed operands where Python\'s behaviour is an ORDINARY RESULT '
              'and the model follows it: = on any two values (functions by body, variable objects by their __eq__; two entry variables of one class '
              'raise AttributeError); + and * are one operator (two strings concatenate, two integers add, under either name); < and > on two '
              'strings; add.period$ on the integer 0 (pushed back) and empty$ on 0 (gives 1); change.case$ with mode 0 ("empty mode" BibTeXError); '
              'chr.to.int$ on anything but a one-character string (BibTeXError, also for integers and objects); missing$ / duplicate$ / pop$ / swap$ / '
              'top$ / stack$ on any value; int.to.str$ on a string (unchanged); warning$ on an integer (decimal text); substring$ with start 0 ("" '
              'whatever the other operands) and text.prefix$ with a count <= 0 ("" whatever the string); format.name$ with a name number < 1 (warning '
              'before names and format are used; integer names in decimal) or beyond the count (format unused); if$ never looks at the operand it '
              'does not execute. OUT OF DOMAIN, kept as an internal error marked "unmodelled:" although Python gives an ordinary result (it involves '
              'the repr of an object, or the failure is deferred): int.to.str$ and warning$ on a function / variable object, the format.name$ warning '
              '(name number < 1) when names is such an object, and write$ of a non-string (Python appends it and fails with TypeError at the next '
              'newline$, or never if none follows); int.to.chr$ of an integer outside the C int range is an OverflowError (internal), not the '
              'BibTeXError of the other out-of-range integers; int.to.chr$ of a surrogate code point (Python returns a lone surrogate; marked '
              'unmodelled, never another character). Observations, not violations of the property as stated: the pinned code implements + '
              'and * by one Python operator (C03_builtin_plus_mul_same) and INTEGERS / STRINGS silently overwrite an existing binding '
              '(C03_declare_globals). WHAT KIND OF THEOREM: the built-in equations (C03_builtin_*, C03_if, C03_exec_literals, C03_exec_variable, '
              'C03_exec_crossref, C03_execute, C03_while_unfold 1-2, C03_builtin_table and its Doc relation) and C03_read_spec restate the defining equations '
              'of Model/Interp.lean in a readable closed form (operand order, arity, error class, frame condition): they pin the model, their tie to '
              'builtins.py / interpreter.py is the differential check. Independent specifications exist for: string comparison (LexLt), SORT (SortedBy, '
              'StableWrt, uniqueness), ITERATE / REVERSE (foldEntries), output (render / emit), scoping (Frame, CmdFrame), declarations (Declares, Fresh), '
              'empty$ (Blank), the add.period$ shapes, the citation order after READ (C03_read_order -> C05 Spec.resolved / present / dangling / missing), and '
              'through C12 / C11 / C19 / C01 for substring$, text.length$, text.prefix$ (length), purify$ (character range and idempotence ONLY), change.case$ '
              '(closed special characters only), format.name$, newline$ on short lines, num.names$ on well-formed lists, width$ (C03_builtin_width_spec: the '
              'scanner-free one-pass width, every character outside a special character counts as it is; the text of a special character by pybtex\'s rule - '
              'recorded finding C03-width-special-char-contents, where BibTeX skips control sequences and knows the 13 foreign characters); the VALUE of purify$ is '
              'specified by a model function only. All semantics is FUEL-INDEXED (the Eval judgements are "some fuel gives ok"): termination and sufficiency of '
              'the fuel are not claimed (C03_output assumes the run ends ok) - except for straight-line function bodies (no FUNCTION call, if$, while$, call.type$), where '
              'length + 3 units of fuel are proved sufficient from every state (C03_straight_line_fuel); C03_iterate_order / C03_reverse_order assume Ready s (established by READ: '
              'C03_ready) and a bound function name.')
