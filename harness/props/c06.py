"""C06 -- BibTeX-engine output depends only on the cited entries and the style."""
import os
import shutil
import tempfile

import compat  # noqa: F401
from props.base import corpus_for  # noqa: F401
from props import c01, c03

ID = 'C06'
LEAN_MODULES = ['PybtexModel.Props.C06']
THEOREMS = {
    'C06_aux_equiv': 'driving the engine through an .aux file produces byte for byte (bbl, reports, printed output) what the explicit call with the style, data files and citations of the .aux file produces; a fatal .aux error / unreadable file is the error of the run',
    'C06_overrides': 'an explicitly requested style replaces the \\bibstyle of the .aux file; with a bib_format reader its database is what READ uses and the .bib files are neither opened nor looked at',
    'C06_frame': 'frame property of the interpreter: if two databases agree on the view (type, own and inherited fields, crossref value) of the keys K, then from states that differ in the database only every built-in, token, function body, while$ loop, ITERATE/REVERSE over K, every command except READ and every READ-free program yields results that differ in the database only (or the same error) - for every amount of fuel',
    'C06_frame_closure': 'the view of a key is determined by its crossref closure: databases with the same entries on a crossref-closed key set agree on it - uncited, unreferenced entries and the order of entries are irrelevant',
    'C06_frame_read': 'reduction of the READ hypothesis: equal preamble, reader reports and citation resolution (C05) plus agreement on the resolved citations make the two READ steps leave states that differ in the database only',
    'C06_frame_run': 'two runs of a style pre;READ;post whose READ steps leave states differing in the database only, with databases agreeing on the resolved citations, are equal: same .bbl, reports, printed output or error',
    'C06_frame_reports': 'reports made before (e.g. by READ) do not matter: from states differing in the database and in the reports made so far a READ-free program gives the same error or final states differing only in the database and that prefix - same output lines, printed text and appended reports',
    'C06_frame_run_reports': 'two runs of a style pre;READ;post whose READ steps leave states differing in the database and in their reports, with databases agreeing on the resolved citations: same error, or same .bbl, printed output and reports after READ',
    'C06_frame_uncited_alt': 'adding or removing an uncited, not-yet-referenced entry in the entry list a bib_format reader delivers does not change the run at all',
    'C06_one_item_per_citation': 'for the schema READ; [SORT;] ITERATE {f} (and REVERSE) with f emitting exactly one item per call: one item per resolved citation, in citation order / reverse order / sortByKey order = a permutation ascending by sort.key$ in which equal keys keep citation order (stable)',
    'C06_sort_order_total': "the sort compares keys with a strict total order (Python's < on str): ties are exactly equal keys",
    'C06_aux_equiv_nonvacuous': 'non-vacuity: a three-line .aux, a two-entry .bib and a tiny style evaluate to the same .bbl through both entry points; an unreadable .aux is the error of the run',
    'C06_overrides_nonvacuous': 'non-vacuity: a sorting style overrides the unsorted \\bibstyle; a reader database is used although no file with the reader suffix exists',
    'C06_frame_closure_nonvacuous': 'non-vacuity: two example databases (entries in different order) satisfy the closure hypotheses',
    'C06_frame_nonvacuous': 'non-vacuity: the example databases agree on the cited keys, differ as databases, and the state after READ is a good state',
    'C06_frame_read_nonvacuous': 'non-vacuity: the hypotheses of the READ reduction hold for the two example readers',
    'C06_frame_run_nonvacuous': 'non-vacuity: the hypotheses of the run theorem hold for the two example readers and the runs are equal with the expected .bbl',
    'C06_frame_run_reports_nonvacuous': 'non-vacuity: the example readers satisfy the hypotheses of the reports variants (good READ state, agreeing databases)',
    'C06_frame_uncited_alt_nonvacuous': 'non-vacuity: an uncited entry standing between two cited ones satisfies the side condition',
    'C06_one_item_per_citation_nonvacuous': 'non-vacuity: f = {cite$ write$ newline$} satisfies the hypotheses for every state and key; the three tiny styles give citation, reverse and sort-key order; a concrete stable sort',
}
RULE = ('databases drawn from a pool of 14 realistic entries (all standard types, cross-references, braces, special characters) with '
        'random subsets / permutations (parents after their children), noise entries inserted anywhere, citation lists with and without '
        "'*', unknown keys and case variants, each standard style of tests/data (unsrt, plain, alpha; thorough: abbrv too), both entry "
        'points (make_bibliography through a generated .aux, format_from_files), every combination of style= / bib_format= override (YAML copy); '
        'non-trivial = at least two cited entries; distinct by case JSON')
TRUSTED = ['the standard .bst files are inputs (not modelled); the YAML reader is used as is for the bib_format override',
           'real temp files under a private directory outside /repo and /verif']
ASSUMPTIONS = ['ASCII field values; parents occur after the children that reference them (C05 ordering proviso)']

POOL = {
    'knuth84': '@book{knuth84, author = {Donald E. Knuth}, title = {The {\\TeX}book}, publisher = {Addison-Wesley}, year = 1984}',
    'lamport86': '@book{lamport86, author = "Leslie Lamport", title = "{\\LaTeX}: A Document Preparation System", publisher = {Addison-Wesley}, year = 1986, edition = "Second"}',
    'art1': '@article{art1, author = {Jean de La Fontaine and Victor Hugo}, title = {An article title: with Colon}, journal = {J. of Things}, year = 1990, volume = 3, number = 2, pages = {1--10}, month = jan}',
    'art2': "@article{art2, author = {{\\'E}mile Zola and others}, title = {another title}, journal = {J. of Things}, year = {1990}, pages = {11-20}, note = {A note}}",
    'inproc1': '@inproceedings{inproc1, author = {Ann B. Cee}, title = {In proc one}, crossref = {proc}, pages = {5--6}}',
    'inproc2': '@inproceedings{inproc2, author = {Dee E. Eff and Gee Aitch}, title = {In proc two}, crossref = {proc}}',
    'proc': '@proceedings{proc, editor = {Ed Itor}, title = {Proceedings of the Conference}, booktitle = {Proc. Conf.}, year = 2001, publisher = {ACM}, address = {New York}}',
    'misc1': '@misc{misc1, title = {Untitled misc}, howpublished = {Web}, year = 2010, month = dec}',
    'tech1': '@techreport{tech1, author = {von Beethoven, Jr, Ludwig}, title = {A report}, institution = {MIT}, year = 1999, number = {TR-1}}',
    'phd1': '@phdthesis{phd1, author = {Q. R. Student}, title = {Thesis title}, school = {Uni}, year = 2005}',
    'unpub1': '@unpublished{unpub1, author = {No Body}, title = {Unpublished work}, note = {Draft}}',
    'book2': '@book{book2, editor = {Aaa Bbb and Ccc Ddd and Eee Fff}, title = {Edited volume}, publisher = {Pub}, year = 1984, volume = 7, series = {Lecture Notes}}',
    'incoll1': '@incollection{incoll1, author = {X. Y. Zed}, title = {A chapter}, booktitle = {The Collection}, publisher = {Pub}, year = 1995, chapter = 3, pages = {100--120}}',
    'manual1': '@manual{manual1, title = {The Manual}, organization = {Org}, year = 2020}',
}
ORDER = list(POOL)
NOISE = ['@misc{noise1, title = {Noise one}, year = 1900}', '@article{noise2, author = {N. Oise}, title = {Noise two}, journal = {Nowhere}, year = 1901}',
         '@string{unusedmacro = "zzz"}', '@comment{ignored}']
STYLES_QUICK = ['unsrt', 'plain', 'alpha']
STYLES_ALL = ['unsrt', 'plain', 'alpha', 'unsrt_mixed']

_STYLE_TEXT = {}


def style_text(name):
    if name not in _STYLE_TEXT:
        with open(os.path.join(compat.REPO, 'tests', 'data', name + '.bst'), encoding='utf-8') as f:
            _STYLE_TEXT[name] = f.read()
    return _STYLE_TEXT[name]


_TMP = {}


def _tmpdir():
    d = _TMP.get(os.getpid())
    if d is None:
        base = '/dev/shm' if os.access('/dev/shm', os.W_OK) else None
        d = tempfile.mkdtemp(prefix='verif-c06-', dir=base)
        _TMP[os.getpid()] = d
        import atexit
        atexit.register(shutil.rmtree, d, True)
    return d


def bib_text(case, keys=None, noise=None):
    keys = case['keys'] if keys is None else keys
    parts = [POOL[k] for k in keys]
    for pos, n in (case.get('noise', []) if noise is None else noise):
        parts.insert(min(pos, len(parts)), NOISE[n])
    return '\n\n'.join(parts) + '\n'


def _write(path, text):
    with open(path, 'w', encoding='utf-8', newline='') as f:
        f.write(text)


def _run(fn):
    import pybtex.io
    import io as _io
    from pybtex import errors
    from pybtex.exceptions import PybtexError
    old_out = pybtex.io.stdout
    pybtex.io.stdout = _io.StringIO()
    try:
        with errors.capture() as captured:
            r = fn()
        return {'bbl': r, 'reports': [c03.canon_report(e) for e in captured if type(e).__name__ != 'AuxDataError'],
                'aux_errors': sum(1 for e in captured if type(e).__name__ == 'AuxDataError')}
    except PybtexError as e:
        return {'error': [type(e).__name__]}
    except Exception as e:  # noqa
        return {'error': ['INTERNAL'], 'detail': '%s: %s' % (type(e).__name__, e)}
    finally:
        pybtex.io.stdout = old_out


def setup_files(case, d):
    """Write style, bib (and yaml copy) and aux files; return their paths (without suffix where the API wants that)."""
    for st in set([case['style']] + ([case['style_override']] if case.get('style_override') else [])):
        _write(os.path.join(d, st + '.bst'), style_text(st))
    text = bib_text(case)
    _write(os.path.join(d, 'refs.bib'), text)
    if case.get('yaml'):
        from pybtex.database import parse_string
        db = parse_string(text, 'bibtex')
        _write(os.path.join(d, 'refs.yaml'), db.to_string('yaml'))
    aux = ['\\relax '] + _citation_lines(case)
    aux.append('\\bibstyle{%s}' % os.path.join(d, case['style']))
    aux.append('\\bibdata{%s}' % os.path.join(d, 'refs'))
    _write(os.path.join(d, 'doc.aux'), '\n'.join(aux) + '\n')
    return aux


def run_aux(case, d):
    from pybtex.bibtex import make_bibliography
    kw = {'min_crossrefs': case['min_crossrefs']}
    if case.get('style_override'):
        kw['style'] = os.path.join(d, case['style_override'])
    if case.get('yaml'):
        from pybtex.database.input.bibyaml import Parser as YamlParser
        kw['bib_format'] = YamlParser

    def go():
        bbl = os.path.join(d, 'doc.bbl')
        if os.path.exists(bbl):
            os.unlink(bbl)
        make_bibliography(os.path.join(d, 'doc.aux'), **kw)
        with open(bbl, encoding='utf-8', newline='') as f:
            return f.read()
    return _run(go)


def run_cli(case, d):
    """the command line front end: `pybtex doc.aux [--style S] [-f yaml] --min-crossrefs N` (option plumbing of __main__.py)"""
    import io as _io
    import sys
    import pybtex.io
    from pybtex import errors
    from pybtex.__main__ import main
    argv = ['pybtex', os.path.join(d, 'doc.aux'), '--min-crossrefs', str(case['min_crossrefs'])]
    if case.get('style_override'):
        argv += ['--style', os.path.join(d, case['style_override'])]
    if case.get('yaml'):
        argv += ['-f', 'yaml']
    bbl = os.path.join(d, 'doc.bbl')
    if os.path.exists(bbl):
        os.unlink(bbl)
    old = (sys.argv, errors.strict, errors.error_code, pybtex.io.stderr, pybtex.io.stdout, sys.stderr)
    sys.argv = argv
    pybtex.io.stderr = sys.stderr = _io.StringIO()
    pybtex.io.stdout = _io.StringIO()
    try:
        try:
            main()
            code = 0
        except SystemExit as e:
            code = e.code
        except Exception as e:  # noqa
            return {'error': ['INTERNAL'], 'detail': '%s: %s' % (type(e).__name__, e)}
        if not os.path.exists(bbl):
            return {'error': ['no-output'], 'code': code}
        with open(bbl, encoding='utf-8', newline='') as f:
            return {'bbl': f.read(), 'code': code}
    finally:
        sys.argv, errors.strict, errors.error_code, pybtex.io.stderr, pybtex.io.stdout, sys.stderr = old


def run_files(case, d, keys=None, noise=None, style=None, yaml=None, name='refs'):
    from pybtex.bibtex import format_from_files
    yaml = case.get('yaml') if yaml is None else yaml
    if keys is not None or noise is not None:
        name = 'variant'
        _write(os.path.join(d, name + '.bib'), bib_text(case, keys, noise))
    kw = {'min_crossrefs': case['min_crossrefs'], 'citations': list(case['citations'])}
    if yaml:
        from pybtex.database.input.bibyaml import Parser as YamlParser
        kw['bib_format'] = YamlParser
    path = os.path.join(d, name + ('.yaml' if yaml else '.bib'))
    return _run(lambda: format_from_files([path], style=os.path.join(d, style or case.get('style_override') or case['style']), **kw))


def impl(case):
    d = os.path.join(_tmpdir(), 'w')
    shutil.rmtree(d, True)
    os.makedirs(d)
    try:
        setup_files(case, d)
        out = {'aux': run_aux(case, d), 'files': run_files(case, d)}
        if case.get('cli'):
            out['cli'] = run_cli(case, d)
        # metamorphic variants (implementation only)
        if case.get('variant_keys') is not None or case.get('variant_noise') is not None:
            out['variant'] = run_files(case, d, keys=case.get('variant_keys'), noise=case.get('variant_noise'))
        if case.get('yaml'):
            out['bibtex_db'] = run_files(case, d, yaml=False)
        # resolved citations as the property defines them (unfiltered database, then selection)
        from pybtex import errors
        from pybtex.database import parse_string
        with errors.capture():
            db = parse_string(bib_text(case), 'bibtex')
            res = db.add_extra_citations(list(case['citations']), case['min_crossrefs'])
        out['resolved'] = [k for k in res if k in db.entries]
        out['dir'] = d
        return out
    finally:
        shutil.rmtree(d, True)


def to_request(case):
    d = '/D'
    texts = [[d + '/' + case['style'] + '.bst', style_text(case['style'])], [d + '/refs.bib', bib_text(case)]]
    if case.get('style_override'):
        texts.append([d + '/' + case['style_override'] + '.bst', style_text(case['style_override'])])
    aux = ['\\relax '] + _citation_lines(case)
    aux.append('\\bibstyle{%s}' % (d + '/' + case['style']))
    aux.append('\\bibdata{%s}' % (d + '/refs'))
    req = {'op': 'makebib', 'mode': 'aux', 'aux_files': [[d + '/doc.aux', aux]], 'top': d + '/doc.aux', 'texts': texts,
           'style_override': (d + '/' + case['style_override']) if case.get('style_override') else None,
           'suffix': '.yaml' if case.get('yaml') else '.bib', 'min_crossrefs': case['min_crossrefs'], 'alt': None}
    if case.get('yaml'):
        from pybtex import errors
        from pybtex.database import parse_string
        with errors.capture():
            db = parse_string(bib_text(case), 'bibtex')
            ydb = parse_string(db.to_string('yaml'), 'yaml')
        entries, preamble = c01.canon_db(ydb)
        req['alt'] = {'entries': entries, 'preamble': preamble}
    return req


def _norm_paths(s, d):
    return s.replace(d, '/D') if isinstance(s, str) else s


def compare_view(io):
    a = io['aux']
    if 'error' in a:
        return {'error': a['error']}
    return {'bbl': a['bbl'], 'reports': [[c, _norm_paths(m, io['dir'])] for c, m in a['reports']], 'aux_errors': a['aux_errors']}


def model_out(case, reply):
    o = reply['out']
    if 'error' in o:
        e = o['error']
        if e[0] == 'RUN':
            return {'error': [e[1][0]]}
        if e[0] == 'AUX':
            return {'error': ['AuxDataError' if (e[1] or {}).get('kind') not in ('open',) else 'PybtexError']}
        return {'error': [e[0]]}
    return {'bbl': o['bbl'], 'reports': o['reports'], 'aux_errors': o['aux_errors']}


def bibitem_keys(bbl):
    import re
    return re.findall(r'\\bibitem(?:\[[^\]]*\])?\{([^}]*)\}', bbl)


def oracle(case, io, reply):
    fails = []
    a, f = io['aux'], io['files']
    for name in ('aux', 'files', 'variant', 'bibtex_db'):
        r = io.get(name)
        if r and 'error' in r and r['error'][0] == 'INTERNAL':
            fails.append('no_internal: %s run raised %s' % (name, r.get('detail')))
    if 'error' in a or 'error' in f:
        if a.get('error') != f.get('error'):
            fails.append('aux_equiv: make_bibliography gave %r, the explicit call %r' % (a.get('error') or 'output', f.get('error') or 'output'))
        return fails
    if a['bbl'] != f['bbl']:
        which = ' [style override]' if case.get('style_override') else (' [bib_format override]' if case.get('yaml') else '')
        fails.append('aux_equiv%s: driving the engine through the .aux file differs from the equivalent explicit call: %r vs %r' % (
            '/override' if which else '', a['bbl'][:200], f['bbl'][:200]))
    c = io.get('cli')
    if c is not None:
        if 'error' in c:
            fails.append('aux_equiv/cli: the command line run gave %r (exit %r), make_bibliography an output' % (c['error'], c.get('code')))
        elif c['bbl'] != a['bbl']:
            fails.append('aux_equiv/cli: the command line run differs from make_bibliography: %r vs %r' % (c['bbl'][:200], a['bbl'][:200]))
    keys = bibitem_keys(f['bbl'])
    if sorted(k.lower() for k in keys) != sorted(k.lower() for k in io['resolved']):
        fails.append('one_item_per_citation: items %r, resolved citations %r' % (keys, io['resolved']))
    elif case['style'] == 'unsrt' and not case.get('style_override') and [k.lower() for k in keys] != [k.lower() for k in io['resolved']]:
        fails.append('citation_order: unsrt emitted %r, citation order is %r' % (keys, io['resolved']))
    v = io.get('variant')
    if v is not None and v.get('bbl') != f['bbl']:
        fails.append('frame: output changed when uncited entries were added/removed or the file was reordered: %r vs %r' % (
            (v.get('bbl') or str(v.get('error')))[:200], f['bbl'][:200]))
    b = io.get('bibtex_db')
    if b is not None and 'error' not in b and bibitem_keys(b['bbl']) != keys:
        fails.append('override_format: reading the YAML copy gives items %r, the .bib file %r' % (keys, bibitem_keys(b['bbl'])))
    return fails


def buckets(case, io):
    b = [case['style']]
    if case.get('style_override'):
        b.append('style-override')
    if case.get('yaml'):
        b.append('yaml')
    if case.get('variant_keys') is not None or case.get('variant_noise') is not None:
        b.append('variant')
    if 'error' in io['aux']:
        b.append('error:' + io['aux']['error'][0])
    return b


def nontrivial(case, io):
    return len(io.get('resolved', [])) >= 2


def valid_case(case):
    return False


def corpus():
    return corpus_for(ID)


def closure_ok(keys):
    """parents after children (C05 proviso)"""
    if 'proc' in keys:
        i = keys.index('proc')
        return all(k not in keys or keys.index(k) < i for k in ('inproc1', 'inproc2'))
    return True


def _citation_lines(case):
    """the \\citation lines of the .aux file: one key per line, or grouped as case['aux_groups'] says (sizes summing to the number of citations)"""
    cites = list(case['citations'])
    groups = case.get('aux_groups')
    if not groups or sum(groups) != len(cites) or any(g < 1 for g in groups):
        return ['\\citation{%s}' % c for c in cites]
    out, i = [], 0
    for g in groups:
        out.append('\\citation{%s}' % ','.join(cites[i:i + g]))
        i += g
    return out


def gen_case(rng, styles):
    n = rng.randint(2, 8)
    keys = rng.sample(ORDER, n)
    if 'proc' in keys:
        keys.remove('proc')
        keys.append('proc')
    elif rng.random() < 0.5 and any(k in keys for k in ('inproc1', 'inproc2')):
        keys.append('proc')
    cites = []
    r = rng.random()
    if r < 0.2:
        cites = ['*']
    elif r < 0.24:
        cites = []          # an .aux file without any \\citation line / an explicit empty citation list
    else:
        for k in rng.sample(keys, rng.randint(1, len(keys))):
            cites.append(k if rng.random() < 0.9 else k.upper())
        if rng.random() < 0.15:
            cites.insert(rng.randint(0, len(cites)), 'nosuchkey')
        if rng.random() < 0.1:
            cites.append('*')
    # a key cited twice in two spellings is an .aux error (C20): keep spellings consistent
    seen = {}
    cites = [seen.setdefault(c.lower(), c) for c in cites]
    groups = None
    if cites and rng.random() < 0.3:
        # LaTeX writes one \citation line per \cite command: several keys on one line, keys cited again later (same spelling)
        for _ in range(rng.randint(1, 3)):
            cites.insert(rng.randint(1, len(cites)), rng.choice(cites))
        groups, left = [], len(cites)
        while left:
            g = min(left, rng.randint(1, 3))
            groups.append(g)
            left -= g
    case = {'op': 'makebib', 'keys': keys, 'citations': cites, 'style': rng.choice(styles), 'min_crossrefs': rng.choice([1, 2, 2, 3]),
            'noise': [], 'style_override': None, 'yaml': False, 'cli': rng.random() < 0.4}
    if groups:
        case['aux_groups'] = groups
    r = rng.random()
    if r < 0.2:
        case['style_override'] = rng.choice([s for s in styles if s != case['style']])
    elif r < 0.35:
        case['yaml'] = True
    if '*' not in cites and not case['yaml']:
        r = rng.random()
        cited = {c.lower() for c in cites}
        needed = set(cited)
        if any(k in cited for k in ('inproc1', 'inproc2')):
            needed.add('proc')
        if r < 0.4:
            case['variant_noise'] = [[rng.randint(0, len(keys)), rng.randrange(len(NOISE))] for _ in range(rng.randint(1, 3))]
        elif r < 0.7:
            vk = [k for k in keys if k in needed or rng.random() < 0.5]
            case['variant_keys'] = vk
        elif r < 0.9:
            vk = list(keys)
            rng.shuffle(vk)
            if 'proc' in vk:
                vk.remove('proc')
                vk.append('proc')
            case['variant_keys'] = vk
    return case


def gen_cases(tier, rng, info):
    styles = STYLES_QUICK if tier == 'quick' else STYLES_ALL
    cases = []
    # small exhaustive part: every pair of entries x every citation list over them x style
    pairs = [('knuth84', 'art1'), ('inproc1', 'proc'), ('art2', 'tech1')]
    for a, b in pairs:
        for cites in ([a], [b], [a, b], [b, a], ['*'], [a.upper(), b], [b, 'nosuchkey'], [], ['nosuchkey']):
            for st in styles:
                for mc in (1, 2):
                    cases.append({'op': 'makebib', 'keys': [a, b], 'citations': cites, 'style': st, 'min_crossrefs': mc, 'noise': [],
                                  'style_override': None, 'yaml': False, 'variant_noise': [[0, 0], [2, 1]] if '*' not in cites else None})
    info['exhaustive'] = False
    info['scope'] = '%d small systematic cases + seeded random databases from a pool of %d entries' % (len(cases), len(POOL))
    for _ in range(350 if tier == 'quick' else 6000):
        cases.append(gen_case(rng, styles))
    return cases


LEVEL_TEXT = ('Machine-checked proofs (Lean 4) over an executable model of Engine.make_bibliography, BibTeXEngine.format_from_files and the '
              'whole BST interpreter (every built-in, READ / ITERATE / REVERSE / SORT): (1) the .aux entry point equals the explicit call byte '
              'for byte and explicit style / bib_format arguments override the .aux file / the default reader; (2) frame theorem, by '
              'simultaneous induction on fuel over the six mutually recursive interpreter functions: everything after READ depends on the '
              'database only through the view (type, own and inherited fields, crossref value) of the resolved citations, which is determined '
              'by their crossref closure - so two runs whose READ steps resolve the same citations on databases agreeing there produce the same '
              '.bbl, reports and printed output; inserting an uncited, unreferenced entry into a reader\'s entry list changes nothing; (3) for '
              'the schema READ; [SORT;] ITERATE {f} exactly one item per resolved citation, in citation / reverse / stable sort.key$ order.  '
              'Tied to the code by a byte-for-byte correspondence check of the model against the real engine on the standard styles '
              '(unsrt, plain, alpha) through both entry points with all override combinations, plus metamorphic checks on the implementation.')
LEVEL_NOTE = ('Trusted: Lean kernel; axioms propext/Classical.choice/Quot.sound only; the hand-written model corresponds to the code only as '
              'far as the differential check explores.  The step from "the two .bib files differ only in uncited, unreferenced entries or in '
              'order" to "the READ steps resolve the same citations on agreeing databases" is proved for insertion into a bib_format '
              'reader\'s entry list (C06_frame_uncited_alt) and reduced to explicit equalities otherwise (C06_frame_read); for .bib text it '
              'rests on C05\'s filtered-reading theorem (with its ordering proviso: a cross-referenced parent must follow its children) and '
              'on the correspondence check.  C06_one_item_per_citation takes "f emits exactly one item" as a hypothesis about the style '
              '(proved for a tiny style in the non-vacuity theorem, checked on the standard styles by the harness).  Whole-run theorems are '
              'stated for styles with a single READ (all styles in existence).')
