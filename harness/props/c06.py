"""C06 -- BibTeX-engine output depends only on the cited entries and the style."""
import os
import shutil
import tempfile

import compat  # noqa: F401
from props.base import corpus_for  # noqa: F401
from props import c01, c03

ID = 'C06'
LEAN_MODULES = ['PybtexModel.Props.C06', 'PybtexModel.Props.C06x']
THEOREMS = {
    'C06_aux_equiv': "[model wiring] the model DEFINES makeBibliography as Aux.parse followed by formatFromFiles on the .aux file's style, data names and citations: 'aux run = explicit call byte for byte' holds by construction (proved content: a successful parse has style and data); that the CODE does so is carried by the correspondence check",
    'C06_overrides': "[model wiring] part 1 (style= / bib_format= replace \\bibstyle / suffix+reader) unfolds makeBibliography - carried by the correspondence check over all override combinations; parts 2-4: with a reader database the model's READ stores it and never looks at .bib names or texts - by construction: the reader's own file access is NOT modelled",
    'C06_frame': 'frame property of the interpreter: if two databases agree on the view (type, own and inherited fields, crossref value) of the keys K, then from states that differ in the database only every built-in, token, function body, while$ loop, ITERATE/REVERSE over K, every command except READ and every READ-free program yields results that differ in the database only (or the same error) - for every amount of fuel',
    'C06_frame_closure': 'the view of a key is determined by its crossref closure: databases with the same entries on a crossref-closed key set agree on it - uncited, unreferenced entries and the order of entries are irrelevant',
    'C06_frame_read': 'reduction of the READ hypothesis: equal preamble, reader reports and citation resolution (C05) plus agreement on the resolved citations make the two READ steps leave states that differ in the database only',
    'C06_frame_run': 'two runs of a style pre;READ;post whose READ steps leave states differing in the database only, with databases agreeing on the resolved citations, are equal: same .bbl, reports, printed output or error',
    'C06_frame_reports': 'reports made before (e.g. by READ) do not matter: from states differing in the database and in the reports made so far a READ-free program gives the same error or final states differing only in the database and that prefix - same output lines, printed text and appended reports',
    'C06_frame_run_reports': 'two runs of a style pre;READ;post whose READ steps leave states differing in the database and in their reports, with databases agreeing on the resolved citations: same error, or same .bbl, printed output and reports after READ',
    'C06_frame_uncited_alt': 'adding or removing an uncited, not-yet-referenced entry in the entry list a bib_format reader delivers does not change the run at all',
    'C06_one_item_per_citation': 'for the schema READ; [SORT;] ITERATE {f} (and REVERSE), HYPOTHESIS: f, bound to the name in the command, appends exactly item k per call under an invariant Inv it maintains and the start state satisfies: one item per resolved citation, in citation order / reverse order / sortByKey order = a permutation ascending by sort.key$ in which equal keys keep citation order (stable)',
    'C06_sort_order_total': "the sort compares keys with a strict total order (Python's < on str): ties are exactly equal keys",
    'C06_aux_equiv_nonvacuous': 'non-vacuity: a three-line .aux, a two-entry .bib and a tiny style evaluate to the same .bbl through both entry points; an unreadable .aux is the error of the run',
    'C06_overrides_nonvacuous': 'non-vacuity: a sorting style overrides the unsorted \\bibstyle; the model uses a reader database without any file with the reader suffix (a run the real code cannot perform: its reader would raise on the missing file - reader file access is not modelled); same suffix without a reader database: cannot open',
    'C06_frame_closure_nonvacuous': 'non-vacuity: two example databases (entries in different order) satisfy the closure hypotheses',
    'C06_frame_nonvacuous': 'non-vacuity: the example databases agree on the cited keys, differ as databases, and the state after READ is a good state',
    'C06_frame_read_nonvacuous': 'non-vacuity: the hypotheses of the READ reduction hold for the two example readers',
    'C06_frame_run_nonvacuous': 'non-vacuity: the hypotheses of the run theorem hold for the two example readers and the runs are equal with the expected .bbl',
    'C06_frame_run_reports_nonvacuous': 'non-vacuity: the example readers satisfy the hypotheses of the reports variants (good READ state, agreeing databases)',
    'C06_frame_uncited_alt_nonvacuous': 'non-vacuity: an uncited entry standing between two cited ones satisfies the side condition',
    'C06_one_item_per_citation_nonvacuous': 'non-vacuity of the hypotheses on f only (hf, hcit): f = {cite$ write$ newline$} satisfies them for every state with InvEx and every key (fuel 10); three tiny styles evaluated to citation / reverse / sort-key order; a concrete stable sort. The state hypotheses (hs, hv) are instantiated in C06_one_item_per_citation_instance',
    'C06_one_item_per_citation_instance': 'instantiation of ALL hypotheses: the state after READ FUNCTION {f} {cite$ write$ newline$} on the example database satisfies InvEx and binds f (hs, hv), resolved citations a b; the theorem applied to it predicts the lines of ITERATE {f}, REVERSE {f}, SORT ITERATE {f}, and these commands do succeed from it with exactly those lines',
    'C06_bib_format_selects': '[model wiring] definitional unfolding of makeBibliography: bib_format hands suffix and reader database over as ONE Format object, none = bibtexFormat (.bib, no database); conjuncts 2-4 are rfl; that the code selects suffix and reader together is carried by the correspondence check (bib_format cases with a decoy or absent .bib file)',
    'C06_bib_format_selects_nonvacuous': 'non-vacuity: a reader delivering only entry b is used although refs.bib holds both entries; the same suffix without a reader database finds no file',
    'C06_entry_points': "[model wiring] formatFromString / formatFromFile are DEFINED as formatFromFiles on [.text t] / [.file n] (conjunct 2 is rfl); proved content: file sources whose files hold the texts read as the texts, hence format_from_files(names) = format_from_strings(texts); that the code's entry points agree is carried by the correspondence check",
    'C06_entry_points_nonvacuous': 'non-vacuity: the example .bib text through format_from_string, format_from_file and split into two strings',
    'C06_files_opened_by_read': "part 1 (real content): a READ-free prefix of known commands runs as in the file-less interpreter whatever the data sources are (a style without READ never needs them; an error before READ is the run's error); parts 2/3 [model wiring]: unfold stepF (READ opens the sources, missing file = cannotOpen; unknown command printed, skipped); the CODE's order of file access: correspondence check",
    'C06_files_opened_by_read_nonvacuous': 'non-vacuity: four miniature styles on a MISSING data file (no READ: output; raises before READ: that error; syntax error behind executed commands: surfaces after they ran, unless they raised first; with READ: cannot open) and an unknown command that is printed and skipped',
    'C06_frame_files': 'the frame theorem at the entry point: two format_from_files calls with the same style (pre; READ; post), citations and min_crossrefs on two file systems / source lists whose READ steps leave states differing in the database only, with databases agreeing on the resolved citations, return the same .bbl, reports, printed output or error',
    'C06_frame_files_nonvacuous': 'non-vacuity: the example style parses to ENTRY FUNCTION READ ITERATE, both example .bib files are read, the two calls give the same .bbl',
    'C06_order_general': 'the order clauses for the command skeleton of the shipped styles: every command other than READ and SORT (also ITERATE / REVERSE over any function) leaves the citation list and the database alone; mid; ITERATE {f} emits the items in citation order behind the output of mid; SORT; mid; ITERATE {f} emits them in sortByKey order of the citations paired with their sort.key$ at the time of the SORT (permutation, ascending, ties in the order before the SORT = citation order for the first SORT)',
    'C06_order_general_nonvacuous': 'non-vacuity: READ ITERATE {k} SORT STRINGS {x} ITERATE {k} REVERSE {k} ITERATE {f} has a mid without READ / SORT and gives the keys in sort-key order',
    'C06_item_starts_with_bibitem': 'for the output.bibitem ... skeleton of unsrt.bst / plain.bst (standard write$ / newline$ / cite$ bindings; output.bibitem begins newline$ "\\bibitem{" write$ cite$ write$ "}" write$ newline$): one call appends lines STARTING with the pending line and \\bibitem{k}; ITERATE under a kept invariant appends as many blocks as citations, in citation order, each BEGINNING with \\bibitem{k} - the rest of a block is unconstrained (not proved free of further \\bibitem)',
    'C06_item_starts_with_bibitem_nonvacuous': 'non-vacuity: a style with the standard output.bibitem and ITERATE {call.type$} produces \\bibitem{a} ... \\bibitem{b} ...',
    'C06_frame_reordered': "the database file is reordered: two readings that deliver the same entry under every key (in any order), with equal preamble and reader reports and no '*' cited, make READ resolve the same citations with the same reports and leave states differing in the database only, with agreeing databases - the READ hypothesis of C06_frame_run / C06_frame_files, hence equal runs",
    'C06_frame_reordered_nonvacuous': 'non-vacuity: the two example readers deliver the same entry under every key in different orders',
    'C06_frame_swap_alt': "reordering the entry list a bib_format reader delivers: two neighbours change places - if their keys differ up to case, neither is the crossref target of the other (parent-after-child proviso) nor refers to '*', at most one repeats an earlier key and no '*' is cited, the whole run (.bbl, reports, printed output, or the error) is the same for both orders",
    'C06_frame_swap_alt_nonvacuous': 'non-vacuity: the example list noise a b / noise b a satisfies the conditions; the run gives a, b',
    'C06_item_starts_with_bibitem_alpha': "the same for alpha.bst's output.bibitem (newline$ \"\\bibitem[\" write$ label write$ \"]{\" write$ cite$ write$ \"}\" write$ newline$): the lines appended for entry k start with the pending line and \\bibitem[L]{k}, L the text of k's label variable",
    'C06_splitext_spec': "os.path.splitext (model of genericpath._splitext with os.sep / os.extsep of the running interpreter), for every path: root + ext = path; ext is empty, or '.' followed by characters other than '.' and '/', and then the last component of root has a character other than '.' (leading dots are never an extension)",
    'C06_splitext_spec_nonvacuous': 'non-vacuity: /D.d/my.doc.aux, a name without extension, a hidden file, ..a.b, x.',
    'C06_splitext_append': "complete converse for an appended extension: b + '.' + x (x without '.' and '/') splits into (b, '.x') exactly when the last component of b has a character other than '.', otherwise nothing is split off - no further hypothesis",
    'C06_splitext_append_nonvacuous': 'non-vacuity: both branches (/D/doc; a directory name with a trailing slash; ..)',
    'C06_cli_aux_name': "the command line's .aux name (PybtexCommandLine.run), HYPOTHESIS: the last component of b has a character other than '.': splitext(b.aux) = (b, .aux); b.aux is handed on unchanged; b becomes b.aux unless its own extension is .aux; the rule is idempotent - pybtex b and pybtex b.aux name the same file",
    'C06_cli_aux_name_nonvacuous': 'non-vacuity: /D.d/doc, /D.d/doc.aux, /D/doc.tex',
    'C06_cli_aux_name_neg': "the hypothesis is needed: for the empty name and for a name ending in '/' the rule appends .aux again when applied twice (.aux -> .aux.aux)",
    'C06_explicit_output': '[model wiring] output side of format_from_files: no output_filename = the text is returned; name + add_output_suffix = the SAME text written to name.bbl, nothing returned; add_output_suffix without a name = TypeError raised after the run (an error of the run comes first); empty name without suffix = no name. Proved content: same text in both, name.bbl never empty',
    'C06_output_beside_aux': "[model wiring] part 1 unfolds makeBibliographyTo (the run first, then output_filename = splitext(aux)[0], add_output_suffix = True; proved content: name + '.bbl' is never empty, so the text is written, never returned, and no TypeError arises); that the CODE does so: correspondence check. Part 2 (proved): for an .aux name b.aux (last component of b not only dots) the file written is b.bbl",
    'C06_aux_equiv_output': '[model wiring] .aux run = explicit call INCLUDING the output: HYPOTHESIS the .aux file parses; then make_bibliography is format_from_files on the \\bibdata names + reader suffix, the (overridden) style, the citations, output_filename = splitext(aux)[0], add_output_suffix = True, and the text it writes is the text the same explicit call returns when given no output name (unfolding + parse_ok_style_data); that the CODE does so: correspondence check',
    'C06_cli_run': "[model wiring] the three branches of the model's PybtexCommandLine.run (cliRun): unknown style language = usage error; BibTeX language with a Pythonic option set = usage error naming the first one in dict order; none set = make_bibliography on cliAuxName(filename) with unset encodings replaced by --encoding (proved content: no option set => firstUnsupported = none); that the CODE decides so: correspondence check with the recording engine",
    'C06_cli_run_nonvacuous': 'non-vacuity: four concrete option sets (encoding defaults incl. an empty string, two Pythonic options, language perl, language python)',
    'C06_cli_same_run': "HYPOTHESES: last component of b not only dots, extension of b is not .aux, BibTeX language, no Pythonic option: the command line run on b and on b.aux are both make_bibliography('b.aux') with its output (same error or same text written to b.bbl) (the encodings computed by cliRun are not passed on in the model; content = both invocations hand the name b.aux to make_bibliography)",
    'C06_aux_equiv_in_place': "composition with C20's specification of the .aux reader: HYPOTHESES closedDepth (every \\@input file exists, nesting depth d <= fuel) and no fatal problem; then make_bibliography is format_from_files on the first \\bibdata names + suffix, the first \\bibstyle (or the override) and the citations of Spec.events = the \\citation keys in reading order with every \\@input file unfolded IN PLACE, written to splitext(aux)[0] + .bbl, the reader's reports riding along",
    'C06_aux_equiv_in_place_nonvacuous': 'non-vacuity: main.aux (alpha, \\@input ch1, omega), ch1.aux (beta, \\@input ch1a, delta), ch1a.aux (gamma) is closed at depth 3, not fatal, and denotes alpha beta gamma delta omega, style unsrt, data refs',
    'C06_model_literals': "the literals Model/Engine.lean hard-codes equal the ones regenerated from /repo on this run (Gen/EngineConsts.lean): default reader suffix .bib, style + extsep + 'bst', the .bib names, Interpreter's command_* method names = BstParser.COMMANDS lower-cased, the command line's default min_crossrefs / style language = the API's (finite facts by decide; two list identities)",
    'C06_style_file_name': "the style file name style + extsep + 'bst': different style names designate different files (no part of the name is dropped); for a style name whose last component is not only dots os.path.splitext of the file name gives back the whole style name (house.unsrt.bst belongs to house.unsrt, not to house); [model wiring] the model's format_from_files opens this name and no other for the style (no text there = cannotOpen of this name) - that the CODE does so: correspondence check + oracle clauses style / override_style on dotted style names",
    'C06_style_file_name_nonvacuous': 'non-vacuity: /D/house.unsrt -> /D/house.unsrt.bst, /D/house -> /D/house.bst, splitext(/D/house.unsrt.bst) = (/D/house.unsrt, .bst)',
    'C06_item_starts_with_bibitem_alpha_nonvacuous': 'non-vacuity: a style with that output.bibitem and labels computed in an earlier ITERATE pass produces \\bibitem[Z]{a} \\bibitem[Y]{b}',
}
RULE = ('databases drawn from a pool of realistic entries (all standard types, cross-references, braces, special characters, a group of entries '
        'identical up to the key = sort-key ties, a group with one alpha label = label collisions, non-ASCII text) with random subsets / '
        'permutations (parents after their children), noise entries inserted anywhere, one file or the same text split into two files, '
        "citation lists with and without '*', unknown keys, case variants and repeated keys, each standard style of tests/data (unsrt, plain, "
        'alpha; thorough: unsrt_mixed, IEEEtran, jurabib, apacite too) plus six generated miniature styles (REVERSE-computed sort keys, no READ, an '
        'error before READ, a syntax error behind executed commands), every entry point (make_bibliography through a generated .aux, the '
        'command line, format_from_files / _file / _string / _strings, the default citations argument, Interpreter.run with an unknown '
        'command), every combination of style= / bib_format= override (YAML copy beside a decoy or absent .bib file), output_encoding / '
        'bib_encoding; .aux files that \\@input other .aux files (depth 1-2, citations in front of, inside and behind the \\@input line), '
        'style NAMES with a dot in the last path component (house.unsrt, IEEEtran.v2, a.b.c, house.bst, x., a dotted directory, a hidden '
        'name; random stem.suffix names) with and without a second style file named after the part in front of the last dot that holds '
        'ANOTHER style, requested through \\bibstyle, style= / --style and format_from_files / _file / _string(s), each compared with the '
        'same style file under a dot-free name (clauses style / override_style); '
        '.aux files with a second or without \\bibstyle / \\bibdata, fifteen names of the .aux file (several dots, hidden files, dotted '
        'directories, no extension) through make_bibliography and the command line with the written file located by listing the '
        "directory; function level: os.path.splitext and the command line's .aux name on every string over {a . /} up to length 5 "
        '(thorough 6) + random strings, the output side of format_from_files (7 names x add_output_suffix), PybtexCommandLine.run '
        'with a recording engine (style languages x encoding options x Pythonic options); non-trivial = at least two cited entries '
        '(splitext: a non-empty extension); distinct by case JSON')
TRUSTED = ['the standard .bst files are inputs (not modelled); the YAML reader is used as is for the bib_format override',
           'optparse (option parsing itself; PybtexCommandLine.run is driven directly with engine.make_bibliography replaced by a recorder)',
           'the posix path model (os.sep, os.extsep read from the running interpreter; os.altsep must be None)',
           'real temp files under a private directory outside /repo and /verif']
ASSUMPTIONS = ['ASCII field values except in the note field (lower-case Latin-1 letters); parents occur after the children that reference '
               "them (C05 ordering proviso); 'the file is reordered' is checked for citation lists without '*' (with '*' the file order IS "
               'the citation order)']

POOL = {
    'knuth84': '@book{knuth84, author = {Donald E. Knuth}, title = {The {\\TeX}book}, publisher = {Addison-Wesley}, year = 1984}',
    'lamport86': '@book{lamport86, author = "Leslie Lamport", title = "{\\LaTeX}: A Document Preparation System", publisher = {Addison-Wesley}, year = 1986, edition = "Second"}',
    'art1': '@article{art1, author = {Jean de La Fontaine and Victor Hugo}, title = {An article title: with Colon}, journal = {J. of Things}, year = 1990, volume = 3, number = 2, pages = {1--10}, month = jan}',
    'art2': "@article{art2, author = {{\\'E}mile Zola and others}, title = {another title}, journal = {J. of Things}, year = {1990}, pages = {11-20}, note = {A note}}",
    'inproc1': '@inproceedings{inproc1, author = {Ann B. Cee}, title = {In proc one}, crossref = {proc}, pages = {5--6}}',
    'inproc2': '@inproceedings{inproc2, author = {Dee E. Eff and Gee Aitch}, title = {In proc two}, crossref = {proc}}',
    'proc': '@proceedings{proc, editor = {Ed Itor}, title = {Proceedings of the Conference}, booktitle = {Proc. Conf.}, year = 2001, publisher = {ACM}, address = {New York}}',
    'misc1': '@misc{misc1, title = {Untitled misc}, howpublished = {Web}, year = 2010, month = dec}',
    'tech1': '@techreport{tech1, author = {von Beethoven, Jr, Ludwig}, title = {A report}, institution = {MIT}, year = 1999, number = {TR-1}}',
    'phd1': '@phdthesis{phd1, author = {Q. R. Student}, title = {Thesis title}, school = {Uni}, year = 2005}',
    'unpub1': '@unpublished{unpub1, author = {No Body}, title = {Unpublished work}, note = {Draft}}',
    'book2': '@book{book2, editor = {Aaa Bbb and Ccc Ddd and Eee Fff}, title = {Edited volume}, publisher = {Pub}, year = 1984, volume = 7, series = {Lecture Notes}}',
    'incoll1': '@incollection{incoll1, author = {X. Y. Zed}, title = {A chapter}, booktitle = {The Collection}, publisher = {Pub}, year = 1995, chapter = 3, pages = {100--120}}',
    'manual1': '@manual{manual1, title = {The Manual}, organization = {Org}, year = 2020}',
}
# entries identical up to the key: equal sort keys in every sorting style (ties must keep citation order)
TIES = ['tieq', 'tiem', 'tiea', 'tiez']
for _k in TIES:
    POOL[_k] = '@article{%s, author = {Tom Tie}, title = {Tied title}, journal = {J. of Ties}, year = 2003}' % _k
# entries with one alpha label (Col07) and different titles: alpha.bst tells them apart by a letter handed out in REVERSE {reverse.pass}
COLLIDE = ['colg', 'cola', 'colb']
for _k, _t in zip(COLLIDE, ('Gamma rays', 'Alpha rays', 'Beta rays')):
    POOL[_k] = '@article{%s, author = {Carl Collide}, title = {%s}, journal = {J. of Rays}, year = 2007}' % (_k, _t)
# non-ASCII text (Latin-1, lower case) in a field no style inspects letter by letter
POOL['uni1'] = '@misc{uni1, author = {Uni Code}, title = {Encoded note}, note = {caf\u00e9 na\u00efve \u00fcber stra\u00dfe \u00e0 \u00f1}, year = 2011}'
ORDER = list(POOL)
NOISE = ['@misc{noise1, title = {Noise one}, year = 1900}', '@article{noise2, author = {N. Oise}, title = {Noise two}, journal = {Nowhere}, year = 1901}',
         '@string{unusedmacro = "zzz"}', '@comment{ignored}']
STYLES_QUICK = ['unsrt', 'plain', 'alpha']
STYLES_ALL = ['unsrt', 'plain', 'alpha', 'unsrt_mixed']
# the large styles of tests/data: used in the thorough tier on the entries the model was found to agree on byte for byte
STYLES_LARGE = ['IEEEtran', 'jurabib', 'apacite']

_ITEM = 'FUNCTION {out} {"\\bibitem{" cite$ * "}" * write$ newline$}\n'
# generated miniature styles ("any .bst style"): what the standard styles never do
MINI = {
    # keys only, citation order
    'mini_keys': 'ENTRY {title}{}{}\n' + _ITEM + 'READ\nITERATE {out}\n',
    # sorted on the title (missing titles sort first)
    'mini_sorted': 'ENTRY {title}{}{}\nFUNCTION {pre} {title \'sort.key$ :=}\n' + _ITEM + 'READ\nITERATE {pre}\nSORT\nITERATE {out}\n',
    # the sort keys are numbered in a REVERSE pass: the last citation gets the smallest key
    'mini_revkey': ('ENTRY {title}{}{}\nINTEGERS {n}\nFUNCTION {num} {n #1 + \'n := "k" n int.to.str$ * \'sort.key$ :=}\n' + _ITEM +
                    'READ\nREVERSE {num}\nSORT\nITERATE {out}\n'),
    # two sorts: on the title, then on the year (entries with equal years stay in title order)
    'mini_twosorts': ('ENTRY {title year}{}{}\nFUNCTION {pre} {title \'sort.key$ :=}\nFUNCTION {pre2} {year \'sort.key$ :=}\n' + _ITEM +
                      'READ\nITERATE {pre}\nSORT\nITERATE {pre2}\nSORT\nITERATE {out}\n'),
    # no READ at all: the database files are never opened
    'mini_noread': 'ENTRY {}{}{}\nFUNCTION {out} {"no database needed" write$ newline$}\nEXECUTE {out}\n',
    # raises before READ: the error of the run is this one, whatever the database files are
    'mini_raise': 'ENTRY {}{}{}\nFUNCTION {bad} {pop$}\nEXECUTE {bad}\nREAD\n',
    # a syntax error behind executed commands: the script is parsed command by command while it runs
    'mini_syntax': 'ENTRY {title}{}{}\n' + _ITEM + 'READ\nITERATE {out}\nBOGUS {x}\n',
    # entry integers and entry strings (ENTRY's second and third group), set in one pass and read in the next
    'mini_entryvars': ('ENTRY {title}{cnt}{lab}\nINTEGERS {n}\nFUNCTION {num} {n #1 + \'n := n \'cnt := "L" n int.to.str$ * \'lab :=}\n'
                       'FUNCTION {out} {"\\bibitem{" cite$ * "}" * write$ newline$ lab write$ cnt int.to.str$ write$ newline$}\n'
                       'READ\nREVERSE {num}\nITERATE {out}\n'),
    # a name declared twice: add_variable raises before READ
    'mini_redeclare': 'ENTRY {title}{}{}\nFUNCTION {title} {}\nREAD\n',
    'mini_raise_syntax': 'ENTRY {}{}{}\nFUNCTION {bad} {pop$}\nEXECUTE {bad}\nBOGUS {x}\n',
}

_STYLE_TEXT = {}


def style_text(name):
    if name in MINI:
        return MINI[name]
    if name not in _STYLE_TEXT:
        with open(os.path.join(compat.REPO, 'tests', 'data', name + '.bst'), encoding='utf-8') as f:
            _STYLE_TEXT[name] = f.read()
    return _STYLE_TEXT[name]


def style_files(case):
    """family dotted-style: the style files of the case beyond <style>.bst / <style_override>.bst as a dict file stem -> the style
    whose text it holds.  case['style_files'] = [[name, base], ...]: the file <name>.bst holds the text of style <base> (a shipped or
    miniature style).  The style NAME handed to the engine may contain dots (house.unsrt -> house.unsrt.bst); a second file named
    after the part in front of the last dot (house.bst) holds ANOTHER style, so that a run that looks the style up under another
    name than <style> + '.bst' produces the wrong bibliography instead of an error."""
    return {n: b for n, b in (case.get('style_files') or [])}


def base_style(case, name):
    """the shipped / miniature style whose text the style file <name>.bst of the case holds"""
    return style_files(case).get(name, name)


def case_style_text(case, name):
    return style_text(base_style(case, name))


REF_STYLE = 'refstyle'     # family dotted-style: the text of the effective style once more, under a name without any dot


_TMP = {}
_ROOT = []


def _root():
    """one private directory per check run, created (and removed at exit) by the process that generates the cases; worker
    processes forked later use sub-directories of it"""
    if not _ROOT:
        base = '/dev/shm' if os.access('/dev/shm', os.W_OK) else None
        _ROOT.append((os.getpid(), tempfile.mkdtemp(prefix='verif-c06-', dir=base)))
        import atexit
        atexit.register(_cleanup, os.getpid(), _ROOT[0][1])
    return _ROOT[0][1]


def _cleanup(pid, d):
    if os.getpid() == pid:
        shutil.rmtree(d, True)


def _tmpdir():
    d = _TMP.get(os.getpid())
    if d is None:
        d = os.path.join(_root(), str(os.getpid()))
        os.makedirs(d, exist_ok=True)
        _TMP[os.getpid()] = d
    return d


def bib_parts(case, keys=None, noise=None):
    keys = case['keys'] if keys is None else keys
    parts = [POOL[k] for k in keys]
    for pos, n in (case.get('noise', []) if noise is None else noise):
        parts.insert(min(pos, len(parts)), NOISE[n])
    return parts


def bib_text(case, keys=None, noise=None):
    return '\n\n'.join(bib_parts(case, keys, noise)) + '\n'


def bib_texts(case):
    """the database file(s) of the case: one file, or the same commands split into two files at case['split']"""
    parts = bib_parts(case)
    sp = case.get('split')
    if sp is None:
        return ['\n\n'.join(parts) + '\n']
    sp = max(0, min(sp, len(parts)))
    return ['\n\n'.join(parts[:sp]) + '\n', '\n\n'.join(parts[sp:]) + '\n']


BIB_NAMES = ['refs', 'refs2']


def decoy_text(text):
    """the same entries with other titles: what a run that ignores bib_format would read"""
    return text.replace('title = {', 'title = {Decoy ').replace('title = "', 'title = "Decoy ')


def _write(path, text, encoding='utf-8'):
    os.makedirs(os.path.dirname(path), exist_ok=True)
    with open(path, 'w', encoding=encoding, newline='') as f:
        f.write(text)


def _run(fn):
    import contextlib
    import pybtex.io
    import io as _io
    from pybtex import errors
    from pybtex.exceptions import PybtexError
    old_out = pybtex.io.stdout
    pybtex.io.stdout = _io.StringIO()
    sysout = _io.StringIO()
    try:
        with contextlib.redirect_stdout(sysout):
            with errors.capture() as captured:
                r = fn()
        return {'bbl': r, 'reports': [c03.canon_report(e) for e in captured if type(e).__name__ != 'AuxDataError'],
                'aux_errors': sum(1 for e in captured if type(e).__name__ == 'AuxDataError'), 'stdout': sysout.getvalue()}
    except PybtexError as e:
        if type(getattr(e, 'parser', None)).__name__ == 'BstParser':
            return {'error': ['BST-SYNTAX']}
        return {'error': [type(e).__name__]}
    except Exception as e:  # noqa
        return {'error': ['INTERNAL'], 'detail': '%s: %s' % (type(e).__name__, e)}
    finally:
        pybtex.io.stdout = old_out


def eff_style(case):
    return case.get('style_override') or case['style']


def flatten_tree(tree):
    """the citations of an .aux tree (a list whose items are keys or, for an \\@input file, such lists) in the order a reader that
    processes \\@input IN PLACE meets them"""
    out = []
    for item in tree:
        out.extend(flatten_tree(item) if isinstance(item, list) else [item])
    return out


def _style_data_lines(case, d):
    """the \\bibstyle / \\bibdata lines of the top file; case['aux_extra']: dup_style / dup_data (a second command: reported, ignored),
    no_style / no_data (fatal)"""
    extra = case.get('aux_extra') or ''
    out = []
    if extra != 'no_style':
        out.append('\\bibstyle{%s}' % (d + '/' + case['style']))
    if extra == 'dup_style':
        out.append('\\bibstyle{%s}' % (d + '/nosuchstyle'))
    if extra != 'no_data':
        out.append('\\bibdata{%s}' % ','.join(d + '/' + n for n in BIB_NAMES[:len(bib_texts(case))]))
    if extra == 'dup_data':
        out.append('\\bibdata{%s}' % (d + '/nosuchdata'))
    return out


def aux_file_set(case, d):
    """all .aux files of the case as (path, lines), the top file first; nested files are named in1.aux, in2.aux, ... in the order
    of their \\@input lines (depth first)"""
    if not case.get('aux_tree'):
        return [(d + '/' + aux_name(case), aux_lines(case, d))]
    files, counter = [], [0]

    def build(tree):
        lines = []
        for item in tree:
            if isinstance(item, list):
                counter[0] += 1
                name = '%s/in%d.aux' % (d, counter[0])
                slot = len(files)
                files.append(None)
                files[slot] = (name, ['\\relax '] + build(item))
                lines.append('\\@input{%s}' % name)
            else:
                lines.append('\\citation{%s}' % item)
        return lines
    main = ['\\relax '] + build(case['aux_tree']) + _style_data_lines(case, d)
    return [(d + '/' + aux_name(case), main)] + files


def aux_name(case):
    """the name of the top .aux file relative to the working directory (family paths: other names than doc.aux)"""
    return case.get('aux_name') or 'doc.aux'


def _listing(d):
    out = set()
    for root, _dirs, fs in os.walk(d):
        for f in fs:
            out.add(os.path.relpath(os.path.join(root, f), d))
    return out


def aux_lines(case, d):
    if case.get('aux_tree'):
        return aux_file_set(case, d)[0][1]
    return ['\\relax '] + _citation_lines(case) + _style_data_lines(case, d)


def yaml_text(case):
    from pybtex import errors
    from pybtex.database import parse_string
    with errors.capture():
        return parse_string(bib_text(case), 'bibtex').to_string('yaml')


def setup_files(case, d):
    """Write style, bib (or yaml copy + decoy bib) and aux files."""
    enc = case.get('enc') or 'utf-8'
    for st in sorted(set([case['style']] + ([case['style_override']] if case.get('style_override') else []) + list(style_files(case)))):
        _write(os.path.join(d, st + '.bst'), case_style_text(case, st))
    if case.get('style_ref'):
        _write(os.path.join(d, REF_STYLE + '.bst'), case_style_text(case, eff_style(case)))
    texts = bib_texts(case)
    if case.get('yaml'):
        # the bib_format override must be observable: beside refs.yaml there is either no refs.bib at all or one with other titles
        _write(os.path.join(d, 'refs.yaml'), yaml_text(case), enc)
        if case.get('decoy', True):
            _write(os.path.join(d, 'refs.bib'), decoy_text(texts[0]), enc)
        _write(os.path.join(d, 'plain_copy.bib'), texts[0], enc)
    elif not case.get('missing_bib'):
        for n, t in zip(BIB_NAMES, texts):
            _write(os.path.join(d, n + '.bib'), t, enc)
    for path, lines in aux_file_set(case, d):
        _write(path, '\n'.join(lines) + '\n', enc)


def _yaml_parser():
    from pybtex.database.input.bibyaml import Parser as YamlParser
    return YamlParser


def run_aux(case, d):
    from pybtex.bibtex import make_bibliography
    kw = {'min_crossrefs': case['min_crossrefs']}
    if case.get('style_override'):
        kw['style'] = os.path.join(d, case['style_override'])
    if case.get('yaml'):
        kw['bib_format'] = _yaml_parser()
    enc = case.get('enc')
    if enc:
        kw['output_encoding'] = enc
        kw['bib_encoding'] = enc
    raw = {}

    def go():
        before = _listing(d)
        ret = make_bibliography(d + '/' + aux_name(case), **kw)
        new = sorted(_listing(d) - before)
        raw['new'], raw['ret'] = new, ret
        if len(new) != 1:
            raise RuntimeError('make_bibliography wrote %r' % (new,))
        with open(os.path.join(d, new[0]), 'rb') as f:
            raw['bytes'] = f.read()
        os.unlink(os.path.join(d, new[0]))
        return raw['bytes'].decode(enc or 'utf-8')
    r = _run(go)
    if 'bytes' in raw and 'error' not in r:
        r['hex'] = raw['bytes'].hex()
        r['written'] = ['file', '/D/' + raw['new'][0]]
        r['returned'] = raw['ret']
    return r


def run_cli(case, d):
    """the command line front end: `pybtex doc.aux [--style S] [-f yaml] --min-crossrefs N` (option plumbing of __main__.py)"""
    import io as _io
    import sys
    import pybtex.io
    from pybtex import errors
    from pybtex.__main__ import main
    argv = ['pybtex', d + '/' + (case['cli_name'] if case.get('cli_name') is not None else aux_name(case)), '--min-crossrefs', str(case['min_crossrefs'])]
    if case.get('style_override'):
        argv += ['--style', os.path.join(d, case['style_override'])]
    if case.get('yaml'):
        argv += ['-f', 'yaml']
    before = _listing(d)
    old = (sys.argv, errors.strict, errors.error_code, pybtex.io.stderr, pybtex.io.stdout, sys.stderr)
    sys.argv = argv
    pybtex.io.stderr = sys.stderr = _io.StringIO()
    pybtex.io.stdout = _io.StringIO()
    try:
        try:
            main()
            code = 0
        except SystemExit as e:
            code = e.code
        except Exception as e:  # noqa
            return {'error': ['INTERNAL'], 'detail': '%s: %s' % (type(e).__name__, e)}
        new = sorted(_listing(d) - before)
        if len(new) != 1:
            return {'error': ['no-output'], 'code': code, 'new': new}
        with open(os.path.join(d, new[0]), encoding='utf-8', newline='') as f:
            text = f.read()
        os.unlink(os.path.join(d, new[0]))
        return {'bbl': text, 'code': code, 'written': ['file', '/D/' + new[0]]}
    finally:
        sys.argv, errors.strict, errors.error_code, pybtex.io.stderr, pybtex.io.stdout, sys.stderr = old


def _files_kw(case, yaml):
    kw = {'min_crossrefs': case['min_crossrefs'], 'citations': list(case['citations'])}
    if yaml:
        kw['bib_format'] = _yaml_parser()
    if case.get('enc'):
        kw['bib_encoding'] = case['enc']
    return kw


def run_files(case, d, keys=None, noise=None, yaml=None, single=False, how='files', style_name=None):
    """the explicit call.  how = files | file | string | default (no citations argument) | bytes (written to a file as make_bibliography does)"""
    from pybtex.bibtex import BibTeXEngine
    eng = BibTeXEngine()
    yaml = bool(case.get('yaml')) if yaml is None else yaml
    enc = case.get('enc') or 'utf-8'
    style = os.path.join(d, style_name or eff_style(case))
    kw = _files_kw(case, yaml)
    if keys is not None or noise is not None or single:
        _write(os.path.join(d, 'variant.bib'), bib_text(case, keys, noise), enc)
        paths = [os.path.join(d, 'variant.bib')]
    elif yaml:
        paths = [os.path.join(d, 'refs.yaml')]
    elif case.get('yaml'):
        paths = [os.path.join(d, 'plain_copy.bib')]
    else:
        paths = [os.path.join(d, n + '.bib') for n in BIB_NAMES[:len(bib_texts(case))]]
    import pybtex.bibtex as _mod     # the module-level convenience functions named in observe_at
    if how == 'file':
        return _run(lambda: _mod.format_from_file(paths[0], style=style, **kw))
    if how == 'string':
        texts = [yaml_text(case)] if yaml else bib_texts(case)
        kw.pop('bib_encoding', None)
        if len(texts) == 1:
            return _run(lambda: _mod.format_from_string(texts[0], style=style, **kw))
        return _run(lambda: _mod.format_from_strings(texts, style=style, **kw))
    if how == 'default':
        del kw['citations']
        return _run(lambda: _mod.format_from_files(paths, style=style, **kw))
    if how == 'bytes':
        raw = {}

        def go():
            out = os.path.join(d, 'explicit')
            eng.format_from_files(paths, style=style, output_encoding=enc, output_filename=out, add_output_suffix=True, **kw)
            with open(out + '.bbl', 'rb') as f:
                raw['bytes'] = f.read()
            return raw['bytes'].decode(enc)
        r = _run(go)
        if 'bytes' in raw and 'error' not in r:
            r['hex'] = raw['bytes'].hex()
        return r
    return _run(lambda: eng.format_from_files(paths, style=style, **kw))


def run_inject(case, d):
    """Interpreter.run on the parsed script of the style with an unknown command put in at a position"""
    from pybtex.bibtex import bst
    from pybtex.bibtex.interpreter import Interpreter
    from pybtex.database.input.bibtex import Parser
    pos, name = case['inject']
    paths = [os.path.join(d, n + '.bib') for n in BIB_NAMES[:len(bib_texts(case))]]

    def go():
        script = list(bst.parse_file(os.path.join(d, eff_style(case)) + '.bst'))
        script.insert(pos, [name])
        return Interpreter(Parser, None).run(script, list(case['citations']), paths, min_crossrefs=case['min_crossrefs'])
    return _run(go)


# The quick tier has fewer cases than check.py's threshold for its process pool; every case costs four to six runs of the real
# engine (~0.1 s).  gen_cases therefore computes impl() for its cases in a fork pool (the same function, the same working tree)
# and impl() hands each precomputed result out ONCE; replays, shrinks and anything not precomputed run in-process as usual.
_PRE = {}


def _key(case):
    import json
    return json.dumps(case, sort_keys=True, ensure_ascii=False)


def _impl_worker(case):
    import signal

    def _alarm(*_a):
        raise TimeoutError()
    old = signal.signal(signal.SIGALRM, _alarm)
    signal.setitimer(signal.ITIMER_REAL, 60)
    try:
        return _impl(case)
    except BaseException:  # noqa: left to the in-process call, which reports it through check.py
        return None
    finally:
        signal.setitimer(signal.ITIMER_REAL, 0)
        signal.signal(signal.SIGALRM, old)


def _prefetch(cases):
    import multiprocessing
    n = int(os.environ.get('VERIF_C06_PREFETCH', min(16, os.cpu_count() or 1)))
    if n <= 1 or len(cases) >= 3000 or multiprocessing.current_process().name != 'MainProcess':
        return
    try:
        with multiprocessing.get_context('fork').Pool(n) as pool:
            for c, o in zip(cases, pool.map(_impl_worker, cases, chunksize=4)):
                if o is not None:
                    _PRE[_key(c)] = o
    except Exception:  # noqa
        _PRE.clear()


def impl(case):
    o = _PRE.pop(_key(case), None) if _PRE else None
    return o if o is not None else _impl(case)


def _impl(case):
    if case['op'] != 'makebib':
        return _fn_impl(case)
    d = os.path.join(_tmpdir(), 'w')
    shutil.rmtree(d, True)
    os.makedirs(d)
    try:
        setup_files(case, d)
        out = {'aux': run_aux(case, d), 'files': run_files(case, d, how='bytes' if case.get('enc') else 'files')}
        if case.get('cli'):
            out['cli'] = run_cli(case, d)
        # the other entry points named in the quantifier
        if case.get('entry') in ('file', 'string', 'default'):
            out[case['entry']] = run_files(case, d, how=case['entry'])
        if case.get('inject'):
            out['inject'] = run_inject(case, d)
        if case.get('style_ref'):
            # the same style file under a name without a dot
            out['style_ref'] = run_files(case, d, style_name=REF_STYLE)
        for how in case.get('entries') or []:
            out[how] = run_files(case, d, how=how)
        # metamorphic variants (implementation only)
        if case.get('variant_keys') is not None or case.get('variant_noise') is not None:
            out['variant'] = run_files(case, d, keys=case.get('variant_keys'), noise=case.get('variant_noise'))
        if case.get('split') is not None and not case.get('missing_bib'):
            out['single'] = run_files(case, d, single=True)
        if case.get('yaml'):
            out['bibtex_db'] = run_files(case, d, yaml=False)
        # resolved citations as the property defines them (unfiltered database, then selection)
        from pybtex import errors
        from pybtex.database import parse_string
        with errors.capture():
            db = parse_string(bib_text(case), 'bibtex')
            res = db.add_extra_citations(list(case['citations']), case['min_crossrefs'])
        out['resolved'] = [k for k in res if k in db.entries]
        out['dir'] = d
        out['view'] = case.get('view') or 'aux'
        return out
    finally:
        shutil.rmtree(d, True)


def to_request(case):
    if case['op'] != 'makebib':
        return _fn_request(case)
    d = '/D'
    texts = [[d + '/' + case['style'] + '.bst', case_style_text(case, case['style'])]]
    if case.get('style_override'):
        texts.append([d + '/' + case['style_override'] + '.bst', case_style_text(case, case['style_override'])])
    for st in sorted(style_files(case)):
        if st not in (case['style'], case.get('style_override')):
            texts.append([d + '/' + st + '.bst', case_style_text(case, st)])
    bt = bib_texts(case)
    if case.get('yaml'):
        if case.get('decoy', True):
            texts.append([d + '/refs.bib', decoy_text(bt[0])])
    elif not case.get('missing_bib'):
        for n, t in zip(BIB_NAMES, bt):
            texts.append([d + '/' + n + '.bib', t])
    req = {'op': 'makebib', 'aux_files': [[pth, lines] for pth, lines in aux_file_set(case, d)], 'texts': texts,
           'min_crossrefs': case['min_crossrefs'], 'alt': None}
    if case.get('yaml'):
        from pybtex import errors
        from pybtex.database import parse_string
        with errors.capture():
            ydb = parse_string(yaml_text(case), 'yaml')
        entries, preamble = c01.canon_db(ydb)
        req['alt'] = {'entries': entries, 'preamble': preamble}
    view = case.get('view') or 'aux'
    if view == 'aux':
        if case.get('cli_name') is not None:
            req['cli_name'] = d + '/' + case['cli_name']
        req.update({'mode': 'aux', 'top': d + '/' + aux_name(case),
                    'style_override': (d + '/' + case['style_override']) if case.get('style_override') else None,
                    'bib_format': {'suffix': '.yaml'} if case.get('yaml') else None})
    else:
        if view == 'string':
            srcs = [['text', yaml_text(case)]] if case.get('yaml') else [['text', t] for t in bt]
        else:
            srcs = [['file', d + '/refs.yaml']] if case.get('yaml') else [['file', d + '/' + n + '.bib'] for n in BIB_NAMES[:len(bt)]]
        req.update({'mode': 'inject' if view == 'inject' else 'files', 'srcs': srcs, 'style': d + '/' + eff_style(case),
                    'citations': list(case['citations'])})
        if view == 'inject':
            req['inject_pos'], req['inject_name'] = case['inject']
    return req


def _norm_paths(s, d):
    return s.replace(d, '/D') if isinstance(s, str) else s


def compare_view(io):
    """the run the model is compared with: the .aux entry point, or (case['view']) the explicit call / format_from_string(s) /
    Interpreter.run with an injected unknown command"""
    if 'fn' in io:
        return io['fn']
    a = io[{'aux': 'aux', 'files': 'files', 'string': 'string', 'inject': 'inject'}[io.get('view', 'aux')]]
    if 'error' in a:
        return {'error': a['error']}
    out = {'bbl': a['bbl'], 'reports': [[c, _norm_paths(m, io['dir'])] for c, m in a['reports']], 'aux_errors': a['aux_errors']}
    if io.get('view') == 'inject':
        out['printed'] = a.get('stdout', '')
    if io.get('view', 'aux') == 'aux':
        # where make_bibliography (and the command line, when it ran) put the text
        out['written'] = a.get('written')
        if io.get('cli') is not None and 'written' in io['cli']:
            out['cli_written'] = io['cli']['written']
    return out


def model_out(case, reply):
    o = reply['out']
    if case['op'] != 'makebib':
        return _fn_model_out(case, o)
    if 'error' in o:
        e = o['error']
        if e[0] == 'RUN':
            return {'error': [e[1][0]]}
        if e[0] == 'AUX':
            return {'error': ['AuxDataError' if (e[1] or {}).get('kind') not in ('open',) else 'PybtexError']}
        return {'error': [e[0]]}
    out = {'bbl': o['bbl'], 'reports': o['reports'], 'aux_errors': o['aux_errors']}
    if case.get('view') == 'inject':
        out['printed'] = ''.join(x + '\n' for x in o.get('printed', []))
    if (case.get('view') or 'aux') == 'aux':
        out['written'] = o.get('written')
        if case.get('cli') and 'cli_written' in o:
            out['cli_written'] = o['cli_written']
        elif case.get('cli'):
            out['cli_written'] = o.get('written')
    return out


# ---- function-level families: os.path.splitext, the output side of format_from_files, PybtexCommandLine.run ----

PYTHONIC = ['output_backend', 'label_style', 'name_style', 'sorting_style', 'abbreviate_names']   # = Gen.cliNotSupportedOptions (checked below)
USAGE_TEXT = {'unknown-language': 'unknown style language %s',
              'not-supported': '%s are only supported by the Pythonic style engine (-l python)'}


class _Usage(Exception):
    pass


def _fn_impl(case):
    op = case['op']
    if op == 'c06_splitext':
        root, ext = os.path.splitext(case['p'])
        return {'fn': {'root': root, 'ext': ext, 'cli': _real_cli_call(case['p'], 'bibtex', None, {})}}
    if op == 'c06_target':
        return {'fn': _real_target(case)}
    return {'fn': {'cli': _real_cli_call(case['filename'], case['style_language'], case['encoding'],
                                         dict(case['options']))}}


_PYOK = []


def _pythonic_ok():
    if not _PYOK:
        from tablegen.c06 import cli_literals
        try:
            _PYOK.append([k for k, _ in cli_literals()['not_supported']] == PYTHONIC)
        except Exception:  # noqa: the table generator reports it
            _PYOK.append(True)
    return _PYOK[0]


def _real_cli_call(filename, lang, encoding, given):
    """the real PybtexCommandLine.run with engine.make_bibliography replaced by a recorder and optparse's error() by an exception"""
    import pybtex
    import pybtex.bibtex
    from pybtex.__main__ import main
    if not _pythonic_ok():
        return {'error': 'the options of not_supported_by_bibtex changed'}
    options = {k: None for k in PYTHONIC + ['bib_encoding', 'bst_encoding', 'output_encoding']}
    options.update(given)
    seen = []
    old = (pybtex.bibtex.make_bibliography, pybtex.make_bibliography if hasattr(pybtex, 'make_bibliography') else None, main.opt_parser.error)

    def usage(msg):
        raise _Usage(msg)
    pybtex.bibtex.make_bibliography = lambda fn, **kw: seen.append(['pybtex.bibtex', fn, kw.get('bib_encoding'), kw.get('bst_encoding'), kw.get('output_encoding')])
    pybtex.make_bibliography = lambda fn, **kw: seen.append(['pybtex', fn, kw.get('bib_encoding'), kw.get('bst_encoding'), kw.get('output_encoding')])
    main.opt_parser.error = usage
    try:
        main.run(filename, lang, encoding, **options)
        return {'call': seen[0]} if len(seen) == 1 else {'error': 'make_bibliography called %d times' % len(seen)}
    except _Usage as e:
        return {'usage': str(e)}
    except Exception as e:  # noqa
        return {'error': 'INTERNAL:%s: %s' % (type(e).__name__, e)}
    finally:
        pybtex.bibtex.make_bibliography = old[0]
        if old[1] is None:
            del pybtex.make_bibliography
        else:
            pybtex.make_bibliography = old[1]
        main.opt_parser.error = old[2]


def _real_target(case):
    """format_from_files(..., output_filename=, add_output_suffix=) of the real engine on a two-entry database: returned or written where?"""
    from pybtex.bibtex import BibTeXEngine
    d = os.path.join(_tmpdir(), 't')
    shutil.rmtree(d, True)
    os.makedirs(d)
    cwd = os.getcwd()
    try:
        os.chdir(d)
        _write(os.path.join(d, 'in', 'mini_keys.bst'), MINI['mini_keys'])
        _write(os.path.join(d, 'in', 'refs.bib'), POOL['knuth84'] + '\n' + POOL['art1'] + '\n')
        if case.get('subdir'):
            os.makedirs(os.path.join(d, case['subdir']), exist_ok=True)
        before = _listing(d)
        ref = _run(lambda: BibTeXEngine().format_from_files([os.path.join(d, 'in', 'refs.bib')], style=os.path.join(d, 'in', case.get('style') or 'mini_keys'),
                                                             citations=['art1', 'knuth84']))
        box = {}

        def go():
            box['ret'] = BibTeXEngine().format_from_files([os.path.join(d, 'in', 'refs.bib')], style=os.path.join(d, 'in', case.get('style') or 'mini_keys'),
                                                        citations=['art1', 'knuth84'], output_filename=case['output_filename'],
                                                        add_output_suffix=case['add_output_suffix'])
            return box['ret']
        r = _run(go)
        if 'error' in r:
            if r['error'] == ['INTERNAL'] and (r.get('detail') or '').startswith('TypeError'):
                return {'target': ['TypeError'], 'same_text': True}
            return {'target': ['error', r['error'], r.get('detail')]}
        new = sorted(_listing(d) - before)
        if box['ret'] is not None:
            return {'target': ['returned'] if not new else ['returned+file', new], 'same_text': box['ret'] == ref.get('bbl')}
        if len(new) != 1:
            return {'target': ['nothing', new]}
        with open(os.path.join(d, new[0]), encoding='utf-8', newline='') as f:
            text = f.read()
        return {'target': ['file', new[0]], 'same_text': text == ref.get('bbl')}
    finally:
        os.chdir(cwd)
        shutil.rmtree(d, True)


def _fn_model_out(case, o):
    op = case['op']

    def cli(c):
        if 'usage' in c:
            return {'usage': USAGE_TEXT[c['usage'][0]] % c['usage'][1]}
        return {'call': c['call']}
    if op == 'c06_splitext':
        return {'root': o['root'], 'ext': o['ext'], 'cli': {'call': ['pybtex.bibtex', o['cli_aux'], None, None, None]}}
    if op == 'c06_target':
        return {'target': o['target'], 'same_text': True} if o['target'][0] != 'error' else {'target': o['target']}
    return {'cli': cli(o)}


def _fn_request(case):
    if case['op'] == 'c06_clirun':
        opts = dict(case['options'])
        return {'op': 'c06_clirun', 'filename': case['filename'], 'style_language': case['style_language'], 'encoding': case['encoding'],
                'bib_encoding': opts.get('bib_encoding'), 'bst_encoding': opts.get('bst_encoding'), 'output_encoding': opts.get('output_encoding'),
                'pythonic': [bool(opts.get(k)) for k in PYTHONIC]}
    return dict(case)


def _fn_oracle(case, io, reply):
    """property-level facts about the file names, on the implementation's values (spec values from the model)"""
    fails = []
    f, o = io['fn'], reply['out']
    if case['op'] == 'c06_splitext':
        p = case['p']
        if f['root'] + f['ext'] != p:
            fails.append('splitext: root + ext = %r is not the path %r' % (f['root'] + f['ext'], p))
        if f['ext'] and (f['ext'][0] != '.' or '.' in f['ext'][1:] or '/' in f['ext']):
            fails.append('splitext: extension %r of %r' % (f['ext'], p))
        # pybtex b and pybtex b.aux are the same run (C06_cli_aux_name), when the model says the hypothesis holds
        if o.get('has_non_dot') and 'call' in f['cli'] and not p.endswith('.aux'):
            other = _real_cli_call(p + '.aux', 'bibtex', None, {})
            if other != f['cli']:
                fails.append('aux_equiv/cli: pybtex %r opens %r, pybtex %r opens %r' % (p, f['cli'], p + '.aux', other))
    elif case['op'] == 'c06_target':
        if f.get('same_text') is False:
            fails.append('aux_equiv/output: the text delivered with output_filename=%r add_output_suffix=%r differs from the returned text of the same call'
                         % (case['output_filename'], case['add_output_suffix']))
    return fails


def bibitem_keys(bbl):
    """the keys of the \\bibitem commands, in order: \\bibitem{key} / \\bibitem[label]{key}; the label may contain braces and (inside
    braces) brackets, apacite breaks the line with %<newline> in front of the key"""
    keys, i, n = [], 0, len(bbl)
    while True:
        i = bbl.find('\\bibitem', i)
        if i < 0:
            return keys
        i += len('\\bibitem')
        if i < n and bbl[i] == '[':
            depth = 0
            while i < n:
                ch = bbl[i]
                if ch == '{':
                    depth += 1
                elif ch == '}':
                    depth -= 1
                elif ch == ']' and depth == 0:
                    i += 1
                    break
                i += 1
        if i < n and bbl[i] == '{':
            j = bbl.find('}', i)
            if j < 0:
                return keys
            keys.append(bbl[i + 1:j].replace('%\n', '').strip())
            i = j


def expected_order(resolved, sorts):
    """the order the property demands: citation order, then one STABLE sort per SORT command the style executes, on the sort.key$
    values (reference values: the model's) - Python's sorted() is stable and compares str by code point, as the statement says"""
    order = list(resolved)
    for obs in sorts:
        keymap = {c.lower(): k for c, k in obs}
        if any(c.lower() not in keymap or keymap[c.lower()] is None for c in order):
            return None
        order = sorted(order, key=lambda c: keymap[c.lower()])
    return order


def oracle(case, io, reply):
    if case['op'] != 'makebib':
        return _fn_oracle(case, io, reply)
    fails = []
    a, f = io['aux'], io['files']
    for name in ('aux', 'files', 'variant', 'bibtex_db', 'single', 'file', 'string', 'default', 'inject', 'style_ref'):
        r = io.get(name)
        if r and 'error' in r and r['error'][0] == 'INTERNAL':
            fails.append('no_internal: %s run raised %s' % (name, r.get('detail')))
    # the entry points named in the quantifier are the same explicit call
    for name, what in (('file', 'format_from_file(path)'), ('string', 'format_from_string(s) on the text(s) of the file(s)'),
                       ('default', "format_from_files without a citations argument (default ['*'])")):
        r = io.get(name)
        if r is not None and (r.get('error'), r.get('bbl')) != (f.get('error'), f.get('bbl')):
            fails.append('entry_points: %s gives %r, format_from_files on the same database %r' % (
                what, (r.get('bbl') or str(r.get('error')))[:200], (f.get('bbl') or str(f.get('error')))[:200]))
    ref = io.get('style_ref')
    if ref is not None and 'error' not in ref:
        # "the output depends only on the cited entries and the style": the style is the .bst file the name <style> + '.bst'
        # designates - the same file under a name without a dot (reference run, explicit call) gives the same output; "an
        # explicitly requested style overrides what the .aux file says": the .aux run with style= is the run of THAT style
        nm = eff_style(case)
        runs = [('format_from_files(style=%r)' % nm, f)]
        runs += [('%s(style=%r)' % (w, nm), io[n]) for n, w in (('file', 'format_from_file'), ('string', 'format_from_string(s)'),
                                                               ('default', 'format_from_files [default citations]')) if io.get(n) is not None]
        if case.get('style_override'):
            runs.append(('make_bibliography(.aux with \\bibstyle{%s}, style=%r)' % (case['style'], nm), a))
            tag = 'override_style'
        else:
            runs.append(('make_bibliography(.aux with \\bibstyle{%s})' % nm, a))
            tag = 'style'
        if io.get('cli') is not None and 'error' not in io['cli']:
            runs.append(('the command line%s' % (' --style %s' % nm if case.get('style_override') else ''), io['cli']))
        for what, r in runs:
            if r.get('error') is not None or r.get('bbl') != ref['bbl']:
                fails.append('%s: %s, whose style file is %s.bst (a copy of %s.bst), gives %r; the same style file under the name %s.bst gives %r'
                             % (tag if r is a or r is io.get('cli') else 'style', what, nm, base_style(case, nm),
                                (str(r['error']) if r.get('error') else 'items %r: %s' % (bibitem_keys(r['bbl']), r['bbl'][:60])),
                                REF_STYLE, 'items %r: %s' % (bibitem_keys(ref['bbl']), ref['bbl'][:60])))
    if case.get('aux_extra') in ('no_style', 'no_data'):
        # no equivalent explicit call exists: the run must stop with the .aux reader's error
        if a.get('error') != ['AuxDataError']:
            fails.append('aux_equiv: an .aux file without \\bibstyle / \\bibdata gave %r instead of an AuxDataError' % (a.get('error') or 'output',))
        return fails
    if 'error' in a or 'error' in f:
        if a.get('error') != f.get('error'):
            fails.append('aux_equiv: make_bibliography gave %r, the explicit call %r' % (a.get('error') or 'output', f.get('error') or 'output'))
        return fails
    if a['bbl'] != f['bbl'] or a.get('hex') != f.get('hex', a.get('hex')):
        which = ' [style override]' if case.get('style_override') else (' [bib_format override]' if case.get('yaml') else '')
        fails.append('aux_equiv%s: driving the engine through the .aux file differs from the equivalent explicit call%s: %r vs %r' % (
            '/override' if which else '', ' (bytes written with output_encoding=%s)' % case['enc'] if case.get('enc') and a['bbl'] == f['bbl'] else '',
            a['bbl'][:200], f['bbl'][:200]))
    an = aux_name(case)
    if an.endswith('.aux') and a.get('written') is not None:
        b = an[:-len('.aux')]
        if b.rsplit('/', 1)[-1].strip('.'):
            # C06_output_beside_aux, second part: the .bbl file of b.aux is b.bbl (last component of b not made of dots only)
            if a['written'] != ['file', '/D/' + b + '.bbl']:
                fails.append('aux_equiv/output: make_bibliography(%r) wrote %r; the output of the run on b.aux belongs in b.bbl = %r' % (
                    an, a['written'], b + '.bbl'))
    if a.get('returned') is not None:
        fails.append('aux_equiv/output: make_bibliography returned %r instead of writing only' % (a['returned'][:80],))
    c = io.get('cli')
    if c is not None:
        if 'error' not in c and c.get('written') != a.get('written') and case.get('cli_name') is None:
            fails.append('aux_equiv/cli: the command line wrote %r, make_bibliography on the same .aux file %r' % (c.get('written'), a.get('written')))
        if 'error' in c:
            fails.append('aux_equiv/cli: the command line run gave %r (exit %r), make_bibliography an output' % (c['error'], c.get('code')))
        elif c['bbl'] != a['bbl']:
            fails.append('aux_equiv/cli: the command line run differs from make_bibliography: %r vs %r' % (c['bbl'][:200], a['bbl'][:200]))
    keys = bibitem_keys(f['bbl'])
    emits_items = base_style(case, eff_style(case)) not in ('mini_noread', 'mini_raise', 'mini_raise_syntax', 'mini_redeclare')
    if emits_items:
        low = [k.lower() for k in keys]
        if len(set(low)) != len(low):
            # "exactly one item per resolved citation": whatever the resolution, no key may get two items
            fails.append('one_item_per_citation: the keys %r get more than one item: items %r' % (sorted({k for k in low if low.count(k) > 1}), keys))
        elif sorted(k.lower() for k in keys) != sorted(k.lower() for k in io['resolved']):
            fails.append('one_item_per_citation: items %r, resolved citations %r' % (keys, io['resolved']))
        else:
            sorts = (reply.get('spec') or {}).get('sorts')
            if not sorts:
                if base_style(case, eff_style(case)) in ('unsrt', 'unsrt_mixed', 'mini_keys') and [k.lower() for k in keys] != [k.lower() for k in io['resolved']]:
                    fails.append('citation_order: %s emitted %r, citation order is %r' % (eff_style(case), keys, io['resolved']))
            else:
                want = expected_order(io['resolved'], sorts)
                if want is not None and [k.lower() for k in keys] != [k.lower() for k in want]:
                    fails.append('sort_order: %s emitted %r; the stable sort of the resolved citations %r on sort.key$ is %r (keys %r)' % (
                        eff_style(case), keys, io['resolved'], want, sorts[-1]))
    v = io.get('variant')
    if v is not None and v.get('bbl') != f['bbl']:
        fails.append('frame: output changed when uncited entries were added/removed or the file was reordered: %r vs %r' % (
            (v.get('bbl') or str(v.get('error')))[:200], f['bbl'][:200]))
    sg = io.get('single')
    if sg is not None and sg.get('bbl') != f['bbl']:
        fails.append('frame/split: the same database given as two files differs from the one-file run: %r vs %r' % (
            f['bbl'][:200], (sg.get('bbl') or str(sg.get('error')))[:200]))
    b = io.get('bibtex_db')
    if b is not None and 'error' not in b and bibitem_keys(b['bbl']) != keys:
        fails.append('override_format: reading the YAML copy gives items %r, the .bib file %r' % (keys, bibitem_keys(b['bbl'])))
    return fails


def buckets(case, io):
    if case['op'] != 'makebib':
        b = ['fn:' + case['op']]
        f = io['fn']
        if case['op'] == 'c06_splitext':
            b.append('ext' if f['ext'] else 'no-ext')
        elif case['op'] == 'c06_target':
            b.append('target:' + str(f['target'][0]))
        else:
            b.append('usage' if 'usage' in f['cli'] else 'call')
        return b
    b = [case['style']]
    if case.get('style_override'):
        b.append('style-override')
    if case.get('yaml'):
        b.append('yaml')
    if case.get('variant_keys') is not None or case.get('variant_noise') is not None:
        b.append('variant')
    if case.get('split') is not None:
        b.append('two-files')
    if case.get('entry'):
        b.append('entry:' + case['entry'])
    if case.get('view') and case['view'] != 'aux':
        b.append('model-view:' + case['view'])
    if case.get('enc'):
        b.append('enc:' + case['enc'])
    if case.get('family'):
        b.append('family:' + case['family'])
    if case.get('aux_name') or case.get('cli_name') is not None:
        b.append('aux-name')
    if 'error' in io['aux']:
        b.append('error:' + io['aux']['error'][0])
    return b


def nontrivial(case, io):
    if case['op'] == 'c06_splitext':
        return bool(io['fn']['ext'])
    if case['op'] != 'makebib':
        return True
    return len(io.get('resolved', [])) >= 2


def valid_case(case):
    return False


def corpus():
    return corpus_for(ID)


def closure_ok(keys):
    """parents after children (C05 proviso)"""
    if 'proc' in keys:
        i = keys.index('proc')
        return all(k not in keys or keys.index(k) < i for k in ('inproc1', 'inproc2'))
    return True


def _citation_lines(case):
    """the \\citation lines of the .aux file: one key per line, or grouped as case['aux_groups'] says (sizes summing to the number of citations)"""
    cites = list(case['citations'])
    groups = case.get('aux_groups')
    if not groups or sum(groups) != len(cites) or any(g < 1 for g in groups):
        return ['\\citation{%s}' % c for c in cites]
    out, i = [], 0
    for g in groups:
        out.append('\\citation{%s}' % ','.join(cites[i:i + g]))
        i += g
    return out


def _base(keys, cites, style, mc=2, **kw):
    case = {'op': 'makebib', 'keys': list(keys), 'citations': list(cites), 'style': style, 'min_crossrefs': mc, 'noise': [],
            'style_override': None, 'yaml': False}
    case.update(kw)
    return case


def gen_case(rng, styles):
    n = rng.randint(2, 8)
    keys = rng.sample(ORDER, n)
    if 'proc' in keys:
        keys.remove('proc')
        keys.append('proc')
    elif rng.random() < 0.5 and any(k in keys for k in ('inproc1', 'inproc2')):
        keys.append('proc')
    cites = []
    r = rng.random()
    if r < 0.2:
        cites = ['*']
    elif r < 0.24:
        cites = []          # an .aux file without any \\citation line / an explicit empty citation list
    else:
        for k in rng.sample(keys, rng.randint(1, len(keys))):
            cites.append(k if rng.random() < 0.9 else k.upper())
        if rng.random() < 0.15:
            cites.insert(rng.randint(0, len(cites)), 'nosuchkey')
        if rng.random() < 0.1:
            cites.append('*')
    # a key cited twice in two spellings is an .aux error (C20): keep spellings consistent
    seen = {}
    cites = [seen.setdefault(c.lower(), c) for c in cites]
    groups = None
    if cites and rng.random() < 0.3:
        # LaTeX writes one \citation line per \cite command: several keys on one line, keys cited again later (same spelling)
        for _ in range(rng.randint(1, 3)):
            cites.insert(rng.randint(1, len(cites)), rng.choice(cites))
        groups, left = [], len(cites)
        while left:
            g = min(left, rng.randint(1, 3))
            groups.append(g)
            left -= g
    case = {'op': 'makebib', 'keys': keys, 'citations': cites, 'style': rng.choice(styles), 'min_crossrefs': rng.choice([1, 2, 2, 3]),
            'noise': [], 'style_override': None, 'yaml': False, 'cli': rng.random() < 0.3}
    if groups:
        case['aux_groups'] = groups
    r = rng.random()
    if r < 0.2 and len(styles) > 1:
        case['style_override'] = rng.choice([s for s in styles if s != case['style']])
    elif r < 0.35:
        case['yaml'] = True
        case['decoy'] = rng.random() < 0.6
    if not case['yaml']:
        r = rng.random()
        if r < 0.25 and len(keys) >= 2:
            case['split'] = rng.randint(0, len(keys))       # the same database as two files (\bibdata{refs,refs2})
        if rng.random() < 0.12 and 'uni1' in keys:
            case['enc'] = 'latin-1'
            case['cli'] = False
    # further entry points / the run the model is compared with
    r = rng.random()
    if r < 0.2 and case.get('split') is None:
        case['entry'] = 'file'
    elif r < 0.45:
        case['entry'] = 'string'
        if rng.random() < 0.5 and not case.get('enc'):
            case['view'] = 'string'
    elif r < 0.55 and cites == ['*'] and case.get('split') is None:
        case['entry'] = 'default'
    elif r < 0.7 and not case.get('enc'):
        case['view'] = 'files'
    if '*' not in cites and not case['yaml'] and case.get('split') is None:
        r = rng.random()
        cited = {c.lower() for c in cites}
        needed = set(cited)
        if any(k in cited for k in ('inproc1', 'inproc2')):
            needed.add('proc')
        if r < 0.35:
            case['variant_noise'] = [[rng.randint(0, len(keys)), rng.randrange(len(NOISE))] for _ in range(rng.randint(1, 3))]
        elif r < 0.6:
            vk = [k for k in keys if k in needed or rng.random() < 0.5]
            case['variant_keys'] = vk
        elif r < 0.8:
            vk = list(keys)
            rng.shuffle(vk)
            if 'proc' in vk:
                vk.remove('proc')
                vk.append('proc')
            case['variant_keys'] = vk
    return case


def gen_ties(rng, styles):
    """2-4 entries identical up to the key (equal sort keys) and/or entries sharing an alpha label, cited in shuffled order"""
    group = rng.sample(TIES, rng.randint(2, 4)) + (rng.sample(COLLIDE, rng.randint(2, 3)) if rng.random() < 0.6 else [])
    others = rng.sample([k for k in ORDER if k not in TIES and k not in COLLIDE and k not in ('proc', 'inproc1', 'inproc2')], rng.randint(0, 2))
    keys = group + others
    rng.shuffle(keys)
    cites = list(keys)
    rng.shuffle(cites)
    if rng.random() < 0.3:
        cites = cites[:-1] or cites
    if rng.random() < 0.15:
        cites = ['*']
    case = _base(keys, cites, rng.choice(styles), family='ties', cli=False)
    r = rng.random()
    if r < 0.2:
        case['view'] = 'files'
    elif r < 0.35:
        case['yaml'] = True
        case['decoy'] = rng.random() < 0.5
    elif r < 0.5 and '*' not in cites:
        vk = list(keys)
        rng.shuffle(vk)
        case['variant_keys'] = vk
    return case


def nested_case(keys, tree, style, **kw):
    """make_bibliography driven by an .aux file with nested \\@input files; the explicit call gets the citations in in-place order"""
    return _base(keys, flatten_tree(tree), style, family='nested-aux', aux_tree=tree, **kw)


def gen_nested(rng, styles):
    """a random .aux tree of depth 1-2 over 3-8 keys: citations in front of, inside and BEHIND every \\@input line"""
    pool = [k for k in ORDER if k not in ('proc', 'inproc1', 'inproc2')]
    keys = rng.sample(pool, rng.randint(3, 8))
    cited = list(keys)
    rng.shuffle(cited)
    if rng.random() < 0.3:
        cited = cited[:-1]

    def split(items, depth):
        """cut the items into a tree: some runs of items become nested files"""
        if len(items) < 2 or depth == 0:
            return list(items)
        out, i = [], 0
        while i < len(items):
            if rng.random() < 0.45 and (out or True):
                n = rng.randint(1, max(1, min(3, len(items) - i - (0 if out else 1))))
                out.append(split(items[i:i + n], depth - 1))
                i += n
            else:
                out.append(items[i])
                i += 1
        return out
    tree = split(cited, 2)
    if not any(isinstance(t, list) for t in tree):
        tree = [tree[0], list(tree[1:-1]) or [tree[-1]]] + ([tree[-1]] if len(tree) > 2 else [])
    db = list(keys)
    rng.shuffle(db)
    case = nested_case(db, tree, rng.choice(styles), mc=rng.choice([1, 2]), cli=rng.random() < 0.3)
    if rng.random() < 0.3:
        case['view'] = 'files'
    return case


def mini_cases(rng, n_random):
    cases = []
    dbs = [(['knuth84', 'art1', 'misc1'], ['misc1', 'knuth84', 'art1']), (['tieq', 'tiea', 'art2'], ['tieq', 'art2', 'tiea']),
           (['inproc1', 'inproc2', 'proc'], ['inproc2', 'inproc1'])]
    for st in ('mini_keys', 'mini_sorted', 'mini_revkey', 'mini_twosorts', 'mini_syntax', 'mini_entryvars'):
        for keys, cites in dbs:
            for c in (cites, list(reversed(cites)), ['*']):
                cases.append(_base(keys, c, st, 1, family='mini', entry='string',
                                   variant_noise=[[1, 0]] if '*' not in c and st != 'mini_syntax' else None))
    # where and when the files are opened / the script is parsed
    for st in ('mini_noread', 'mini_raise', 'mini_raise_syntax', 'mini_keys', 'mini_syntax', 'mini_redeclare'):
        for missing in (False, True):
            for view in ('aux', 'files'):
                cases.append(_base(['knuth84', 'art1'], ['art1', 'knuth84'], st, family='mini', missing_bib=missing, view=view))
    cases.append(_base(['knuth84', 'art1'], ['art1'], 'mini_noread', family='mini', split=1, missing_bib=True))
    # an unknown command in a script handed to Interpreter.run
    for st, n in (('mini_keys', 5), ('mini_sorted', 7), ('unsrt', 3)):
        for pos in (0, 2, n):
            cases.append(_base(['knuth84', 'art1'], ['art1', 'knuth84'], st, family='mini', inject=[pos, 'FROBNICATE'], view='inject'))
    for _ in range(n_random):
        keys = rng.sample([k for k in ORDER if k != 'proc'], rng.randint(2, 6))
        cites = rng.sample(keys, rng.randint(1, len(keys)))
        case = _base(keys, cites, rng.choice(['mini_sorted', 'mini_revkey', 'mini_twosorts', 'mini_keys']), rng.choice([1, 2]), family='mini')
        if rng.random() < 0.5:
            case['split'] = rng.randint(0, len(keys))
        if rng.random() < 0.5:
            case['view'] = rng.choice(['files', 'string'])
            if case['view'] == 'string':
                case['entry'] = 'string'
        cases.append(case)
    return cases


AUX_NAMES = [  # (name of the top .aux file, what the command line is given) - the command line must find that file
    ('doc.aux', 'doc'), ('doc.aux', 'doc.aux'), ('my.doc.aux', 'my.doc'), ('my.doc.aux', 'my.doc.aux'), ('sub.d/doc.aux', 'sub.d/doc'),
    ('sub.d/.aux', 'sub.d/'), ('.hid.aux', '.hid'), ('x.aux.aux', 'x.aux.aux'), ('..aux', '.'), ('doc.tex.aux', 'doc.tex'),
    ('noext', None), ('doc.tex', None), ('sub.d/noext', None), ('.aux', None), ('t.aux.aux', None)]


# family dotted-style: style NAMES with a dot in the last path component (the style file is <name>.bst, whatever the name looks like),
# beside controls (dot in a directory only, hidden name).  Second column: the name a lookup that drops the text behind the last
# dot would use instead (None: there is no such name).
DOTTED_NAMES = [('house.unsrt', 'house'), ('IEEEtran.v2', 'IEEEtran'), ('acm.2019', 'acm'), ('a.b.c', 'a.b'), ('house.bst', 'house'),
                ('x.', 'x'), ('sub.d/st.y', 'sub.d/st'), ('sub.d/sty', None), ('.hid', None)]
# (style the dotted name holds, style the file named after the stem holds): one of the two sorts, the other does not
DOTTED_PAIRS_QUICK = [('unsrt', 'plain'), ('mini_keys', 'mini_sorted'), ('plain', 'unsrt')]
DOTTED_PAIRS_ALL = DOTTED_PAIRS_QUICK + [('alpha', 'unsrt'), ('mini_sorted', 'mini_keys'), ('unsrt', 'alpha')]
# cited in the reverse of author order and of title order: a sorting style and a non-sorting one give different bibliographies
DOTTED_DB = (['art1', 'tech1', 'knuth84', 'misc1'], ['knuth84', 'art1', 'tech1'])


def dotted_case(name, stem, base, decoy_base, how, keys=None, cites=None, **kw):
    """how = 'aux': \\bibstyle{name}; 'override': \\bibstyle{stem or plain} with style=name.  decoy_base None: no file named after
    the stem.  Every case carries the reference run (the same style file as refstyle.bst)."""
    files = [[name, base]]
    if decoy_base is not None and stem is not None:
        files.append([stem, decoy_base])
    keys = DOTTED_DB[0] if keys is None else keys
    cites = DOTTED_DB[1] if cites is None else cites
    if how == 'aux':
        return _base(keys, cites, name, family='dotted-style', style_files=files, style_ref=True, **kw)
    other = stem if (decoy_base is not None and stem is not None) else ('plain' if base != 'plain' else 'unsrt')
    return _base(keys, cites, other, family='dotted-style', style_files=files, style_ref=True, style_override=name, **kw)


def dotted_cases(quick):
    """deterministic part: every name x (with / without a second style file named after the stem) x (\\bibstyle / style= override),
    through make_bibliography, the command line, format_from_files / _file / _string(s); the style pairs rotate over the names
    (thorough tier: every pair for every name)"""
    pairs = DOTTED_PAIRS_QUICK if quick else DOTTED_PAIRS_ALL
    cases = []
    for i, (name, stem) in enumerate(DOTTED_NAMES):
        for j, (base, decoy) in enumerate(pairs):
            if quick and name != 'house.unsrt' and j != i % len(pairs):
                continue
            for with_decoy in (True, False):
                if with_decoy and stem is None:
                    continue
                db = decoy if with_decoy else None
                cases.append(dotted_case(name, stem, base, db, 'aux', cli=True, entries=['file', 'string'],
                                         view='aux' if with_decoy else 'string'))
                cases.append(dotted_case(name, stem, base, db, 'override', cli=True, entries=['string'],
                                         view='aux' if with_decoy else 'files'))
        # the default citation list, two database strings
        cases.append(dotted_case(name, stem, pairs[i % len(pairs)][0], pairs[i % len(pairs)][1], 'aux', cites=['*'],
                                 entries=['default'] + (['string'] if i % 2 else []), **({'split': 2} if i % 2 else {})))
    return cases


def gen_dotted(rng, styles):
    """a random case (gen_case) whose requested style - the \\bibstyle, or the style= override when there is one - gets a random name
    with a dot in its last component; with probability 0.6 a second style file named after the part in front of the last dot
    holds another style"""
    case = gen_case(rng, styles)
    stem = rng.choice(['house', 'my', 'IEEEtran', 'a', 'x.y', 'sub.d/s', 'v1', 'sub.d/x.y', 'plain', 'unsrt'])
    name = stem + '.' + rng.choice(['unsrt', 'v2', '2019', 'bst', '', 'b.c', 'aux', 'bbl', 'plain', 'bst.bst', 'x y'])
    which = 'style_override' if case.get('style_override') else 'style'
    base = case[which]
    files = [[name, base]]
    short = os.path.splitext(name)[0]
    if rng.random() < 0.6 and short != name and short.rsplit('/', 1)[-1] not in styles + [REF_STYLE]:
        files.append([short, rng.choice([s for s in styles if s != base])])
    case[which] = name
    case.update({'family': 'dotted-style', 'style_files': files, 'style_ref': True})
    return case


def fn_cases(rng, quick):
    """function-level families: os.path.splitext / the command line's .aux name, the output side of format_from_files, PybtexCommandLine.run"""
    import itertools
    cases = []
    for n in range(0, 6 if quick else 7):
        for t in itertools.product('a./', repeat=n):
            cases.append({'op': 'c06_splitext', 'p': ''.join(t)})
    alphabet = ['a', 'b', '.', '.', '/', 'aux', '.aux', 'é', '\u212a', ' ', '..', 'x.y', '\\', '-']
    for _ in range(150 if quick else 2000):
        cases.append({'op': 'c06_splitext', 'p': ''.join(rng.choice(alphabet) for _ in range(rng.randint(1, 7)))})
    for name in [None, '', 'out', 'out.bbl', 'sub.d/out', '.bbl', 'o.x']:
        for add in (False, True):
            cases.append({'op': 'c06_target', 'output_filename': name, 'add_output_suffix': add, 'subdir': 'sub.d'})
    # an error of the run comes before the TypeError of the output name
    cases.append({'op': 'c06_target', 'output_filename': None, 'add_output_suffix': True, 'style': 'nosuchstyle'})
    encs = [None, '', 'latin-1', 'utf-8']
    for lang in ('bibtex', 'python', 'perl', 'BibTeX', ''):
        for _ in range(6 if quick else 40):
            opts = {k: rng.choice(encs) for k in ('bib_encoding', 'bst_encoding', 'output_encoding') if rng.random() < 0.7}
            for k in PYTHONIC:
                if rng.random() < 0.2:
                    opts[k] = rng.choice(['x', '', True])
            cases.append({'op': 'c06_clirun', 'filename': rng.choice(['doc', 'doc.aux', 'a.b/c', '']), 'style_language': lang,
                          'encoding': rng.choice(encs), 'options': sorted(opts.items())})
    for k in PYTHONIC:
        for lang in ('bibtex', 'python'):
            cases.append({'op': 'c06_clirun', 'filename': 'doc', 'style_language': lang, 'encoding': None, 'options': [[k, 'v']]})
    cases.append({'op': 'c06_clirun', 'filename': 'doc', 'style_language': 'bibtex', 'encoding': None,
                  'options': [[PYTHONIC[3], 'v'], [PYTHONIC[1], 'v']]})
    return cases


def gen_cases(tier, rng, info):
    quick = tier == 'quick'
    _root()
    styles = STYLES_QUICK if quick else STYLES_ALL
    cases = fn_cases(rng, quick)
    n_fn = len(cases)
    # the name of the .aux file: which file the command line opens, where make_bibliography writes
    for aux, cli in AUX_NAMES:
        for st in ('unsrt', 'mini_keys') if quick else ('unsrt', 'plain', 'mini_keys'):
            c = _base(['knuth84', 'art1'], ['art1', 'knuth84'], st, family='paths', aux_name=aux, cli=cli is not None)
            if cli is not None:
                c['cli_name'] = cli
            cases.append(c)
    # small exhaustive part: every pair of entries x every citation list over them x style
    pairs = [('knuth84', 'art1'), ('inproc1', 'proc'), ('art2', 'tech1')]
    for a, b in pairs:
        for cites in ([a], [b], [a, b], [b, a], ['*'], [a.upper(), b], [b, 'nosuchkey'], [], ['nosuchkey']):
            for st in styles:
                for mc in (1, 2):
                    cases.append({'op': 'makebib', 'keys': [a, b], 'citations': cites, 'style': st, 'min_crossrefs': mc, 'noise': [],
                                  'style_override': None, 'yaml': False, 'variant_noise': [[0, 0], [2, 1]] if '*' not in cites else None})
    # ties and label collisions, systematically: every order of three tied entries / of the colliding group, sorting styles
    import itertools
    for st in [s for s in styles if s not in ('unsrt', 'unsrt_mixed')]:
        for group in (TIES[:3], COLLIDE):
            for cites in itertools.permutations(group):
                cases.append(_base(sorted(group), cites, st, family='ties'))
        cases.append(_base(TIES[:2] + COLLIDE[:2], [COLLIDE[1], TIES[1], COLLIDE[0], TIES[0]], st, family='ties', yaml=True, decoy=True))
        cases.append(_base(TIES[:2] + COLLIDE[:2], [COLLIDE[1], TIES[1], COLLIDE[0], TIES[0]], st, family='ties', yaml=True, decoy=False))
    # the bib_format override beside a decoy / an absent .bib file, both styles of override together
    for st in styles:
        for decoy in (True, False):
            cases.append(_base(['knuth84', 'art1', 'uni1'], ['art1', 'uni1', 'knuth84'], st, yaml=True, decoy=decoy, cli=True))
    cases.append(_base(['knuth84', 'art1'], ['art1', 'knuth84'], 'unsrt', yaml=True, decoy=True, style_override='plain', cli=True))
    # encodings: non-ASCII text written and read back with an 8-bit encoding
    for st in styles:
        cases.append(_base(['uni1', 'art1'], ['uni1', 'art1'], st, enc='latin-1'))
    # .aux files that \\@input other .aux files (LaTeX writes one per \\include): the citations are merged IN PLACE
    five = ['knuth84', 'art1', 'misc1', 'tech1', 'phd1']
    for st in ['unsrt', 'plain', 'mini_keys'] + ([] if quick else ['alpha', 'mini_sorted']):
        # alpha / \\@input{ch1}: (beta / \\@input{ch1a}: (gamma) / delta) / omega, with the data base in another order
        cases.append(nested_case(five[::-1], [five[0], [five[1], [five[2]], five[3]], five[4]], st, cli=True))
        cases.append(nested_case(five, [[five[4], five[3]], five[0]], st))
        cases.append(nested_case(five, [five[2], [five[1]], [five[0]], five[3]], st))
        cases.append(nested_case(five, [[[five[3]], five[1]], five[2]], st, view='files'))
    # degenerate .aux files: a second \\bibstyle / \\bibdata is reported and ignored (same output as the explicit call), a missing
    # one is the fatal error of the run
    for extra in ('dup_style', 'dup_data', 'no_style', 'no_data'):
        for st in ('unsrt', 'plain'):
            cases.append(_base(['knuth84', 'art1'], ['art1', 'knuth84'], st, family='aux-errors', aux_extra=extra, cli=extra.startswith('dup')))
    mini = mini_cases(rng, 25 if quick else 300)
    cases += mini
    # style names with a dot: the style file of NAME is NAME.bst
    cases += dotted_cases(quick)
    info['exhaustive'] = False
    rnd = []
    for _ in range(30 if quick else 400):
        rnd.append(gen_ties(rng, [s for s in styles if s != 'unsrt_mixed']))
    for _ in range(230 if quick else 3200):
        rnd.append(gen_case(rng, styles))
    for _ in range(24 if quick else 300):
        rnd.append(gen_nested(rng, ['unsrt', 'plain', 'mini_keys'] if quick else ['unsrt', 'plain', 'alpha', 'mini_keys', 'mini_sorted']))
    for _ in range(12 if quick else 400):
        rnd.append(gen_dotted(rng, styles))
    if not quick:
        # the large styles shipped in tests/data (two or three SORTs, REVERSE passes): random databases, ties and label collisions
        # (a run costs ten times a standard style's: spread evenly over the stream so that the worker pool stays balanced)
        for st in STYLES_LARGE:
            for _ in range(60):
                c = gen_case(rng, [st])
                c['cli'] = False
                rnd.append(c)
            for _ in range(15):
                rnd.append(gen_ties(rng, [st]))
        rng.shuffle(rnd)
    cases += rnd
    # the same database as two files, '*' cited: the order of the FILES is the citation order
    for st in styles:
        for sp in (1, 2):
            cases.append(_base(['art1', 'knuth84', 'misc1'], ['*'], st, split=sp, entry='string', view='string' if sp == 1 else 'aux'))
    _prefetch(cases[n_fn:])
    n_sys = len(cases) - len(rnd)
    info['scope'] = '%d systematic cases (pairs x citation lists x styles, tie / label-collision permutations, miniature styles, overrides, ' \
                    'encodings, %d dotted style names x stem file present / absent x \\bibstyle / style= override) + seeded random databases ' \
                    'from a pool of %d entries' % (n_sys, len(DOTTED_NAMES), len(POOL))
    try:
        from tablegen import c06 as _tg
        if _tg.FALLBACKS:
            # a literal of format_from_files could not be read off the source: the model keeps the round-1 value (Gen.engineLiteralsFromSource = false)
            info['table_fallbacks'] = ['%s: %s' % f for f in _tg.FALLBACKS]
    except Exception:  # noqa
        pass
    return cases


LEVEL_TEXT = ('Machine-checked proofs (Lean 4) over an executable model of Engine.make_bibliography, BibTeXEngine.format_from_files / '
              '_file / _string(s), the loop of Interpreter.run (style parsed lazily, data files opened by READ, unknown commands skipped) and '
              'the whole BST interpreter (every built-in, READ / ITERATE / REVERSE / SORT): (1) entry points and overrides are MODEL WIRING, '
              'not independent results: the model defines make_bibliography as the .aux reader followed by the explicit call with style= / '
              'bib_format= substituted and format_from_string / _file as format_from_files on one source (C06_aux_equiv, _overrides, '
              '_bib_format_selects, _entry_points unfold these definitions); that the CODE behaves so is established by the correspondence '
              'check only; proved there: a successful .aux parse has style and data, file sources holding the texts read as the texts, a '
              'READ-free prefix of the script never touches the data files; '
              '(2) frame theorem, by simultaneous induction on fuel over the six mutually recursive interpreter functions: '
              'everything after READ depends on the database only through the view (type, own and inherited fields, crossref value) of the '
              'resolved citations, which is determined by their crossref closure - so two runs (also: two format_from_files calls) whose READ '
              'steps resolve the same citations on databases agreeing there produce the same .bbl, reports and printed output; inserting an '
              "uncited, unreferenced entry into a reader's entry list or exchanging two neighbours of it (parent-after-child proviso, no '*') "
              'changes nothing; databases holding the same entry under every key in any order give the same READ result; (3) order: every '
              'command except READ and SORT keeps the citation list; IF f appends exactly one item per call (a hypothesis about the style, under an '
              'invariant it maintains) THEN mid; ITERATE {f} emits one item per resolved citation in citation order, '
              'SORT; mid; ITERATE {f} in stable sort.key$ order; an entry function beginning with the standard output.bibitem emits lines '
              'starting with \\bibitem{k} (each block BEGINS with it; the rest of a block is unconstrained).  Tied to the code by a byte-for-byte correspondence check of the model against the real engine on '
              'the shipped styles (unsrt, plain, alpha; thorough: unsrt_mixed, IEEEtran, jurabib, apacite) and generated miniature styles '
              'through every entry point with all override combinations, plus metamorphic checks and a sorted-order clause (reference sort '
              'keys from the model) on the implementation.  (4) where things are read and written: os.path.splitext refines its specification '
              "(root + ext = path, shape of ext, leading dots never an extension; complete for an appended extension), the command line's "
              '.aux name is idempotent and pybtex b = pybtex b.aux = make_bibliography(b.aux) (last component of b not only dots), '
              'make_bibliography writes the text of the run to splitext(aux)[0] + .bbl and never returns it, the explicit call returns or '
              'writes THE SAME text, PybtexCommandLine.run\'s usage errors and encoding defaults; tied by function-level correspondence '
              '(real os.path.splitext, real run(), real format_from_files with every output_filename / add_output_suffix combination) and by '
              'locating the file each real run writes; the literals (.aux, aux, bst, .bbl, .bib, style languages, the Pythonic-option '
              'table, signature defaults, command_* method names) are regenerated from the source on every run (Gen/EngineConsts.lean) and '
              'proved equal to what Model/Engine.lean hard-codes (C06_model_literals).')
LEVEL_NOTE = ('Trusted: Lean kernel; axioms propext/Classical.choice/Quot.sound only; the hand-written model corresponds to the code only as '
              'far as the differential check explores.  The step from "the two .bib files differ only in uncited, unreferenced entries or in '
              'order" to "the READ steps resolve the same citations on agreeing databases" is proved for a bib_format '
              "reader's entry list (insertion: C06_frame_uncited_alt; exchange of neighbours: C06_frame_swap_alt) and reduced to explicit "
              "equalities otherwise (C06_frame_read, C06_frame_reordered); for .bib text it rests on C05's filtered-reading theorem (with its "
              'ordering proviso: a cross-referenced parent must follow its children) and on the correspondence check.  '
              'C06_one_item_per_citation / C06_order_general take "f emits exactly one item" as a hypothesis about the style; '
              'C06_item_starts_with_bibitem discharges the \\bibitem{k} prologue for the output.bibitem skeleton of unsrt.bst / plain.bst (the '
              'rest of an entry function is arbitrary code: only "the output grows" is proved about it; alpha.bst\'s \\bibitem[label]{k} '
              'variant: C06_item_starts_with_bibitem_alpha).  Whole-run theorems are stated for styles with a single READ (all styles in existence).  '
              "The sort-order oracle clause takes the sort keys from the model (the property gives no other definition of a style's keys); "
              'REVERSE is visible to it only through generated styles whose sort keys are computed in a REVERSE pass.  Model wiring plus '
              'correspondence check only (no independent proof): .aux run = explicit call, style / bib_format overrides, equality of the entry '
              "points, lazy opening of the data files; the bib_format reader's own file access is not modelled (with a reader database the "
              "model opens no source, whereas the code's reader raises on a missing file).  Not modelled: the "
              "in-place mutation of the caller's citation list by SORT before READ; encodings (the model maps text to text; the byte-level "
              'comparison of the two entry points under output_encoding / bib_encoding is implementation-only).')
