"""C06 -- BibTeX-engine output depends only on the cited entries and the style."""
import os
import shutil
import tempfile

import compat  # noqa: F401
from props.base import corpus_for  # noqa: F401
from props import c01, c03

ID = 'C06'
LEAN_MODULES = ['PybtexModel.Props.C06']
THEOREMS = {
    'C06_aux_equiv': "[model wiring] the model DEFINES makeBibliography as Aux.parse followed by formatFromFiles on the .aux file's style, data names and citations: 'aux run = explicit call byte for byte' holds by construction (proved content: a successful parse has style and data); that the CODE does so is carried by the correspondence check",
    'C06_overrides': "[model wiring] part 1 (style= / bib_format= replace \\bibstyle / suffix+reader) unfolds makeBibliography - carried by the correspondence check over all override combinations; parts 2-4: with a reader database the model's READ stores it and never looks at .bib names or texts - by construction: the reader's own file access is NOT modelled",
    'C06_frame': 'frame property of the interpreter: if two databases agree on the view (type, own and inherited fields, crossref value) of the keys K, then from states that differ in the database only every built-in, token, function body, while$ loop, ITERATE/REVERSE over K, every command except READ and every READ-free program yields results that differ in the database only (or the same error) - for every amount of fuel',
    'C06_frame_closure': 'the view of a key is determined by its crossref closure: databases with the same entries on a crossref-closed key set agree on it - uncited, unreferenced entries and the order of entries are irrelevant',
    'C06_frame_read': 'reduction of the READ hypothesis: equal preamble, reader reports and citation resolution (C05) plus agreement on the resolved citations make the two READ steps leave states that differ in the database only',
    'C06_frame_run': 'two runs of a style pre;READ;post whose READ steps leave states differing in the database only, with databases agreeing on the resolved citations, are equal: same .bbl, reports, printed output or error',
    'C06_frame_reports': 'reports made before (e.g. by READ) do not matter: from states differing in the database and in the reports made so far a READ-free program gives the same error or final states differing only in the database and that prefix - same output lines, printed text and appended reports',
    'C06_frame_run_reports': 'two runs of a style pre;READ;post whose READ steps leave states differing in the database and in their reports, with databases agreeing on the resolved citations: same error, or same .bbl, printed output and reports after READ',
    'C06_frame_uncited_alt': 'adding or removing an uncited, not-yet-referenced entry in the entry list a bib_format reader delivers does not change the run at all',
    'C06_one_item_per_citation': 'for the schema READ; [SORT;] ITERATE {f} (and REVERSE), HYPOTHESIS: f, bound to the name in the command, appends exactly item k per call under an invariant Inv it maintains and the start state satisfies: one item per resolved citation, in citation order / reverse order / sortByKey order = a permutation ascending by sort.key$ in which equal keys keep citation order (stable)',
    'C06_sort_order_total': "the sort compares keys with a strict total order (Python's < on str): ties are exactly equal keys",
    'C06_aux_equiv_nonvacuous': 'non-vacuity: a three-line .aux, a two-entry .bib and a tiny style evaluate to the same .bbl through both entry points; an unreadable .aux is the error of the run',
    'C06_overrides_nonvacuous': 'non-vacuity: a sorting style overrides the unsorted \\bibstyle; the model uses a reader database without any file with the reader suffix (a run the real code cannot perform: its reader would raise on the missing file - reader file access is not modelled); same suffix without a reader database: cannot open',
    'C06_frame_closure_nonvacuous': 'non-vacuity: two example databases (entries in different order) satisfy the closure hypotheses',
    'C06_frame_nonvacuous': 'non-vacuity: the example databases agree on the cited keys, differ as databases, and the state after READ is a good state',
    'C06_frame_read_nonvacuous': 'non-vacuity: the hypotheses of the READ reduction hold for the two example readers',
    'C06_frame_run_nonvacuous': 'non-vacuity: the hypotheses of the run theorem hold for the two example readers and the runs are equal with the expected .bbl',
    'C06_frame_run_reports_nonvacuous': 'non-vacuity: the example readers satisfy the hypotheses of the reports variants (good READ state, agreeing databases)',
    'C06_frame_uncited_alt_nonvacuous': 'non-vacuity: an uncited entry standing between two cited ones satisfies the side condition',
    'C06_one_item_per_citation_nonvacuous': 'non-vacuity of the hypotheses on f only (hf, hcit): f = {cite$ write$ newline$} satisfies them for every state with InvEx and every key (fuel 10); three tiny styles evaluated to citation / reverse / sort-key order; a concrete stable sort. The state hypotheses (hs, hv) are instantiated in C06_one_item_per_citation_instance',
    'C06_one_item_per_citation_instance': 'instantiation of ALL hypotheses: the state after READ FUNCTION {f} {cite$ write$ newline$} on the example database satisfies InvEx and binds f (hs, hv), resolved citations a b; the theorem applied to it predicts the lines of ITERATE {f}, REVERSE {f}, SORT ITERATE {f}, and these commands do succeed from it with exactly those lines',
    'C06_bib_format_selects': '[model wiring] definitional unfolding of makeBibliography: bib_format hands suffix and reader database over as ONE Format object, none = bibtexFormat (.bib, no database); conjuncts 2-4 are rfl; that the code selects suffix and reader together is carried by the correspondence check (bib_format cases with a decoy or absent .bib file)',
    'C06_bib_format_selects_nonvacuous': 'non-vacuity: a reader delivering only entry b is used although refs.bib holds both entries; the same suffix without a reader database finds no file',
    'C06_entry_points': "[model wiring] formatFromString / formatFromFile are DEFINED as formatFromFiles on [.text t] / [.file n] (conjunct 2 is rfl); proved content: file sources whose files hold the texts read as the texts, hence format_from_files(names) = format_from_strings(texts); that the code's entry points agree is carried by the correspondence check",
    'C06_entry_points_nonvacuous': 'non-vacuity: the example .bib text through format_from_string, format_from_file and split into two strings',
    'C06_files_opened_by_read': "part 1 (real content): a READ-free prefix of known commands runs as in the file-less interpreter whatever the data sources are (a style without READ never needs them; an error before READ is the run's error); parts 2/3 [model wiring]: unfold stepF (READ opens the sources, missing file = cannotOpen; unknown command printed, skipped); the CODE's order of file access: correspondence check",
    'C06_files_opened_by_read_nonvacuous': 'non-vacuity: four miniature styles on a MISSING data file (no READ: output; raises before READ: that error; syntax error behind executed commands: surfaces after they ran, unless they raised first; with READ: cannot open) and an unknown command that is printed and skipped',
    'C06_frame_files': 'the frame theorem at the entry point: two format_from_files calls with the same style (pre; READ; post), citations and min_crossrefs on two file systems / source lists whose READ steps leave states differing in the database only, with databases agreeing on the resolved citations, return the same .bbl, reports, printed output or error',
    'C06_frame_files_nonvacuous': 'non-vacuity: the example style parses to ENTRY FUNCTION READ ITERATE, both example .bib files are read, the two calls give the same .bbl',
    'C06_order_general': 'the order clauses for the command skeleton of the shipped styles: every command other than READ and SORT (also ITERATE / REVERSE over any function) leaves the citation list and the database alone; mid; ITERATE {f} emits the items in citation order behind the output of mid; SORT; mid; ITERATE {f} emits them in sortByKey order of the citations paired with their sort.key$ at the time of the SORT (permutation, ascending, ties in the order before the SORT = citation order for the first SORT)',
    'C06_order_general_nonvacuous': 'non-vacuity: READ ITERATE {k} SORT STRINGS {x} ITERATE {k} REVERSE {k} ITERATE {f} has a mid without READ / SORT and gives the keys in sort-key order',
    'C06_item_starts_with_bibitem': 'for the output.bibitem ... skeleton of unsrt.bst / plain.bst (standard write$ / newline$ / cite$ bindings; output.bibitem begins newline$ "\\bibitem{" write$ cite$ write$ "}" write$ newline$): one call appends lines STARTING with the pending line and \\bibitem{k}; ITERATE under a kept invariant appends as many blocks as citations, in citation order, each BEGINNING with \\bibitem{k} - the rest of a block is unconstrained (not proved free of further \\bibitem)',
    'C06_item_starts_with_bibitem_nonvacuous': 'non-vacuity: a style with the standard output.bibitem and ITERATE {call.type$} produces \\bibitem{a} ... \\bibitem{b} ...',
    'C06_frame_reordered': "the database file is reordered: two readings that deliver the same entry under every key (in any order), with equal preamble and reader reports and no '*' cited, make READ resolve the same citations with the same reports and leave states differing in the database only, with agreeing databases - the READ hypothesis of C06_frame_run / C06_frame_files, hence equal runs",
    'C06_frame_reordered_nonvacuous': 'non-vacuity: the two example readers deliver the same entry under every key in different orders',
    'C06_frame_swap_alt': "reordering the entry list a bib_format reader delivers: two neighbours change places - if their keys differ up to case, neither is the crossref target of the other (parent-after-child proviso) nor refers to '*', at most one repeats an earlier key and no '*' is cited, the whole run (.bbl, reports, printed output, or the error) is the same for both orders",
    'C06_frame_swap_alt_nonvacuous': 'non-vacuity: the example list noise a b / noise b a satisfies the conditions; the run gives a, b',
    'C06_item_starts_with_bibitem_alpha': "the same for alpha.bst's output.bibitem (newline$ \"\\bibitem[\" write$ label write$ \"]{\" write$ cite$ write$ \"}\" write$ newline$): the lines appended for entry k start with the pending line and \\bibitem[L]{k}, L the text of k's label variable",
    'C06_item_starts_with_bibitem_alpha_nonvacuous': 'non-vacuity: a style with that output.bibitem and labels computed in an earlier ITERATE pass produces \\bibitem[Z]{a} \\bibitem[Y]{b}',
}
RULE = ('databases drawn from a pool of realistic entries (all standard types, cross-references, braces, special characters, a group of entries '
        'identical up to the key = sort-key ties, a group with one alpha label = label collisions, non-ASCII text) with random subsets / '
        'permutations (parents after their children), noise entries inserted anywhere, one file or the same text split into two files, '
        "citation lists with and without '*', unknown keys, case variants and repeated keys, each standard style of tests/data (unsrt, plain, "
        'alpha; thorough: unsrt_mixed, IEEEtran, jurabib, apacite too) plus six generated miniature styles (REVERSE-computed sort keys, no READ, an '
        'error before READ, a syntax error behind executed commands), every entry point (make_bibliography through a generated .aux, the '
        'command line, format_from_files / _file / _string / _strings, the default citations argument, Interpreter.run with an unknown '
        'command), every combination of style= / bib_format= override (YAML copy beside a decoy or absent .bib file), output_encoding / '
        'bib_encoding; non-trivial = at least two cited entries; distinct by case JSON')
TRUSTED = ['the standard .bst files are inputs (not modelled); the YAML reader is used as is for the bib_format override',
           'real temp files under a private directory outside /repo and /verif']
ASSUMPTIONS = ['ASCII field values except in the note field (lower-case Latin-1 letters); parents occur after the children that reference '
               "them (C05 ordering proviso); 'the file is reordered' is checked for citation lists without '*' (with '*' the file order IS "
               'the citation order)']

POOL = {
    'knuth84': '@book{knuth84, author = {Donald E. Knuth}, title = {The {\\TeX}book}, publisher = {Addison-Wesley}, year = 1984}',
    'lamport86': '@book{lamport86, author = "Leslie Lamport", title = "{\\LaTeX}: A Document Preparation System", publisher = {Addison-Wesley}, year = 1986, edition = "Second"}',
    'art1': '@article{art1, author = {Jean de La Fontaine and Victor Hugo}, title = {An article title: with Colon}, journal = {J. of Things}, year = 1990, volume = 3, number = 2, pages = {1--10}, month = jan}',
    'art2': "@article{art2, author = {{\\'E}mile Zola and others}, title = {another title}, journal = {J. of Things}, year = {1990}, pages = {11-20}, note = {A note}}",
    'inproc1': '@inproceedings{inproc1, author = {Ann B. Cee}, title = {In proc one}, crossref = {proc}, pages = {5--6}}',
    'inproc2': '@inproceedings{inproc2, author = {Dee E. Eff and Gee Aitch}, title = {In proc two}, crossref = {proc}}',
    'proc': '@proceedings{proc, editor = {Ed Itor}, title = {Proceedings of the Conference}, booktitle = {Proc. Conf.}, year = 2001, publisher = {ACM}, address = {New York}}',
    'misc1': '@misc{misc1, title = {Untitled misc}, howpublished = {Web}, year = 2010, month = dec}',
    'tech1': '@techreport{tech1, author = {von Beethoven, Jr, Ludwig}, title = {A report}, institution = {MIT}, year = 1999, number = {TR-1}}',
    'phd1': '@phdthesis{phd1, author = {Q. R. Student}, title = {Thesis title}, school = {Uni}, year = 2005}',
    'unpub1': '@unpublished{unpub1, author = {No Body}, title = {Unpublished work}, note = {Draft}}',
    'book2': '@book{book2, editor = {Aaa Bbb and Ccc Ddd and Eee Fff}, title = {Edited volume}, publisher = {Pub}, year = 1984, volume = 7, series = {Lecture Notes}}',
    'incoll1': '@incollection{incoll1, author = {X. Y. Zed}, title = {A chapter}, booktitle = {The Collection}, publisher = {Pub}, year = 1995, chapter = 3, pages = {100--120}}',
    'manual1': '@manual{manual1, title = {The Manual}, organization = {Org}, year = 2020}',
}
# entries identical up to the key: equal sort keys in every sorting style (ties must keep citation order)
TIES = ['tieq', 'tiem', 'tiea', 'tiez']
for _k in TIES:
    POOL[_k] = '@article{%s, author = {Tom Tie}, title = {Tied title}, journal = {J. of Ties}, year = 2003}' % _k
# entries with one alpha label (Col07) and different titles: alpha.bst tells them apart by a letter handed out in REVERSE {reverse.pass}
COLLIDE = ['colg', 'cola', 'colb']
for _k, _t in zip(COLLIDE, ('Gamma rays', 'Alpha rays', 'Beta rays')):
    POOL[_k] = '@article{%s, author = {Carl Collide}, title = {%s}, journal = {J. of Rays}, year = 2007}' % (_k, _t)
# non-ASCII text (Latin-1, lower case) in a field no style inspects letter by letter
POOL['uni1'] = '@misc{uni1, author = {Uni Code}, title = {Encoded note}, note = {caf\u00e9 na\u00efve \u00fcber stra\u00dfe \u00e0 \u00f1}, year = 2011}'
ORDER = list(POOL)
NOISE = ['@misc{noise1, title = {Noise one}, year = 1900}', '@article{noise2, author = {N. Oise}, title = {Noise two}, journal = {Nowhere}, year = 1901}',
         '@string{unusedmacro = "zzz"}', '@comment{ignored}']
STYLES_QUICK = ['unsrt', 'plain', 'alpha']
STYLES_ALL = ['unsrt', 'plain', 'alpha', 'unsrt_mixed']
# the large styles of tests/data: used in the thorough tier on the entries the model was found to agree on byte for byte
STYLES_LARGE = ['IEEEtran', 'jurabib', 'apacite']

_ITEM = 'FUNCTION {out} {"\\bibitem{" cite$ * "}" * write$ newline$}\n'
# generated miniature styles ("any .bst style"): what the standard styles never do
MINI = {
    # keys only, citation order
    'mini_keys': 'ENTRY {title}{}{}\n' + _ITEM + 'READ\nITERATE {out}\n',
    # sorted on the title (missing titles sort first)
    'mini_sorted': 'ENTRY {title}{}{}\nFUNCTION {pre} {title \'sort.key$ :=}\n' + _ITEM + 'READ\nITERATE {pre}\nSORT\nITERATE {out}\n',
    # the sort keys are numbered in a REVERSE pass: the last citation gets the smallest key
    'mini_revkey': ('ENTRY {title}{}{}\nINTEGERS {n}\nFUNCTION {num} {n #1 + \'n := "k" n int.to.str$ * \'sort.key$ :=}\n' + _ITEM +
                    'READ\nREVERSE {num}\nSORT\nITERATE {out}\n'),
    # two sorts: on the title, then on the year (entries with equal years stay in title order)
    'mini_twosorts': ('ENTRY {title year}{}{}\nFUNCTION {pre} {title \'sort.key$ :=}\nFUNCTION {pre2} {year \'sort.key$ :=}\n' + _ITEM +
                      'READ\nITERATE {pre}\nSORT\nITERATE {pre2}\nSORT\nITERATE {out}\n'),
    # no READ at all: the database files are never opened
    'mini_noread': 'ENTRY {}{}{}\nFUNCTION {out} {"no database needed" write$ newline$}\nEXECUTE {out}\n',
    # raises before READ: the error of the run is this one, whatever the database files are
    'mini_raise': 'ENTRY {}{}{}\nFUNCTION {bad} {pop$}\nEXECUTE {bad}\nREAD\n',
    # a syntax error behind executed commands: the script is parsed command by command while it runs
    'mini_syntax': 'ENTRY {title}{}{}\n' + _ITEM + 'READ\nITERATE {out}\nBOGUS {x}\n',
    'mini_raise_syntax': 'ENTRY {}{}{}\nFUNCTION {bad} {pop$}\nEXECUTE {bad}\nBOGUS {x}\n',
}

_STYLE_TEXT = {}


def style_text(name):
    if name in MINI:
        return MINI[name]
    if name not in _STYLE_TEXT:
        with open(os.path.join(compat.REPO, 'tests', 'data', name + '.bst'), encoding='utf-8') as f:
            _STYLE_TEXT[name] = f.read()
    return _STYLE_TEXT[name]


_TMP = {}
_ROOT = []


def _root():
    """one private directory per check run, created (and removed at exit) by the process that generates the cases; worker
    processes forked later use sub-directories of it"""
    if not _ROOT:
        base = '/dev/shm' if os.access('/dev/shm', os.W_OK) else None
        _ROOT.append((os.getpid(), tempfile.mkdtemp(prefix='verif-c06-', dir=base)))
        import atexit
        atexit.register(_cleanup, os.getpid(), _ROOT[0][1])
    return _ROOT[0][1]


def _cleanup(pid, d):
    if os.getpid() == pid:
        shutil.rmtree(d, True)


def _tmpdir():
    d = _TMP.get(os.getpid())
    if d is None:
        d = os.path.join(_root(), str(os.getpid()))
        os.makedirs(d, exist_ok=True)
        _TMP[os.getpid()] = d
    return d


def bib_parts(case, keys=None, noise=None):
    keys = case['keys'] if keys is None else keys
    parts = [POOL[k] for k in keys]
    for pos, n in (case.get('noise', []) if noise is None else noise):
        parts.insert(min(pos, len(parts)), NOISE[n])
    return parts


def bib_text(case, keys=None, noise=None):
    return '\n\n'.join(bib_parts(case, keys, noise)) + '\n'


def bib_texts(case):
    """the database file(s) of the case: one file, or the same commands split into two files at case['split']"""
    parts = bib_parts(case)
    sp = case.get('split')
    if sp is None:
        return ['\n\n'.join(parts) + '\n']
    sp = max(0, min(sp, len(parts)))
    return ['\n\n'.join(parts[:sp]) + '\n', '\n\n'.join(parts[sp:]) + '\n']


BIB_NAMES = ['refs', 'refs2']


def decoy_text(text):
    """the same entries with other titles: what a run that ignores bib_format would read"""
    return text.replace('title = {', 'title = {Decoy ').replace('title = "', 'title = "Decoy ')


def _write(path, text, encoding='utf-8'):
    with open(path, 'w', encoding=encoding, newline='') as f:
        f.write(text)


def _run(fn):
    import contextlib
    import pybtex.io
    import io as _io
    from pybtex import errors
    from pybtex.exceptions import PybtexError
    old_out = pybtex.io.stdout
    pybtex.io.stdout = _io.StringIO()
    sysout = _io.StringIO()
    try:
        with contextlib.redirect_stdout(sysout):
            with errors.capture() as captured:
                r = fn()
        return {'bbl': r, 'reports': [c03.canon_report(e) for e in captured if type(e).__name__ != 'AuxDataError'],
                'aux_errors': sum(1 for e in captured if type(e).__name__ == 'AuxDataError'), 'stdout': sysout.getvalue()}
    except PybtexError as e:
        if type(getattr(e, 'parser', None)).__name__ == 'BstParser':
            return {'error': ['BST-SYNTAX']}
        return {'error': [type(e).__name__]}
    except Exception as e:  # noqa
        return {'error': ['INTERNAL'], 'detail': '%s: %s' % (type(e).__name__, e)}
    finally:
        pybtex.io.stdout = old_out


def eff_style(case):
    return case.get('style_override') or case['style']


def aux_lines(case, d):
    aux = ['\\relax '] + _citation_lines(case)
    aux.append('\\bibstyle{%s}' % (d + '/' + case['style']))
    aux.append('\\bibdata{%s}' % ','.join(d + '/' + n for n in BIB_NAMES[:len(bib_texts(case))]))
    return aux


def yaml_text(case):
    from pybtex import errors
    from pybtex.database import parse_string
    with errors.capture():
        return parse_string(bib_text(case), 'bibtex').to_string('yaml')


def setup_files(case, d):
    """Write style, bib (or yaml copy + decoy bib) and aux files."""
    enc = case.get('enc') or 'utf-8'
    for st in set([case['style']] + ([case['style_override']] if case.get('style_override') else [])):
        _write(os.path.join(d, st + '.bst'), style_text(st))
    texts = bib_texts(case)
    if case.get('yaml'):
        # the bib_format override must be observable: beside refs.yaml there is either no refs.bib at all or one with other titles
        _write(os.path.join(d, 'refs.yaml'), yaml_text(case), enc)
        if case.get('decoy', True):
            _write(os.path.join(d, 'refs.bib'), decoy_text(texts[0]), enc)
        _write(os.path.join(d, 'plain_copy.bib'), texts[0], enc)
    elif not case.get('missing_bib'):
        for n, t in zip(BIB_NAMES, texts):
            _write(os.path.join(d, n + '.bib'), t, enc)
    _write(os.path.join(d, 'doc.aux'), '\n'.join(aux_lines(case, d)) + '\n', enc)


def _yaml_parser():
    from pybtex.database.input.bibyaml import Parser as YamlParser
    return YamlParser


def run_aux(case, d):
    from pybtex.bibtex import make_bibliography
    kw = {'min_crossrefs': case['min_crossrefs']}
    if case.get('style_override'):
        kw['style'] = os.path.join(d, case['style_override'])
    if case.get('yaml'):
        kw['bib_format'] = _yaml_parser()
    enc = case.get('enc')
    if enc:
        kw['output_encoding'] = enc
        kw['bib_encoding'] = enc
    raw = {}

    def go():
        bbl = os.path.join(d, 'doc.bbl')
        if os.path.exists(bbl):
            os.unlink(bbl)
        make_bibliography(os.path.join(d, 'doc.aux'), **kw)
        with open(bbl, 'rb') as f:
            raw['bytes'] = f.read()
        return raw['bytes'].decode(enc or 'utf-8')
    r = _run(go)
    if 'bytes' in raw and 'error' not in r:
        r['hex'] = raw['bytes'].hex()
    return r


def run_cli(case, d):
    """the command line front end: `pybtex doc.aux [--style S] [-f yaml] --min-crossrefs N` (option plumbing of __main__.py)"""
    import io as _io
    import sys
    import pybtex.io
    from pybtex import errors
    from pybtex.__main__ import main
    argv = ['pybtex', os.path.join(d, 'doc.aux'), '--min-crossrefs', str(case['min_crossrefs'])]
    if case.get('style_override'):
        argv += ['--style', os.path.join(d, case['style_override'])]
    if case.get('yaml'):
        argv += ['-f', 'yaml']
    bbl = os.path.join(d, 'doc.bbl')
    if os.path.exists(bbl):
        os.unlink(bbl)
    old = (sys.argv, errors.strict, errors.error_code, pybtex.io.stderr, pybtex.io.stdout, sys.stderr)
    sys.argv = argv
    pybtex.io.stderr = sys.stderr = _io.StringIO()
    pybtex.io.stdout = _io.StringIO()
    try:
        try:
            main()
            code = 0
        except SystemExit as e:
            code = e.code
        except Exception as e:  # noqa
            return {'error': ['INTERNAL'], 'detail': '%s: %s' % (type(e).__name__, e)}
        if not os.path.exists(bbl):
            return {'error': ['no-output'], 'code': code}
        with open(bbl, encoding='utf-8', newline='') as f:
            return {'bbl': f.read(), 'code': code}
    finally:
        sys.argv, errors.strict, errors.error_code, pybtex.io.stderr, pybtex.io.stdout, sys.stderr = old


def _files_kw(case, yaml):
    kw = {'min_crossrefs': case['min_crossrefs'], 'citations': list(case['citations'])}
    if yaml:
        kw['bib_format'] = _yaml_parser()
    if case.get('enc'):
        kw['bib_encoding'] = case['enc']
    return kw


def run_files(case, d, keys=None, noise=None, yaml=None, single=False, how='files'):
    """the explicit call.  how = files | file | string | default (no citations argument) | bytes (written to a file as make_bibliography does)"""
    from pybtex.bibtex import BibTeXEngine
    eng = BibTeXEngine()
    yaml = bool(case.get('yaml')) if yaml is None else yaml
    enc = case.get('enc') or 'utf-8'
    style = os.path.join(d, eff_style(case))
    kw = _files_kw(case, yaml)
    if keys is not None or noise is not None or single:
        _write(os.path.join(d, 'variant.bib'), bib_text(case, keys, noise), enc)
        paths = [os.path.join(d, 'variant.bib')]
    elif yaml:
        paths = [os.path.join(d, 'refs.yaml')]
    elif case.get('yaml'):
        paths = [os.path.join(d, 'plain_copy.bib')]
    else:
        paths = [os.path.join(d, n + '.bib') for n in BIB_NAMES[:len(bib_texts(case))]]
    if how == 'file':
        return _run(lambda: eng.format_from_file(paths[0], style=style, **kw))
    if how == 'string':
        texts = [yaml_text(case)] if yaml else bib_texts(case)
        kw.pop('bib_encoding', None)
        if len(texts) == 1:
            return _run(lambda: eng.format_from_string(texts[0], style=style, **kw))
        return _run(lambda: eng.format_from_strings(texts, style=style, **kw))
    if how == 'default':
        del kw['citations']
        return _run(lambda: eng.format_from_files(paths, style=style, **kw))
    if how == 'bytes':
        raw = {}

        def go():
            out = os.path.join(d, 'explicit')
            eng.format_from_files(paths, style=style, output_encoding=enc, output_filename=out, add_output_suffix=True, **kw)
            with open(out + '.bbl', 'rb') as f:
                raw['bytes'] = f.read()
            return raw['bytes'].decode(enc)
        r = _run(go)
        if 'bytes' in raw and 'error' not in r:
            r['hex'] = raw['bytes'].hex()
        return r
    return _run(lambda: eng.format_from_files(paths, style=style, **kw))


def run_inject(case, d):
    """Interpreter.run on the parsed script of the style with an unknown command put in at a position"""
    from pybtex.bibtex import bst
    from pybtex.bibtex.interpreter import Interpreter
    from pybtex.database.input.bibtex import Parser
    pos, name = case['inject']
    paths = [os.path.join(d, n + '.bib') for n in BIB_NAMES[:len(bib_texts(case))]]

    def go():
        script = list(bst.parse_file(os.path.join(d, eff_style(case)) + '.bst'))
        script.insert(pos, [name])
        return Interpreter(Parser, None).run(script, list(case['citations']), paths, min_crossrefs=case['min_crossrefs'])
    return _run(go)


# The quick tier has fewer cases than check.py's threshold for its process pool; every case costs four to six runs of the real
# engine (~0.1 s).  gen_cases therefore computes impl() for its cases in a fork pool (the same function, the same working tree)
# and impl() hands each precomputed result out ONCE; replays, shrinks and anything not precomputed run in-process as usual.
_PRE = {}


def _key(case):
    import json
    return json.dumps(case, sort_keys=True, ensure_ascii=False)


def _impl_worker(case):
    import signal

    def _alarm(*_a):
        raise TimeoutError()
    old = signal.signal(signal.SIGALRM, _alarm)
    signal.setitimer(signal.ITIMER_REAL, 60)
    try:
        return _impl(case)
    except BaseException:  # noqa: left to the in-process call, which reports it through check.py
        return None
    finally:
        signal.setitimer(signal.ITIMER_REAL, 0)
        signal.signal(signal.SIGALRM, old)


def _prefetch(cases):
    import multiprocessing
    n = int(os.environ.get('VERIF_C06_PREFETCH', min(16, os.cpu_count() or 1)))
    if n <= 1 or len(cases) >= 3000 or multiprocessing.current_process().name != 'MainProcess':
        return
    try:
        with multiprocessing.get_context('fork').Pool(n) as pool:
            for c, o in zip(cases, pool.map(_impl_worker, cases, chunksize=4)):
                if o is not None:
                    _PRE[_key(c)] = o
    except Exception:  # noqa
        _PRE.clear()


def impl(case):
    o = _PRE.pop(_key(case), None) if _PRE else None
    return o if o is not None else _impl(case)


def _impl(case):
    d = os.path.join(_tmpdir(), 'w')
    shutil.rmtree(d, True)
    os.makedirs(d)
    try:
        setup_files(case, d)
        out = {'aux': run_aux(case, d), 'files': run_files(case, d, how='bytes' if case.get('enc') else 'files')}
        if case.get('cli'):
            out['cli'] = run_cli(case, d)
        # the other entry points named in the quantifier
        if case.get('entry') in ('file', 'string', 'default'):
            out[case['entry']] = run_files(case, d, how=case['entry'])
        if case.get('inject'):
            out['inject'] = run_inject(case, d)
        # metamorphic variants (implementation only)
        if case.get('variant_keys') is not None or case.get('variant_noise') is not None:
            out['variant'] = run_files(case, d, keys=case.get('variant_keys'), noise=case.get('variant_noise'))
        if case.get('split') is not None and not case.get('missing_bib'):
            out['single'] = run_files(case, d, single=True)
        if case.get('yaml'):
            out['bibtex_db'] = run_files(case, d, yaml=False)
        # resolved citations as the property defines them (unfiltered database, then selection)
        from pybtex import errors
        from pybtex.database import parse_string
        with errors.capture():
            db = parse_string(bib_text(case), 'bibtex')
            res = db.add_extra_citations(list(case['citations']), case['min_crossrefs'])
        out['resolved'] = [k for k in res if k in db.entries]
        out['dir'] = d
        out['view'] = case.get('view') or 'aux'
        return out
    finally:
        shutil.rmtree(d, True)


def to_request(case):
    d = '/D'
    texts = [[d + '/' + case['style'] + '.bst', style_text(case['style'])]]
    if case.get('style_override'):
        texts.append([d + '/' + case['style_override'] + '.bst', style_text(case['style_override'])])
    bt = bib_texts(case)
    if case.get('yaml'):
        if case.get('decoy', True):
            texts.append([d + '/refs.bib', decoy_text(bt[0])])
    elif not case.get('missing_bib'):
        for n, t in zip(BIB_NAMES, bt):
            texts.append([d + '/' + n + '.bib', t])
    req = {'op': 'makebib', 'aux_files': [[d + '/doc.aux', aux_lines(case, d)]], 'texts': texts,
           'min_crossrefs': case['min_crossrefs'], 'alt': None}
    if case.get('yaml'):
        from pybtex import errors
        from pybtex.database import parse_string
        with errors.capture():
            ydb = parse_string(yaml_text(case), 'yaml')
        entries, preamble = c01.canon_db(ydb)
        req['alt'] = {'entries': entries, 'preamble': preamble}
    view = case.get('view') or 'aux'
    if view == 'aux':
        req.update({'mode': 'aux', 'top': d + '/doc.aux',
                    'style_override': (d + '/' + case['style_override']) if case.get('style_override') else None,
                    'bib_format': {'suffix': '.yaml'} if case.get('yaml') else None})
    else:
        if view == 'string':
            srcs = [['text', yaml_text(case)]] if case.get('yaml') else [['text', t] for t in bt]
        else:
            srcs = [['file', d + '/refs.yaml']] if case.get('yaml') else [['file', d + '/' + n + '.bib'] for n in BIB_NAMES[:len(bt)]]
        req.update({'mode': 'inject' if view == 'inject' else 'files', 'srcs': srcs, 'style': d + '/' + eff_style(case),
                    'citations': list(case['citations'])})
        if view == 'inject':
            req['inject_pos'], req['inject_name'] = case['inject']
    return req


def _norm_paths(s, d):
    return s.replace(d, '/D') if isinstance(s, str) else s


def compare_view(io):
    """the run the model is compared with: the .aux entry point, or (case['view']) the explicit call / format_from_string(s) /
    Interpreter.run with an injected unknown command"""
    a = io[{'aux': 'aux', 'files': 'files', 'string': 'string', 'inject': 'inject'}[io.get('view', 'aux')]]
    if 'error' in a:
        return {'error': a['error']}
    return {'bbl': a['bbl'], 'reports': [[c, _norm_paths(m, io['dir'])] for c, m in a['reports']], 'aux_errors': a['aux_errors']}


def model_out(case, reply):
    o = reply['out']
    if 'error' in o:
        e = o['error']
        if e[0] == 'RUN':
            return {'error': [e[1][0]]}
        if e[0] == 'AUX':
            return {'error': ['AuxDataError' if (e[1] or {}).get('kind') not in ('open',) else 'PybtexError']}
        return {'error': [e[0]]}
    return {'bbl': o['bbl'], 'reports': o['reports'], 'aux_errors': o['aux_errors']}


def bibitem_keys(bbl):
    """the keys of the \\bibitem commands, in order: \\bibitem{key} / \\bibitem[label]{key}; the label may contain braces and (inside
    braces) brackets, apacite breaks the line with %<newline> in front of the key"""
    keys, i, n = [], 0, len(bbl)
    while True:
        i = bbl.find('\\bibitem', i)
        if i < 0:
            return keys
        i += len('\\bibitem')
        if i < n and bbl[i] == '[':
            depth = 0
            while i < n:
                ch = bbl[i]
                if ch == '{':
                    depth += 1
                elif ch == '}':
                    depth -= 1
                elif ch == ']' and depth == 0:
                    i += 1
                    break
                i += 1
        if i < n and bbl[i] == '{':
            j = bbl.find('}', i)
            if j < 0:
                return keys
            keys.append(bbl[i + 1:j].replace('%\n', '').strip())
            i = j


def expected_order(resolved, sorts):
    """the order the property demands: citation order, then one STABLE sort per SORT command the style executes, on the sort.key$
    values (reference values: the model's) - Python's sorted() is stable and compares str by code point, as the statement says"""
    order = list(resolved)
    for obs in sorts:
        keymap = {c.lower(): k for c, k in obs}
        if any(c.lower() not in keymap or keymap[c.lower()] is None for c in order):
            return None
        order = sorted(order, key=lambda c: keymap[c.lower()])
    return order


def oracle(case, io, reply):
    fails = []
    a, f = io['aux'], io['files']
    for name in ('aux', 'files', 'variant', 'bibtex_db', 'single', 'file', 'string', 'default', 'inject'):
        r = io.get(name)
        if r and 'error' in r and r['error'][0] == 'INTERNAL':
            fails.append('no_internal: %s run raised %s' % (name, r.get('detail')))
    # the entry points named in the quantifier are the same explicit call
    for name, what in (('file', 'format_from_file(path)'), ('string', 'format_from_string(s) on the text(s) of the file(s)'),
                       ('default', "format_from_files without a citations argument (default ['*'])")):
        r = io.get(name)
        if r is not None and (r.get('error'), r.get('bbl')) != (f.get('error'), f.get('bbl')):
            fails.append('entry_points: %s gives %r, format_from_files on the same database %r' % (
                what, (r.get('bbl') or str(r.get('error')))[:200], (f.get('bbl') or str(f.get('error')))[:200]))
    if 'error' in a or 'error' in f:
        if a.get('error') != f.get('error'):
            fails.append('aux_equiv: make_bibliography gave %r, the explicit call %r' % (a.get('error') or 'output', f.get('error') or 'output'))
        return fails
    if a['bbl'] != f['bbl'] or a.get('hex') != f.get('hex', a.get('hex')):
        which = ' [style override]' if case.get('style_override') else (' [bib_format override]' if case.get('yaml') else '')
        fails.append('aux_equiv%s: driving the engine through the .aux file differs from the equivalent explicit call%s: %r vs %r' % (
            '/override' if which else '', ' (bytes written with output_encoding=%s)' % case['enc'] if case.get('enc') and a['bbl'] == f['bbl'] else '',
            a['bbl'][:200], f['bbl'][:200]))
    c = io.get('cli')
    if c is not None:
        if 'error' in c:
            fails.append('aux_equiv/cli: the command line run gave %r (exit %r), make_bibliography an output' % (c['error'], c.get('code')))
        elif c['bbl'] != a['bbl']:
            fails.append('aux_equiv/cli: the command line run differs from make_bibliography: %r vs %r' % (c['bbl'][:200], a['bbl'][:200]))
    keys = bibitem_keys(f['bbl'])
    emits_items = eff_style(case) not in ('mini_noread', 'mini_raise', 'mini_raise_syntax')
    if emits_items:
        low = [k.lower() for k in keys]
        if len(set(low)) != len(low):
            # "exactly one item per resolved citation": whatever the resolution, no key may get two items
            fails.append('one_item_per_citation: the keys %r get more than one item: items %r' % (sorted({k for k in low if low.count(k) > 1}), keys))
        elif sorted(k.lower() for k in keys) != sorted(k.lower() for k in io['resolved']):
            fails.append('one_item_per_citation: items %r, resolved citations %r' % (keys, io['resolved']))
        else:
            sorts = (reply.get('spec') or {}).get('sorts')
            if not sorts:
                if eff_style(case) in ('unsrt', 'unsrt_mixed', 'mini_keys') and [k.lower() for k in keys] != [k.lower() for k in io['resolved']]:
                    fails.append('citation_order: %s emitted %r, citation order is %r' % (eff_style(case), keys, io['resolved']))
            else:
                want = expected_order(io['resolved'], sorts)
                if want is not None and [k.lower() for k in keys] != [k.lower() for k in want]:
                    fails.append('sort_order: %s emitted %r; the stable sort of the resolved citations %r on sort.key$ is %r (keys %r)' % (
                        eff_style(case), keys, io['resolved'], want, sorts[-1]))
    v = io.get('variant')
    if v is not None and v.get('bbl') != f['bbl']:
        fails.append('frame: output changed when uncited entries were added/removed or the file was reordered: %r vs %r' % (
            (v.get('bbl') or str(v.get('error')))[:200], f['bbl'][:200]))
    sg = io.get('single')
    if sg is not None and sg.get('bbl') != f['bbl']:
        fails.append('frame/split: the same database given as two files differs from the one-file run: %r vs %r' % (
            f['bbl'][:200], (sg.get('bbl') or str(sg.get('error')))[:200]))
    b = io.get('bibtex_db')
    if b is not None and 'error' not in b and bibitem_keys(b['bbl']) != keys:
        fails.append('override_format: reading the YAML copy gives items %r, the .bib file %r' % (keys, bibitem_keys(b['bbl'])))
    return fails


def buckets(case, io):
    b = [case['style']]
    if case.get('style_override'):
        b.append('style-override')
    if case.get('yaml'):
        b.append('yaml')
    if case.get('variant_keys') is not None or case.get('variant_noise') is not None:
        b.append('variant')
    if case.get('split') is not None:
        b.append('two-files')
    if case.get('entry'):
        b.append('entry:' + case['entry'])
    if case.get('view') and case['view'] != 'aux':
        b.append('model-view:' + case['view'])
    if case.get('enc'):
        b.append('enc:' + case['enc'])
    if case.get('family'):
        b.append('family:' + case['family'])
    if 'error' in io['aux']:
        b.append('error:' + io['aux']['error'][0])
    return b


def nontrivial(case, io):
    return len(io.get('resolved', [])) >= 2


def valid_case(case):
    return False


def corpus():
    return corpus_for(ID)


def closure_ok(keys):
    """parents after children (C05 proviso)"""
    if 'proc' in keys:
        i = keys.index('proc')
        return all(k not in keys or keys.index(k) < i for k in ('inproc1', 'inproc2'))
    return True


def _citation_lines(case):
    """the \\citation lines of the .aux file: one key per line, or grouped as case['aux_groups'] says (sizes summing to the number of citations)"""
    cites = list(case['citations'])
    groups = case.get('aux_groups')
    if not groups or sum(groups) != len(cites) or any(g < 1 for g in groups):
        return ['\\citation{%s}' % c for c in cites]
    out, i = [], 0
    for g in groups:
        out.append('\\citation{%s}' % ','.join(cites[i:i + g]))
        i += g
    return out


def _base(keys, cites, style, mc=2, **kw):
    case = {'op': 'makebib', 'keys': list(keys), 'citations': list(cites), 'style': style, 'min_crossrefs': mc, 'noise': [],
            'style_override': None, 'yaml': False}
    case.update(kw)
    return case


def gen_case(rng, styles):
    n = rng.randint(2, 8)
    keys = rng.sample(ORDER, n)
    if 'proc' in keys:
        keys.remove('proc')
        keys.append('proc')
    elif rng.random() < 0.5 and any(k in keys for k in ('inproc1', 'inproc2')):
        keys.append('proc')
    cites = []
    r = rng.random()
    if r < 0.2:
        cites = ['*']
    elif r < 0.24:
        cites = []          # an .aux file without any \\citation line / an explicit empty citation list
    else:
        for k in rng.sample(keys, rng.randint(1, len(keys))):
            cites.append(k if rng.random() < 0.9 else k.upper())
        if rng.random() < 0.15:
            cites.insert(rng.randint(0, len(cites)), 'nosuchkey')
        if rng.random() < 0.1:
            cites.append('*')
    # a key cited twice in two spellings is an .aux error (C20): keep spellings consistent
    seen = {}
    cites = [seen.setdefault(c.lower(), c) for c in cites]
    groups = None
    if cites and rng.random() < 0.3:
        # LaTeX writes one \citation line per \cite command: several keys on one line, keys cited again later (same spelling)
        for _ in range(rng.randint(1, 3)):
            cites.insert(rng.randint(1, len(cites)), rng.choice(cites))
        groups, left = [], len(cites)
        while left:
            g = min(left, rng.randint(1, 3))
            groups.append(g)
            left -= g
    case = {'op': 'makebib', 'keys': keys, 'citations': cites, 'style': rng.choice(styles), 'min_crossrefs': rng.choice([1, 2, 2, 3]),
            'noise': [], 'style_override': None, 'yaml': False, 'cli': rng.random() < 0.3}
    if groups:
        case['aux_groups'] = groups
    r = rng.random()
    if r < 0.2 and len(styles) > 1:
        case['style_override'] = rng.choice([s for s in styles if s != case['style']])
    elif r < 0.35:
        case['yaml'] = True
        case['decoy'] = rng.random() < 0.6
    if not case['yaml']:
        r = rng.random()
        if r < 0.25 and len(keys) >= 2:
            case['split'] = rng.randint(0, len(keys))       # the same database as two files (\bibdata{refs,refs2})
        if rng.random() < 0.12 and 'uni1' in keys:
            case['enc'] = 'latin-1'
            case['cli'] = False
    # further entry points / the run the model is compared with
    r = rng.random()
    if r < 0.2 and case.get('split') is None:
        case['entry'] = 'file'
    elif r < 0.45:
        case['entry'] = 'string'
        if rng.random() < 0.5 and not case.get('enc'):
            case['view'] = 'string'
    elif r < 0.55 and cites == ['*'] and case.get('split') is None:
        case['entry'] = 'default'
    elif r < 0.7 and not case.get('enc'):
        case['view'] = 'files'
    if '*' not in cites and not case['yaml'] and case.get('split') is None:
        r = rng.random()
        cited = {c.lower() for c in cites}
        needed = set(cited)
        if any(k in cited for k in ('inproc1', 'inproc2')):
            needed.add('proc')
        if r < 0.35:
            case['variant_noise'] = [[rng.randint(0, len(keys)), rng.randrange(len(NOISE))] for _ in range(rng.randint(1, 3))]
        elif r < 0.6:
            vk = [k for k in keys if k in needed or rng.random() < 0.5]
            case['variant_keys'] = vk
        elif r < 0.8:
            vk = list(keys)
            rng.shuffle(vk)
            if 'proc' in vk:
                vk.remove('proc')
                vk.append('proc')
            case['variant_keys'] = vk
    return case


def gen_ties(rng, styles):
    """2-4 entries identical up to the key (equal sort keys) and/or entries sharing an alpha label, cited in shuffled order"""
    group = rng.sample(TIES, rng.randint(2, 4)) + (rng.sample(COLLIDE, rng.randint(2, 3)) if rng.random() < 0.6 else [])
    others = rng.sample([k for k in ORDER if k not in TIES and k not in COLLIDE and k not in ('proc', 'inproc1', 'inproc2')], rng.randint(0, 2))
    keys = group + others
    rng.shuffle(keys)
    cites = list(keys)
    rng.shuffle(cites)
    if rng.random() < 0.3:
        cites = cites[:-1] or cites
    if rng.random() < 0.15:
        cites = ['*']
    case = _base(keys, cites, rng.choice(styles), family='ties', cli=False)
    r = rng.random()
    if r < 0.2:
        case['view'] = 'files'
    elif r < 0.35:
        case['yaml'] = True
        case['decoy'] = rng.random() < 0.5
    elif r < 0.5 and '*' not in cites:
        vk = list(keys)
        rng.shuffle(vk)
        case['variant_keys'] = vk
    return case


def mini_cases(rng, n_random):
    cases = []
    dbs = [(['knuth84', 'art1', 'misc1'], ['misc1', 'knuth84', 'art1']), (['tieq', 'tiea', 'art2'], ['tieq', 'art2', 'tiea']),
           (['inproc1', 'inproc2', 'proc'], ['inproc2', 'inproc1'])]
    for st in ('mini_keys', 'mini_sorted', 'mini_revkey', 'mini_twosorts', 'mini_syntax'):
        for keys, cites in dbs:
            for c in (cites, list(reversed(cites)), ['*']):
                cases.append(_base(keys, c, st, 1, family='mini', entry='string',
                                   variant_noise=[[1, 0]] if '*' not in c and st != 'mini_syntax' else None))
    # where and when the files are opened / the script is parsed
    for st in ('mini_noread', 'mini_raise', 'mini_raise_syntax', 'mini_keys', 'mini_syntax'):
        for missing in (False, True):
            for view in ('aux', 'files'):
                cases.append(_base(['knuth84', 'art1'], ['art1', 'knuth84'], st, family='mini', missing_bib=missing, view=view))
    cases.append(_base(['knuth84', 'art1'], ['art1'], 'mini_noread', family='mini', split=1, missing_bib=True))
    # an unknown command in a script handed to Interpreter.run
    for st, n in (('mini_keys', 5), ('mini_sorted', 7), ('unsrt', 3)):
        for pos in (0, 2, n):
            cases.append(_base(['knuth84', 'art1'], ['art1', 'knuth84'], st, family='mini', inject=[pos, 'FROBNICATE'], view='inject'))
    for _ in range(n_random):
        keys = rng.sample([k for k in ORDER if k != 'proc'], rng.randint(2, 6))
        cites = rng.sample(keys, rng.randint(1, len(keys)))
        case = _base(keys, cites, rng.choice(['mini_sorted', 'mini_revkey', 'mini_twosorts', 'mini_keys']), rng.choice([1, 2]), family='mini')
        if rng.random() < 0.5:
            case['split'] = rng.randint(0, len(keys))
        if rng.random() < 0.5:
            case['view'] = rng.choice(['files', 'string'])
            if case['view'] == 'string':
                case['entry'] = 'string'
        cases.append(case)
    return cases


def gen_cases(tier, rng, info):
    quick = tier == 'quick'
    _root()
    styles = STYLES_QUICK if quick else STYLES_ALL
    cases = []
    # small exhaustive part: every pair of entries x every citation list over them x style
    pairs = [('knuth84', 'art1'), ('inproc1', 'proc'), ('art2', 'tech1')]
    for a, b in pairs:
        for cites in ([a], [b], [a, b], [b, a], ['*'], [a.upper(), b], [b, 'nosuchkey'], [], ['nosuchkey']):
            for st in styles:
                for mc in (1, 2):
                    cases.append({'op': 'makebib', 'keys': [a, b], 'citations': cites, 'style': st, 'min_crossrefs': mc, 'noise': [],
                                  'style_override': None, 'yaml': False, 'variant_noise': [[0, 0], [2, 1]] if '*' not in cites else None})
    # ties and label collisions, systematically: every order of three tied entries / of the colliding group, sorting styles
    import itertools
    for st in [s for s in styles if s not in ('unsrt', 'unsrt_mixed')]:
        for group in (TIES[:3], COLLIDE):
            for cites in itertools.permutations(group):
                cases.append(_base(sorted(group), cites, st, family='ties'))
        cases.append(_base(TIES[:2] + COLLIDE[:2], [COLLIDE[1], TIES[1], COLLIDE[0], TIES[0]], st, family='ties', yaml=True, decoy=True))
        cases.append(_base(TIES[:2] + COLLIDE[:2], [COLLIDE[1], TIES[1], COLLIDE[0], TIES[0]], st, family='ties', yaml=True, decoy=False))
    # the bib_format override beside a decoy / an absent .bib file, both styles of override together
    for st in styles:
        for decoy in (True, False):
            cases.append(_base(['knuth84', 'art1', 'uni1'], ['art1', 'uni1', 'knuth84'], st, yaml=True, decoy=decoy, cli=True))
    cases.append(_base(['knuth84', 'art1'], ['art1', 'knuth84'], 'unsrt', yaml=True, decoy=True, style_override='plain', cli=True))
    # encodings: non-ASCII text written and read back with an 8-bit encoding
    for st in styles:
        cases.append(_base(['uni1', 'art1'], ['uni1', 'art1'], st, enc='latin-1'))
    mini = mini_cases(rng, 25 if quick else 300)
    cases += mini
    info['exhaustive'] = False
    rnd = []
    for _ in range(30 if quick else 400):
        rnd.append(gen_ties(rng, [s for s in styles if s != 'unsrt_mixed']))
    for _ in range(230 if quick else 3200):
        rnd.append(gen_case(rng, styles))
    if not quick:
        # the large styles shipped in tests/data (two or three SORTs, REVERSE passes): random databases, ties and label collisions
        # (a run costs ten times a standard style's: spread evenly over the stream so that the worker pool stays balanced)
        for st in STYLES_LARGE:
            for _ in range(60):
                c = gen_case(rng, [st])
                c['cli'] = False
                rnd.append(c)
            for _ in range(15):
                rnd.append(gen_ties(rng, [st]))
        rng.shuffle(rnd)
    cases += rnd
    # the same database as two files, '*' cited: the order of the FILES is the citation order
    for st in styles:
        for sp in (1, 2):
            cases.append(_base(['art1', 'knuth84', 'misc1'], ['*'], st, split=sp, entry='string', view='string' if sp == 1 else 'aux'))
    _prefetch(cases)
    n_sys = len(cases) - len(rnd)
    info['scope'] = '%d systematic cases (pairs x citation lists x styles, tie / label-collision permutations, miniature styles, overrides, ' \
                    'encodings) + seeded random databases from a pool of %d entries' % (n_sys, len(POOL))
    return cases


LEVEL_TEXT = ('Machine-checked proofs (Lean 4) over an executable model of Engine.make_bibliography, BibTeXEngine.format_from_files / '
              '_file / _string(s), the loop of Interpreter.run (style parsed lazily, data files opened by READ, unknown commands skipped) and '
              'the whole BST interpreter (every built-in, READ / ITERATE / REVERSE / SORT): (1) entry points and overrides are MODEL WIRING, '
              'not independent results: the model defines make_bibliography as the .aux reader followed by the explicit call with style= / '
              'bib_format= substituted and format_from_string / _file as format_from_files on one source (C06_aux_equiv, _overrides, '
              '_bib_format_selects, _entry_points unfold these definitions); that the CODE behaves so is established by the correspondence '
              'check only; proved there: a successful .aux parse has style and data, file sources holding the texts read as the texts, a '
              'READ-free prefix of the script never touches the data files; '
              '(2) frame theorem, by simultaneous induction on fuel over the six mutually recursive interpreter functions: '
              'everything after READ depends on the database only through the view (type, own and inherited fields, crossref value) of the '
              'resolved citations, which is determined by their crossref closure - so two runs (also: two format_from_files calls) whose READ '
              'steps resolve the same citations on databases agreeing there produce the same .bbl, reports and printed output; inserting an '
              "uncited, unreferenced entry into a reader's entry list or exchanging two neighbours of it (parent-after-child proviso, no '*') "
              'changes nothing; databases holding the same entry under every key in any order give the same READ result; (3) order: every '
              'command except READ and SORT keeps the citation list; IF f appends exactly one item per call (a hypothesis about the style, under an '
              'invariant it maintains) THEN mid; ITERATE {f} emits one item per resolved citation in citation order, '
              'SORT; mid; ITERATE {f} in stable sort.key$ order; an entry function beginning with the standard output.bibitem emits lines '
              'starting with \\bibitem{k} (each block BEGINS with it; the rest of a block is unconstrained).  Tied to the code by a byte-for-byte correspondence check of the model against the real engine on '
              'the shipped styles (unsrt, plain, alpha; thorough: unsrt_mixed, IEEEtran, jurabib, apacite) and generated miniature styles '
              'through every entry point with all override combinations, plus metamorphic checks and a sorted-order clause (reference sort '
              'keys from the model) on the implementation.')
LEVEL_NOTE = ('Trusted: Lean kernel; axioms propext/Classical.choice/Quot.sound only; the hand-written model corresponds to the code only as '
              'far as the differential check explores.  The step from "the two .bib files differ only in uncited, unreferenced entries or in '
              'order" to "the READ steps resolve the same citations on agreeing databases" is proved for a bib_format '
              "reader's entry list (insertion: C06_frame_uncited_alt; exchange of neighbours: C06_frame_swap_alt) and reduced to explicit "
              "equalities otherwise (C06_frame_read, C06_frame_reordered); for .bib text it rests on C05's filtered-reading theorem (with its "
              'ordering proviso: a cross-referenced parent must follow its children) and on the correspondence check.  '
              'C06_one_item_per_citation / C06_order_general take "f emits exactly one item" as a hypothesis about the style; '
              'C06_item_starts_with_bibitem discharges the \\bibitem{k} prologue for the output.bibitem skeleton of unsrt.bst / plain.bst (the '
              'rest of an entry function is arbitrary code: only "the output grows" is proved about it; alpha.bst\'s \\bibitem[label]{k} '
              'variant: C06_item_starts_with_bibitem_alpha).  Whole-run theorems are stated for styles with a single READ (all styles in existence).  '
              "The sort-order oracle clause takes the sort keys from the model (the property gives no other definition of a style's keys); "
              'REVERSE is visible to it only through generated styles whose sort keys are computed in a REVERSE pass.  Model wiring plus '
              'correspondence check only (no independent proof): .aux run = explicit call, style / bib_format overrides, equality of the entry '
              "points, lazy opening of the data files; the bib_format reader's own file access is not modelled (with a reader database the "
              "model opens no source, whereas the code's reader raises on a missing file).  Not modelled: the "
              "in-place mutation of the caller's citation list by SORT before READ; encodings (the model maps text to text; the byte-level "
              'comparison of the two entry points under output_encoding / bib_encoding is implementation-only).')
