"""C04 helper: the LOCAL functions of Person._parse_string (find_pos, split_at, rsplit_at, is_von_name, special_char_islower,
process_first_middle, process_von_last) as callables, rebuilt from the code objects of the running /repo.

`_parse_string` defines them anew on every call, so they cannot be imported; their code objects are constants of
`Person._parse_string.__code__`.  A function object is made from each code object with the module globals of pybtex.database and
closure cells filled with the other rebuilt locals (and with a fresh, empty `Person` for `self`).  Nothing of the code is copied
or re-typed: what runs is the byte code of the tree under test.

If the tree under test does not have a local of that name (or its free variables are not the ones known here) `get()` returns
None for it and the function-level families are skipped (the end-to-end families still run): a refactoring of the private helpers
must not raise an alarm by itself."""
import types


def nested_code(func):
    return {c.co_name: c for c in func.__code__.co_consts if isinstance(c, types.CodeType)}


class Locals(object):
    def __init__(self):
        from pybtex.database import Person
        self.Person = Person
        self.person = Person()          # `self` of process_first_middle / process_von_last
        self.codes = nested_code(Person._parse_string)
        self.globals = Person._parse_string.__globals__
        self.made = {}

    def get(self, name, _stack=()):
        if name in self.made:
            return self.made[name]
        code = self.codes.get(name)
        if code is None or name in _stack:
            return None
        cells = []
        for fv in code.co_freevars:
            if fv == 'self':
                cells.append(types.CellType(self.person))
            else:
                f = self.get(fv, _stack + (name,))
                if f is None:
                    return None
                cells.append(types.CellType(f))
        f = types.FunctionType(code, self.globals, name, None, tuple(cells))
        self.made[name] = f
        return f


def fresh():
    """a fresh set of locals around a fresh, empty Person"""
    return Locals()


def available():
    loc = fresh()
    return {n: loc.get(n) is not None for n in ('find_pos', 'split_at', 'rsplit_at', 'is_von_name', 'special_char_islower',
                                                'process_first_middle', 'process_von_last')}
