"""C20, second round: what the .aux reader reaches outside pybtex/auxfile.py.

ops (all in Drv/C20.lean, model Model/AuxFileIO.lean):
  auxio      parse_file / Engine.make_bibliography over real files with `pybtex.io.kpsewhich` replaced by a table (`kpse`),
             `\\@input` of directories and of paths through files, `report_error` in the modes capture / strict / nonstrict,
             `make_bibliography(style=…, bib_format=…)` with every keyword it hands to format_from_files
  auxopen    pybtex.io.open_unicode(name) alone (function level): lines, the name handed to the opener, or the message
  auxpath    os.path.splitext(s)[0] (what make_bibliography makes `output_filename` from)
  auxconsts  the texts the model uses against the source of the running tree
"""
import io as _io
import itertools
import os
import shutil
import tempfile

import compat

OPS = ('auxio', 'auxopen', 'auxpath', 'auxconsts')
MODES = ('capture', 'strict', 'nonstrict')


def _c20():
    from props import c20
    return c20


class _Patched(object):
    """pybtex.io.kpsewhich := table lookup (the external program is a parameter of the model)"""

    def __init__(self, table):
        self.table = dict((k, v) for k, v in table)

    def __enter__(self):
        import pybtex.io
        self.old = pybtex.io.kpsewhich
        table = self.table
        pybtex.io.kpsewhich = lambda filename: table.get(filename)
        return self

    def __exit__(self, *a):
        import pybtex.io
        pybtex.io.kpsewhich = self.old


def _write_files(d, case):
    c20 = _c20()
    seen = set()
    for name, lines in case['files']:
        if name in seen:
            continue
        seen.add(name)
        path = os.path.join(d, *name.split('/'))
        if '/' in name:
            os.makedirs(os.path.dirname(path), exist_ok=True)
        with open(path, 'w', encoding='utf-8', newline='') as f:
            f.write(c20._content(lines, case.get('nl', True)))


def _probe():
    from pybtex import Engine

    class Probe(Engine):
        seen = None

        def format_from_files(self, bib_filenames, **kwargs):
            bf = kwargs.get('bib_format')
            self.seen = {'bib_filenames': list(bib_filenames), 'style': kwargs.get('style'),
                         'citations': list(kwargs['citations']) if kwargs.get('citations') is not None else None,
                         'output_filename': kwargs.get('output_filename'), 'add_output_suffix': kwargs.get('add_output_suffix'),
                         'output_encoding': kwargs.get('output_encoding'), 'suffix': getattr(bf, 'default_suffix', None),
                         'extra': sorted(k for k in kwargs if k not in ('style', 'citations', 'bib_format', 'output_encoding',
                                                                       'output_filename', 'add_output_suffix'))}
            return ''
    return Probe()


def _impl_auxio(case):
    import pybtex.io
    from pybtex import auxfile, errors
    c20 = _c20()
    d = tempfile.mkdtemp(prefix='verif-c20io-', dir=c20._BASE)
    real = os.path.realpath(d)
    assert not real.startswith('/repo') and not real.startswith(compat.VERIF + os.sep), real
    cwd = os.getcwd()
    mode = case.get('mode', 'capture')
    eng = case.get('engine')
    old_strict, old_code, old_stderr, old_print = errors.strict, errors.error_code, pybtex.io.stderr, errors.print_error
    try:
        _write_files(d, case)
        os.chdir(d)
        data = None
        fatal = None
        engine = _probe() if eng is not None else None
        printed = []
        sink = _io.StringIO()

        def run():
            if engine is not None:
                kw = {}
                if 'style' in eng:
                    kw['style'] = eng['style']
                if 'bib_format' in eng:
                    kw['bib_format'] = eng['bib_format']
                engine.make_bibliography(case['top'], **kw)
                return None
            return auxfile.parse_file(case['top'])

        with _Patched(case.get('kpse', [])):
            if mode == 'capture':
                with errors.capture() as errs:
                    try:
                        data = run()
                    except Exception as e:
                        fatal = e
                errs = list(errs)
            else:
                errors.set_strict_mode(mode == 'strict')
                errors.error_code = 0
                pybtex.io.stderr = sink
                real_print = errors.print_error

                def recording_print(exception, *a, **k):      # report_error looks the name up at call time
                    printed.append(exception)
                    return real_print(exception, *a, **k)
                errors.print_error = recording_print
                try:
                    data = run()
                except Exception as e:
                    fatal = e
                errs = printed
        code = errors.error_code
        out = {'errors': [c20._render(e) for e in errs], 'fatal': c20._render(fatal) if fatal is not None else None,
               'stderr': sink.getvalue(), 'error_code': code if mode != 'capture' else 0}
        if out['fatal'] and out['fatal']['kind'] == 'PluginNotFound':
            out['fatal'] = {'kind': 'PluginNotFound', 'pybtex': True}
        if engine is not None:
            s = engine.seen if fatal is None else None
            out.update({'citations': s and s['citations'], 'style': s and s['style'], 'data': None,
                        'bib_filenames': s and s['bib_filenames'], 'output_filename': s and s['output_filename'],
                        'add_output_suffix': s and s['add_output_suffix'], 'passed': s and [s['output_encoding'], s['extra']]})
        elif data is not None:
            out.update({'citations': list(data.citations), 'style': data.style,
                        'data': list(data.data) if data.data is not None else None})
        else:
            out.update({'citations': None, 'style': None, 'data': None})
        return out
    finally:
        errors.strict, errors.error_code, pybtex.io.stderr, errors.print_error = old_strict, old_code, old_stderr, old_print
        os.chdir(cwd)
        shutil.rmtree(d, ignore_errors=True)


def _impl_auxopen(case):
    import pybtex.io
    from pybtex.exceptions import PybtexError
    c20 = _c20()
    d = tempfile.mkdtemp(prefix='verif-c20op-', dir=c20._BASE)
    cwd = os.getcwd()
    try:
        _write_files(d, case)
        os.chdir(d)
        import posixpath
        isfile = posixpath.isfile(case['name'])
        with _Patched(case.get('kpse', [])):
            try:
                with pybtex.io.open_unicode(case['name']) as f:
                    lines = f.read().split('\n')
                    if lines and lines[-1] == '':
                        lines.pop()
                    res = {'lines': lines, 'opened': f.name, 'error': None}
            except PybtexError as e:
                res = {'lines': None, 'opened': None, 'error': e.args[0]}
            except Exception as e:
                res = {'lines': None, 'opened': None, 'error': 'INTERNAL:' + type(e).__name__}
        return {'open': res, 'isfile': isfile}
    finally:
        os.chdir(cwd)
        shutil.rmtree(d, ignore_errors=True)


def _impl_consts(case):
    from tablegen import c20 as tg
    from pybtex import auxfile
    c = tg.aux_constants()
    ctx = auxfile.AuxDataContext('')
    ctx.lineno = 7
    e = auxfile.AuxDataError(c['msgNoBibdata'], ctx)
    return {'pattern': c['commandPattern'],
            'messages': [c['msgAnotherBibstyle'], c['msgAnotherBibdata'], c['msgNoBibdata'], c['msgNoBibstyle'], c['msgCaseMismatch']],
            'location': str(e), 'open': c['openFormat'], 'suffixes': [[n, s] for n, s in tg.reader_suffixes()]}


def impl(case):
    op = case['op']
    if op == 'auxio':
        return _impl_auxio(case)
    if op == 'auxopen':
        return _impl_auxopen(case)
    if op == 'auxpath':
        return {'root': os.path.splitext(case['s'])[0]}
    try:
        return _impl_consts(case)
    except (LookupError, AttributeError, TypeError, ValueError, OSError, SyntaxError) as e:
        # the literals are read off the syntax trees of private code: a tree in which they cannot be found where the reader looks
        # (a refactoring moved a message into a helper or a table) is not compared on this op -- the texts themselves are compared
        # through the reports of the auxio / aux families on every run (reconcile in props/c20.py)
        return {'private_shape': 'unreadable', 'why': '%s: %s' % (type(e).__name__, e)}


def to_request(case):
    if case['op'] == 'auxio':
        return {k: v for k, v in case.items() if k in ('op', 'top', 'files', 'kpse', 'mode', 'engine')}
    return case


def _fmt(r, prefix):
    lines = r['ctx'].splitlines() if r['ctx'] else []
    lines.append(prefix + r['str'])
    if r['file']:
        lines = ['%s: %s' % (r['file'], l) for l in lines]
    return '\n'.join(lines)


def model_out(case, reply):
    out = reply['out']
    if case['op'] != 'auxio':
        return out
    mode = case.get('mode', 'capture')

    def fix(r):
        if r is None:
            return None
        r = dict(r)
        if r.get('kind') == 'PluginNotFound':
            return {'kind': 'PluginNotFound', 'pybtex': True}
        r['format'] = _fmt(r, 'ERROR: ') if r.get('str') is not None else None
        r['pybtex'] = True
        return r
    eng = reply.get('engine')
    src = eng if eng is not None else out
    errs = src['errors'] if src['errors'] is not None else out['errors']
    res = {'errors': [fix(r) for r in errs], 'fatal': fix(src['fatal']),
           'stderr': ''.join(_fmt(r, 'WARNING: ') + '\n' for r in errs) if mode == 'nonstrict' else '',
           'error_code': reply['error_code'] if src['fatal'] is None or src['fatal'].get('kind') != 'PluginNotFound' else 0}
    if eng is not None:
        ok = eng['fatal'] is None
        res.update({'citations': eng['citations'], 'style': eng['style'], 'data': None, 'bib_filenames': eng['bib_filenames'],
                    'output_filename': eng['output_filename'], 'add_output_suffix': eng['add_output_suffix'],
                    'passed': [None, []] if ok else None})
    else:
        res.update({'citations': out['citations'], 'style': out['style'], 'data': out['data']})
    return res


def oracle(case, impl_out, reply):
    """auxio: the clauses of C20 on what the code did, per reporting mode; the other ops have no clause of their own
    (function-level correspondence only)."""
    if case['op'] != 'auxio':
        return []
    c20 = _c20()
    mode = case.get('mode', 'capture')
    eng = case.get('engine')
    spec = reply['spec']
    fatal = impl_out['fatal']
    if fatal is not None and fatal.get('kind') == 'PluginNotFound':
        return []
    if mode == 'capture' or (mode == 'nonstrict'):
        # the same clauses as for the plain reader; in non-strict mode the reports are the exceptions handed to print_error
        view = dict(case, op='aux')
        if eng is not None:
            view['mode'] = 'engine'
            if eng.get('style') is not None or eng.get('bib_format') not in (None, 'bibtex'):
                return _engine_clauses(case, impl_out, spec)
        else:
            view.pop('mode', None)
        return c20.oracle(view, impl_out, reply)
    # strict: the FIRST problem is raised where it occurs, nothing is collected
    fails = []
    if not spec['acyclic'] or not spec['closed']:
        return fails
    if spec['errors']:
        if fatal is None or fatal['kind'] not in ('another_bibstyle', 'another_bibdata', 'case_mismatch'):
            fails.append('duplicates_reported: strict mode: the document has the problem %r at %r but %r was raised' % (
                spec['errors'][0]['kind'], (spec['errors'][0]['file'], spec['errors'][0]['lineno']), fatal and fatal['kind']))
        else:
            fails += c20._check_reports(case, [fatal], spec['errors'], spec['cites'], partial=True)
            w = spec['errors'][0]
            if not fails and (fatal['file'], fatal['lineno']) != (w['file'], w['lineno']):
                fails.append('located: strict mode: the first problem is at %r, the raised error shows %r' % (
                    (w['file'], w['lineno']), (fatal['file'], fatal['lineno'])))
    else:
        view = dict(case, op='aux')
        view.pop('mode', None)
        if eng is not None:
            view['mode'] = 'engine'
            if eng.get('style') is not None or eng.get('bib_format') not in (None, 'bibtex'):
                return _engine_clauses(case, impl_out, spec)
        fails += c20.oracle(view, impl_out, reply)
    return fails


def _engine_clauses(case, impl_out, spec):
    """make_bibliography with an explicit style / another reader: the explicit style wins, the names get the reader's suffix"""
    from tablegen import c20 as tg
    eng = case['engine']
    fails = []
    if not spec['acyclic'] or not spec['closed'] or spec['fatal'] is not None or impl_out['fatal'] is not None:
        return fails
    sfx = dict(tg.reader_suffixes()).get(eng.get('bib_format'))
    want_style = eng['style'] if eng.get('style') is not None else spec['style']
    want_files = [x + sfx for x in spec['data']]
    if impl_out['style'] != want_style or impl_out.get('bib_filenames') != want_files:
        fails.append('engine_consumes: make_bibliography(style=%r, bib_format=%r) called format_from_files with style=%r bib_filenames=%r, '
                     'expected %r / %r' % (eng.get('style'), eng.get('bib_format'), impl_out['style'], impl_out.get('bib_filenames'), want_style, want_files))
    if impl_out['citations'] != spec['citations']:
        fails.append('citations: got %r, the \\citation lines say %r [through Engine.make_bibliography]' % (impl_out['citations'], spec['citations']))
    return fails


def buckets(case, impl_out):
    op = case['op']
    if op == 'auxio':
        b = ['io:mode=' + case.get('mode', 'capture'), 'io:fatal:' + (impl_out['fatal']['kind'] if impl_out['fatal'] else 'none')]
        if impl_out['fatal'] and impl_out['fatal'].get('kind') == 'open':
            b.append('io:open:' + (impl_out['fatal'].get('msg') or '').rsplit('. ', 1)[-1])
        if case.get('kpse'):
            b.append('io:kpse')
        if case.get('engine') is not None:
            b.append('io:engine:%s/%s' % ('style' if case['engine'].get('style') is not None else '-', case['engine'].get('bib_format')))
        for k in sorted({r['kind'] for r in impl_out['errors']}):
            b.append('io:report:' + k)
        return b
    if op == 'auxopen':
        r = impl_out['open']
        return ['open:' + ('ok' if r['error'] is None else r['error'].rsplit('. ', 1)[-1]) + (':located' if r['opened'] not in (None, case['name']) else '')]
    return [op]


def nontrivial(case, impl_out):
    op = case['op']
    if op == 'auxio':
        return bool(impl_out['errors']) or impl_out['fatal'] is not None or bool(impl_out.get('citations'))
    if op == 'auxopen':
        return bool(case.get('kpse')) or impl_out['open']['error'] is not None
    if op == 'auxpath':
        return '.' in case['s']
    return True


def _plain(v):
    c20 = _c20()
    return v == '' or all(c20._NAME.match(x) and x not in ('.', '..') for x in v.split('/'))


def valid_case(case):
    c20 = _c20()
    op = case.get('op')
    if op == 'auxconsts':
        return True
    if op == 'auxpath':
        return isinstance(case.get('s'), str) and '\x00' not in case['s']
    files = case.get('files')
    if not isinstance(files, list) or not files:
        return False
    names = []
    for f in files:
        if not (isinstance(f, list) and len(f) == 2 and isinstance(f[0], str) and isinstance(f[1], list)):
            return False
        if f[0] == '' or not _plain(f[0]) or f[0].count('/') > 2:
            return False
        if any((not isinstance(l, str)) or '\n' in l or '\r' in l or '\x00' in l or any(0xD800 <= ord(ch) < 0xE000 for ch in l) for l in f[1]):
            return False
        names.append(f[0])
    if len(set(names)) != len(names):
        return False
    dirs = {'/'.join(n.split('/')[:i]) for n in names for i in range(1, n.count('/') + 1)}
    if dirs & set(names):
        return False
    kpse = case.get('kpse', [])
    if not (isinstance(kpse, list) and all(isinstance(p, list) and len(p) == 2 and all(isinstance(x, str) for x in p) for p in kpse)):
        return False
    if len({p[0] for p in kpse}) != len(kpse) or not all(_plain(p[0]) and _plain(p[1]) for p in kpse):
        return False
    if op == 'auxopen':
        return isinstance(case.get('name'), str) and _plain(case['name'])
    if op != 'auxio' or case.get('top') not in names or case.get('mode', 'capture') not in MODES:
        return False
    eng = case.get('engine')
    if eng is not None and not (isinstance(eng, dict) and set(eng) <= {'style', 'bib_format'}
                                and all(v is None or isinstance(v, str) for v in eng.values())):
        return False
    table = dict(kpse)

    def resolve(v):
        return v if v in names else (table.get(v) or v)
    resolved = []
    for n, lines in files:
        ins = c20._inputs(lines)
        if not all(_plain(v) for v in ins):
            return False
        resolved.append([n, ['\\@input{%s}' % resolve(v) for v in ins]])
    return c20._acyclic(resolved)


# ---------------------------------------------------------------------------------------------
# generators

def _mkio(files, **extra):
    c = {'op': 'auxio', 'top': files[0][0], 'files': [[n, list(ls)] for n, ls in files]}
    c.update(extra)
    return c


ENGINES = [{}, {'style': 'given'}, {'style': ''}, {'bib_format': 'bibtex'}, {'bib_format': 'yaml'},
           {'style': 'given', 'bib_format': 'bibtexml'}, {'bib_format': 'nosuch'}]
TOPS = ['t.aux', 'dir/t.aux', 'a.b/t', '.aux', 'x.y.aux', 'dir/.t.aux', 't']


def gen_cases(tier, rng, info, counts):
    c20 = _c20()
    cases = [{'op': 'auxconsts'}]
    # os.path.splitext: every string of <= 4 / 5 tokens
    toks = ['a', '.', '/', 'aux', '..']
    k = 0
    for t in c20._docs(toks, 4 if tier == 'quick' else 5):
        cases.append({'op': 'auxpath', 's': ''.join(t)})
        k += 1
    counts['splitext tokens'] = k
    # open_unicode alone
    layout = [['t.aux', ['\\citation{t}']], ['dir/u.aux', ['\\citation{u}', '']], ['a/b/v.aux', []], ['tex/u.aux', ['\\citation{TEX}']]]
    names = ['t.aux', 'dir/u.aux', 'a/b/v.aux', 'u.aux', 'dir', 'a', 'a/b', 't.aux/x', 'dir/u.aux/y', 'missing.aux', 'dir/missing', 'nodir/x', '']
    founds = [None, 'tex/u.aux', 't.aux', '', 'missing2', 'dir', 't.aux/x']
    k = 0
    for n in names:
        for f in founds:
            cases.append({'op': 'auxopen', 'files': layout, 'name': n, 'kpse': [] if f is None else [[n, f]]})
            k += 1
    counts['open_unicode names x kpsewhich answers'] = k
    # the reporting modes on every short top-level document
    sig = c20.alphabet(c20.SUB)
    small = sig[:2] + sig[4:9]
    k = 0
    docs = list(c20._docs(sig, 2 if tier == 'quick' else 3)) + [d for d in c20._docs(small, 3 if tier == 'quick' else 4) if len(d) > (2 if tier == 'quick' else 3)]
    for doc in docs:
        files = [(c20.TOP, doc)] + ([(c20.SUB, c20.FIXED_U), (c20.SUB2, c20.FIXED_V)] if sig[8] in doc else [])
        for m in ('strict', 'nonstrict'):
            cases.append(_mkio(files, mode=m))
            k += 1
    counts['strict / non-strict: top<=%d over the 13 lines, one line more over 7 of them' % (2 if tier == 'quick' else 3)] = k
    # kpsewhich, directories, paths through files -- in every mode, through the reader and through make_bibliography
    bodies = [([], ['\\bibstyle{plain}', '\\bibdata{x}']),
              (['\\citation{a}', '\\bibstyle{plain}'], ['\\citation{A}', '\\bibdata{x}', '\\bibdata{y}']),
              (['\\bibdata{x,y}'], ['\\citation{b}', '\\bibstyle{s}', '\\bibstyle{s2}'])]
    real_u = ['\\citation{B,c}', '\\bibstyle{inner}']
    decoy = ['\\citation{DECOY}', '\\bibdata{decoy}', '\\bibstyle{decoy}']
    lay = []
    for pre, post in bodies:
        doc = pre + ['\\@input{u.aux}'] + post
        lay.append(([('t.aux', doc), ('tex/u.aux', real_u)], [['u.aux', 'tex/u.aux']]))                       # found by kpsewhich
        lay.append(([('t.aux', doc), ('u.aux', real_u), ('tex/u.aux', decoy)], [['u.aux', 'tex/u.aux']]))     # exists: not looked up
        lay.append(([('t.aux', doc), ('tex/u.aux', decoy)], [['u.aux', 'tex/gone.aux']]))                     # found name missing
        lay.append(([('t.aux', doc), ('tex/u.aux', decoy)], [['u.aux', '']]))                                 # empty answer
        lay.append(([('t.aux', doc), ('tex/u.aux', decoy)], [['u.aux', 'tex']]))                              # answer is a directory
        lay.append(([('t.aux', pre + ['\\@input{tex}'] + post), ('tex/u.aux', decoy)], []))                     # \@input of a directory
        lay.append(([('t.aux', pre + ['\\@input{t.aux/x}'] + post)], []))                                      # path through a file
        lay.append(([('t.aux', pre + ['\\@input{nodir/u.aux}'] + post)], []))
        lay.append(([('t.aux', pre + ['\\@input{v.aux}'] + post), ('tex/v.aux', ['\\citation{c}', '\\@input{w.aux}', '\\citation{C}']),
                     ('tex/w.aux', real_u)], [['v.aux', 'tex/v.aux'], ['w.aux', 'tex/w.aux']]))                # nested, both located
        lay.append(([('sub/t.aux', doc), ('tex/u.aux', real_u), ('sub/u.aux', decoy)], [['u.aux', 'tex/u.aux']]))
    k = 0
    for files, kpse in lay:
        for m in MODES:
            cases.append(_mkio(files, mode=m, kpse=kpse))
            k += 1
            for e in (ENGINES[0], ENGINES[5]):
                cases.append(_mkio(files, mode=m, kpse=kpse, engine=e))
                k += 1
    counts['kpsewhich / directory layouts x modes x engine'] = k
    # make_bibliography: style argument, reader plug-in, output file name
    k = 0
    for doc in c20._docs(sig, 2 if tier == 'quick' else 3):
        for i, e in enumerate(ENGINES if tier != 'quick' else [ENGINES[k % 7], ENGINES[(k // 2 + 3) % 7]]):
            top = TOPS[(k + i) % len(TOPS)]
            files = [(top, doc)] + ([(c20.SUB, c20.FIXED_U), (c20.SUB2, c20.FIXED_V)] if sig[8] in doc else [])
            cases.append(_mkio(files, engine=e, mode=MODES[(k // 3) % 3]))
            k += 1
    counts['make_bibliography style x reader x top name'] = k
    for top in TOPS:
        for e in ENGINES:
            cases.append(_mkio([(top, ['\\citation{a,A}', '\\bibstyle{plain}', '\\bibdata{x,y}', '\\bibdata{z}'])], engine=e))
    # random: the documents of the first round, decorated
    n = 300 if tier == 'quick' else 30000
    for i in range(n):
        base = c20._random_case(rng, malformed=(i % 3 == 2))
        if any('/' in nm for nm, _l in base['files']) and rng.random() < 0.5:
            continue
        c = _mkio([(nm, ls) for nm, ls in base['files']], mode=rng.choice(MODES))
        c['top'] = base['top']
        if not base.get('nl', True):
            c['nl'] = False
        names_ = [nm for nm, _l in c['files']]
        if len(names_) > 1 and rng.random() < 0.3:
            # move an included file away and let kpsewhich find it
            victim = rng.choice(names_[1:])
            if '/' not in victim and c['top'] != victim:
                c['files'] = [['tex/' + nm if nm == victim else nm, ls] for nm, ls in c['files']]
                c['kpse'] = [[victim, 'tex/' + victim]]
        if rng.random() < 0.3:
            c['engine'] = rng.choice(ENGINES)
        if valid_case(c):
            cases.append(c)
    return cases
