"""Defaults shared by the per-property modules (see check.py for how they are used)."""
import json
import os

from compat import VERIF


def to_request(case):
    return case


def model_out(case, reply):
    return reply.get('out')


def oracle(case, impl_out, reply):
    return []


def nontrivial(case, impl_out):
    return True


def buckets(case, impl_out):
    return [case.get('op', '?')]


def corpus_for(pid):
    """Minimised past disagreements / known-answer cases: corpus/<id>/*.json, run first."""
    d = os.path.join(VERIF, 'corpus', pid)
    out = []
    if os.path.isdir(d):
        for f in sorted(os.listdir(d)):
            if f.endswith('.json'):
                j = json.load(open(os.path.join(d, f)))
                out.extend(j if isinstance(j, list) else [j])
    return out
