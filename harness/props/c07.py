"""C07 -- Python-engine bibliography: complete, ordered, uniquely labelled, lossless."""
import re

import compat  # noqa: F401
from props.base import corpus_for  # noqa: F401
from props import c01, c08

ID = 'C07'
LEAN_MODULES = ['PybtexModel.Props.C07']
THEOREMS = {
    'C07_one_per_citation': 'exactly one formatted entry per resolved citation: the formatted keys are a permutation of the entries denoted by the resolved, present citations; no resolved citation loses its entry; same number of entries',
    'C07_no_duplicates': 'for well-formed entries no two formatted entries have the same key up to case (from C05_no_dup)',
    'C07_order_none': 'sorting style none: the formatted entries come in the order of the resolved citations',
    'C07_key_order': 'the comparison of author_year_title (Python < on strings and on the key triples) is a strict total order',
    'C07_order_ayt': 'sorting style author_year_title: the output is a permutation of the resolved entries, sorted by the key triple, entries with equal triples keep their citation order (stable)',
    'C07_sort_generic': 'the insertion sort modelling sorted() returns a sorted, stable permutation for any strict weak order',
    'C07_number_labels': 'number labels are "1" .. "n" in output order and pairwise distinct (decimal notation is injective)',
    'C07_alpha_labels_partial': 'alpha labels = base labels run through the suffix loop; pairwise distinct provided no unique base label equals a repeated base label plus one of its suffix letters and no label repeats more than 26 times',
    'C07_alpha_suffix_partial': 'the suffix loop alone: no repetition under the proviso, for any list of base labels',
    'C07_alpha_labels_neg': 'witness: base labels ab, ab, aba get the labels aba, abb, aba (finding C07-alpha-suffix-collision)',
    'C07_fuel_irrelevant': 'the fuel bound of the evaluator never influences a result other than out-of-fuel',
    'C07_optional_never_missing': 'optional[...] never propagates a missing field',
    'C07_missing_required_eval': 'a FieldIsMissing(f) of the evaluator names a field/names node outside every optional whose lookup fails (field: along the crossref chain; names: the entry\'s own persons); if all required lookups succeed no such error occurs',
    'C07_missing_iff': 'exact: the evaluation fails with FieldIsMissing(f) iff, going left to right (first_of lazily, never into a failing optional), the first node that fails is a field/names node named f whose lookup finds nothing',
    'C07_missing_required': 'pipeline: a FieldIsMissing error names the field and the key of the first entry (in formatting order) whose template fails, all earlier entries having been formatted',
    'C07_terminated': 'a template built from sentences (endsInSentence, decidable syntactic condition) evaluates to a text that is empty or ends with . ? or !; lifted to every formatted entry',
    'C07_protected_case': 'from_latex puts brace groups under Protected; lower/upper/capfirst/capitalize/dashify, field apply_funcs and sentence post-processing leave the protected atoms exactly as they are',
    'C07_field_coverage': 'for ALL templates: every field node on the successful evaluation path has a value whose text occurs contiguously in the output (up to case under capfirst/capitalize sentences); the value text is the field string without braces (none), equal up to case (lower/capitalize), equal up to dashes (dashify); lifted to every formatted entry',
}
RULE = ('databases over all seventeen entry types, each entry with a random subset of the fields its template reads (values with braces, '
        'hyphens, punctuation; persons in all name forms; cross-references), every citation list shape (subset / permutation / "*" / '
        'unknown key), formatting style x label style x sorting style x name style x abbreviate_names; the templates and name templates '
        'of the live style objects are serialised per entry and evaluated by the Lean template evaluator; non-trivial = at least two '
        'formatted entries; distinct by case JSON')
TRUSTED = ['the templates get_<type>_template(entry) and the name-style templates are INPUTS (serialised Node trees of the live style '
           'objects), like the .bst files of the BibTeX engine; the template evaluator, rich text, sorting and label styles are modelled',
           'latexcodec decode is the identity on the value fragment generated (no backslash, %, ~, --, quotes pairs)',
           'apply_func closures are recognised by probing (dashify / lower / capitalize); an unrecognised closure stops the translator loudly']
ASSUMPTIONS = ['ASCII letters; known entry types only']

TYPES = ['article', 'book', 'booklet', 'dataset', 'inbook', 'incollection', 'inproceedings', 'manual', 'mastersthesis', 'misc', 'online',
         'patent', 'phdthesis', 'proceedings', 'software', 'techreport', 'unpublished']
FIELDS = ['title', 'year', 'month', 'journal', 'volume', 'number', 'pages', 'note', 'publisher', 'address', 'edition', 'series', 'booktitle',
          'chapter', 'howpublished', 'organization', 'school', 'institution', 'type', 'url', 'urldate', 'doi', 'eprint', 'pubmed', 'isbn', 'key']
VALUES = {
    'title': ['The {TeX}book', 'a study of {B}races: and colons', 'UPPER lower Mixed', 'plain title', 'Ends with period.', 'What now?', '{Whole Protected}'],
    'year': ['1984', '2001', '1990', '99'],
    'month': ['January', 'feb', '7'],
    'pages': ['1-10', '5', '100-120', '11-20, 30'],
    'volume': ['3', 'IV', '12'], 'number': ['2', '7b'], 'chapter': ['8', '666'], 'edition': ['Second', '3rd'],
    'url': ['http://example.org/a_b', 'https://x.y/z'], 'urldate': ['2020-01-02'], 'doi': ['10.1000/xyz'], 'eprint': ['1234.5678'], 'pubmed': ['12345'],
    'isbn': ['3257227892'], 'key': ['Knu', 'ab', 'K'],
}
GENERIC = ['Some Name', 'the lower case one', 'A {B} c', 'Addison-Wesley', 'X', 'New York', 'Univ. of Somewhere']
PERSONS = ['Donald E. Knuth', 'Knuth, Donald E.', 'Leslie Lamport', 'Jean de La Fontaine', 'von Beethoven, Jr, Ludwig', '{Barnes and Noble}',
           'A. B. Cee', 'Ab Cd', 'X', 'others', 'Smith', 'de la Vall{e}e Poussin, Charles Louis Xavier Joseph']
STYLES = ['unsrt', 'plain', 'alpha', 'unsrtalpha']


# ------------------------------------------------------------------------------------------------
# translator: live Node trees -> JSON for the Lean evaluator

class Untranslatable(Exception):
    pass


def _rt(x):
    """a str / rich text / None child as a JSON rich-text tree"""
    from pybtex import richtext as rt
    if x is None:
        return {'k': 'text', 'p': []}
    if isinstance(x, str):
        return x
    if isinstance(x, rt.BaseText):
        return c08.dump(x)
    raise Untranslatable('child %r' % (x,))


_FN_CACHE = {}


def _apply_fn(f):
    if f is None:
        return 'none'
    key = getattr(f, '__code__', f)
    if key in _FN_CACHE:
        return _FN_CACHE[key]
    from pybtex.richtext import Text, Tag
    probes = [Text('aB--c-D e'), Text('x', Tag('em', 'Y-z'), ' Q')]
    import pybtex.style.formatting.unsrt as unsrt
    cands = {'dashify': unsrt.dashify, 'lower': lambda t: t.lower(), 'capitalize': lambda t: t.capitalize()}
    got = None
    for name, g in cands.items():
        try:
            if all(f(p) == g(p) for p in probes):
                got = name
                break
        except Exception:
            continue
    if got is None:
        raise Untranslatable('apply_func %r is none of dashify / lower / capitalize' % (f,))
    _FN_CACHE[key] = got
    return got


def _bind(names, defaults, args, kwargs):
    d = dict(defaults)
    for n, a in zip(names, args):
        d[n] = a
    for k, v in kwargs.items():
        if k not in d:
            raise Untranslatable('unexpected keyword %s' % k)
        d[k] = v
    return d


def tmpl(node):
    """Node / str / rich text -> template JSON"""
    from pybtex.style.template import Node
    if not isinstance(node, Node):
        return {'t': 'lit', 'r': _rt(node)}
    n = node.name
    kids = [tmpl(c) for c in node.children]
    a, kw = node.args, node.kwargs
    if n in ('join', 'words'):
        d = _bind(['sep', 'sep2', 'last_sep'] if n == 'join' else ['sep'],
                  {'sep': '' if n == 'join' else ' ', 'sep2': None, 'last_sep': None}, a, kw)
        sep = d['sep']
        return {'t': 'join', 'sep': _rt(sep), 'sep2': _rt(sep if d['sep2'] is None else d['sep2']),
                'last': _rt(sep if d['last_sep'] is None else d['last_sep']), 'c': kids}
    if n == 'toplevel':
        from pybtex.richtext import Symbol
        s = _rt(Symbol('newblock'))
        return {'t': 'join', 'sep': s, 'sep2': s, 'last': s, 'c': kids}
    if n == 'together':
        d = _bind(['last_tie'], {'last_tie': False}, a, kw)
        return {'t': 'together', 'last_tie': bool(d['last_tie']), 'c': kids}
    if n == 'sentence':
        d = _bind(['capfirst', 'capitalize', 'add_period', 'sep'], {'capfirst': False, 'capitalize': False, 'add_period': True, 'sep': ', '}, a, kw)
        return {'t': 'sentence', 'capfirst': bool(d['capfirst']), 'capitalize': bool(d['capitalize']), 'add_period': bool(d['add_period']),
                'sep': _rt(d['sep']), 'c': kids}
    if n in ('field', 'optional_field'):
        d = _bind(['name', 'apply_func', 'raw'], {'name': None, 'apply_func': None, 'raw': False}, a, kw)
        f = {'t': 'field', 'name': d['name'], 'fn': _apply_fn(d['apply_func']), 'raw': bool(d['raw'])}
        if kids:
            raise Untranslatable('field with children')
        return f if n == 'field' else {'t': 'optional', 'c': [f]}
    if n == 'names':
        role = a[0] if a else kw.get('role')
        rest = dict(kw)
        rest.pop('role', None)
        d = _bind(['sep', 'sep2', 'last_sep'], {'sep': '', 'sep2': None, 'last_sep': None}, a[1:], rest)
        sep = d['sep']
        return {'t': 'names', 'role': role, 'sep': _rt(sep), 'sep2': _rt(sep if d['sep2'] is None else d['sep2']),
                'last': _rt(sep if d['last_sep'] is None else d['last_sep'])}
    if n == 'optional':
        return {'t': 'optional', 'c': kids}
    if n == 'first_of':
        return {'t': 'first_of', 'c': kids}
    if n == 'tag':
        d = _bind(['name'], {'name': None}, a, kw)
        return {'t': 'tag', 'name': d['name'], 'c': kids}
    if n == 'href':
        d = _bind(['url', 'external'], {'url': None, 'external': False}, a, kw)
        if d['url'] is None:
            raise Untranslatable('href without url (deprecated form)')
        return {'t': 'href', 'url': tmpl(d['url']), 'external': bool(d['external']), 'c': kids}
    if n == 'name_part':
        d = _bind(['before', 'tie', 'abbr'], {'before': '', 'tie': False, 'abbr': False}, a, kw)
        return {'t': 'name_part', 'before': _rt(d['before']), 'tie': bool(d['tie']), 'abbr': bool(d['abbr']), 'c': kids}
    raise Untranslatable('node %s' % n)


# ------------------------------------------------------------------------------------------------

_EP_CACHE = {}


def _fast_entry_points():
    """importlib.metadata scans take ~3 ms per lookup: memoise pybtex.plugin.entry_points per argument tuple (harness only)"""
    import pybtex.plugin as pl
    if getattr(pl.entry_points, '_verif_cached', False):
        return
    orig = pl.entry_points

    def cached(**kw):
        k = tuple(sorted(kw.items()))
        if k not in _EP_CACHE:
            _EP_CACHE[k] = orig(**kw)
        return _EP_CACHE[k]
    cached._verif_cached = True
    pl.entry_points = cached


def make_style(case):
    from pybtex.plugin import find_plugin
    _fast_entry_points()
    cls = find_plugin('pybtex.style.formatting', case['style'])
    return cls(label_style=case.get('label_style'), name_style=case.get('name_style'), sorting_style=case.get('sorting_style'),
               abbreviate_names=case.get('abbreviate_names', False), min_crossrefs=case['min_crossrefs'])


def bib_text(case):
    out = []
    for e in case['entries']:
        fs = ['  %s = {%s}' % (k, v) for k, v in e['fields']]
        out.append('@%s{%s,\n%s\n}\n' % (e['type'], e['key'], ',\n'.join(fs)))
    return '\n'.join(out)


def parse_db(case):
    from pybtex import errors
    from pybtex.database import parse_string
    with errors.capture():
        return parse_string(bib_text(case), 'bibtex')


def impl(case):
    from pybtex import errors
    from pybtex.exceptions import PybtexError
    try:
        db = parse_db(case)
        style = make_style(case)
        with errors.capture() as captured:
            fb = style.format_bibliography(db, list(case['citations']))
            entries = [[e.key, e.label, c08.dump(e.text)] for e in fb]
        out = {'entries': entries, 'reports': [_report(e) for e in captured]}
        # the four backends must be able to render every entry (details are C09's business)
        plain = []
        for e in fb:
            plain.append(e.text.render_as('text'))
            for b in ('html', 'latex', 'markdown'):
                e.text.render_as(b)
        out['plain'] = plain
        return out
    except PybtexError as e:
        cls = type(e).__name__
        if cls == 'FieldIsMissing':
            m = re.match(r'missing (.*) in (.*)$', e.args[0])
            return {'error': ['FieldIsMissing', m.group(1), m.group(2)]}
        return {'error': [cls]}
    except Exception as e:  # noqa
        return {'error': ['INTERNAL'], 'detail': '%s: %s' % (type(e).__name__, e)}


def _report(e):
    m = e.args[0] if e.args else ''
    if m.startswith('missing database entry for "'):
        return ['missing', m[len('missing database entry for "'):-1]]
    if m.startswith('bad cross-reference: entry "'):
        mm = re.match(r'bad cross-reference: entry "(.*)" refers to entry "(.*)" which does not exist\.$', m)
        return ['bad_crossref', mm.group(1), mm.group(2)]
    if m.startswith('repeated bibliography entry: '):
        return ['repeated', m[len('repeated bibliography entry: '):]]
    return [type(e).__name__, m]


_REQ_CACHE = {}


def to_request(case):
    import json
    k = json.dumps(case, sort_keys=True)
    if k not in _REQ_CACHE:
        if len(_REQ_CACHE) > 50000:
            _REQ_CACHE.clear()
        _REQ_CACHE[k] = _to_request(case)
    return _REQ_CACHE[k]


def _to_request(case):
    db = parse_db(case)
    style = make_style(case)
    entries, _pre = c01.canon_db(db)
    items = []
    for key, e in db.entries.items():
        get = getattr(style, 'get_%s_template' % e.type, None)
        if get is None:
            continue
        t = tmpl(get(e))
        pts = [[role, [tmpl(style.format_name(p, style.abbreviate_names)) for p in ps]] for role, ps in e.persons.items()]
        items.append({'key': key, 'template': t, 'person_templates': pts})
    sorting = type(style.sorting_style).__module__.rsplit('.', 1)[-1]
    labels = type(style.label_style).__module__.rsplit('.', 1)[-1]
    return {'op': 'pystyle', 'entries': entries, 'items': items, 'citations': case['citations'], 'min_crossrefs': case['min_crossrefs'],
            'sorting': sorting, 'labels': labels}


def compare_view(io):
    if 'error' in io:
        return {'error': io['error']}
    return {'entries': io['entries'], 'reports': io['reports']}


def model_out(case, reply):
    o = reply['out']
    if 'error' in o:
        e = o['error']
        return {'error': e if e[0] == 'FieldIsMissing' else [e[0]]}
    return {'entries': o['entries'], 'reports': o['reports']}


# ------------------------------------------------------------------------------------------------
# oracle

def _presence2(t, have_field, have_role):
    """(printed field names, output is non-empty) of a template by presence only; raises KeyError(field) like
    FieldIsMissing.  Fields inside a first_of alternative are not added to the expectations (which alternative
    prints is decided by emptiness, which is tracked)."""
    k = t['t']
    if k == 'lit':
        r = t['r']
        return set(), (len(r) > 0 if isinstance(r, str) else (True if 'y' in r else bool(r.get('p'))))
    if k == 'field':
        if not have_field(t['name']):
            raise KeyError(t['name'])
        return (set() if t['raw'] else {t['name']}), True
    if k == 'names':
        if not have_role(t['role']):
            raise KeyError(t['role'])
        return set(), True
    if k == 'optional':
        try:
            s, ne = set(), False
            for c in t['c']:
                cs, cne = _presence2(c, have_field, have_role)
                s |= cs
                ne = ne or cne
            return s, ne
        except KeyError:
            return set(), False
    if k == 'first_of':
        for c in t['c']:
            _cs, cne = _presence2(c, have_field, have_role)   # a raise propagates, as in the evaluator
            if cne:
                return set(), True
        return set(), False
    s, ne = set(), False
    for c in t.get('c', []):
        cs, cne = _presence2(c, have_field, have_role)
        s |= cs
        ne = ne or cne
    if k == 'href':
        _presence2(t['url'], have_field, have_role)
    return s, ne


def _presence(t, have_field, have_role):
    return _presence2(t, have_field, have_role)[0]


def _strip_braces(s):
    return s.replace('{', '').replace('}', '')


def _sort_key(e):
    def person_key(p):
        return '  '.join((' '.join(p[2] + p[3]), ' '.join(p[0] + p[1]), ' '.join(p[4]))).lower()

    def persons_key(ps):
        return '   '.join(person_key(p) for p in ps)
    persons = {r.lower(): ps for r, ps in e['persons']}
    fields = {k.lower(): v for k, v in e['fields']}
    if e['type'] in ('book', 'inbook'):
        ak = persons_key(persons['author']) if persons.get('author') else (persons_key(persons['editor']) if persons.get('editor') else '')
    else:
        ak = persons_key(persons['author']) if 'author' in persons else ''
    return (ak, fields.get('year', ''), fields.get('title', ''))


def oracle(case, io, reply):
    fails = []
    if 'error' in io and io['error'][0] == 'INTERNAL':
        return ['no_internal: %s' % io.get('detail')]
    db = parse_db(case)
    entries, _ = c01.canon_db(db)
    by_key = {e['key'].lower(): e for e in entries}
    from pybtex import errors
    with errors.capture():
        resolved = [k for k in db.add_extra_citations(list(case['citations']), case['min_crossrefs']) if k in db.entries]
    req = to_request(case)
    tmpls = {it['key'].lower(): it['template'] for it in req['items']}

    def lookups(e):
        def have_field(name, e=e, seen=None):
            seen = seen or set()
            cur = e
            while cur is not None and cur['key'].lower() not in seen:
                seen.add(cur['key'].lower())
                fs = {k.lower(): v for k, v in cur['fields']}
                roles = {r.lower() for r, _ in cur['persons']}
                if name.lower() in fs or name.lower() in roles:
                    return True
                cur = by_key.get(fs['crossref'].lower()) if 'crossref' in fs else None
            return False

        def have_role(role, e=e):
            return role.lower() in {r.lower() for r, _ in e['persons']}
        return have_field, have_role

    # which entry (in the order the style formats them) first lacks a required field?
    style = make_style(case)
    order = [by_key[k.lower()] for k in resolved]
    if req['sorting'] == 'author_year_title':
        order = sorted(order, key=_sort_key)
    first_missing = None
    for e in order:
        t = tmpls.get(e['key'].lower())
        if t is None:
            continue
        try:
            _presence(t, *lookups(e))
        except KeyError as k:
            first_missing = (k.args[0], e['key'])
            break
    if 'error' in io:
        if io['error'][0] == 'FieldIsMissing':
            if first_missing is None:
                fails.append('missing_required: reported %r although no required field is missing' % (io['error'],))
            elif [io['error'][1].lower(), io['error'][2].lower()] != [first_missing[0].lower(), first_missing[1].lower()]:
                fails.append('missing_required: reported %r, the first missing required field is %r' % (io['error'], first_missing))
        return fails
    if first_missing is not None:
        fails.append('missing_required: field %r of entry %r is required and missing but no error was reported' % first_missing)
        return fails
    got = io['entries']
    keys = [g[0] for g in got]
    if sorted(k.lower() for k in keys) != sorted(k.lower() for k in resolved):
        fails.append('one_per_citation: formatted %r, resolved citations %r' % (keys, resolved))
        return fails
    if req['sorting'] == 'none':
        if [k.lower() for k in keys] != [k.lower() for k in resolved]:
            fails.append('order: sorting style none emitted %r, citation order is %r' % (keys, resolved))
    else:
        want = [e['key'] for e in order]
        if [k.lower() for k in keys] != [k.lower() for k in want]:
            fails.append('order: author_year_title emitted %r, stable sort by (author, year, title) gives %r' % (keys, want))
    labels = [g[1] for g in got]
    if req['labels'] == 'number':
        if labels != [str(i + 1) for i in range(len(got))]:
            fails.append('labels: number labels are %r' % labels)
    elif len(set(labels)) != len(labels):
        dup = sorted({l for l in labels if labels.count(l) > 1})
        # the recorded finding has a precise shape: a duplicated label L = B + letter next to another label B + other letter
        # (B was disambiguated with suffix letters and one of the results equals a label that occurs on its own)
        collision = all(l[-1:].islower() and any(m != l and m[:-1] == l[:-1] and m[-1:].islower() for m in labels) for l in dup)
        fails.append('labels: alpha labels are not pairwise distinct: %r (duplicates %r)%s' % (
            labels, dup, ' [suffixed label equals another label]' if collision else ''))
    for g, plain in zip(got, io['plain']):
        e = by_key[g[0].lower()]
        t = tmpls.get(e['key'].lower())
        if plain and plain.rstrip()[-1:] not in '.?!':
            fails.append('terminated: entry %r renders as %r' % (g[0], plain[-40:]))
        try:
            printed = _presence(t, *lookups(e))
        except KeyError:
            continue
        low = _strip_braces(plain).lower()
        for f in printed:
            cur, val, seen = e, None, set()
            while cur is not None and cur['key'].lower() not in seen:
                seen.add(cur['key'].lower())
                fs = {k.lower(): v for k, v in cur['fields']}
                if f.lower() in fs:
                    val = fs[f.lower()]
                    break
                cur = by_key.get(fs['crossref'].lower()) if 'crossref' in fs else None
            if val is None:
                continue      # a person role seen as a field: not generated
            want = re.sub(r'-+', '-', _strip_braces(c01_norm(val))).lower()
            if want and want not in re.sub(r'-+', '-', low):
                fails.append('field_coverage: field %s = %r of entry %r is printed by the template but missing from %r' % (f, val, g[0], plain))
            for m in re.finditer(r'\{([^{}]+)\}', val):
                if f == 'title' and m.group(1) not in plain:
                    fails.append('protected_case: %r of the title of %r does not keep its case in %r' % (m.group(1), g[0], plain))
    return fails


def c01_norm(s):
    return re.sub(r'\s+', ' ', s.strip())


KNOWN_MATCHERS = {
    'C07-alpha-suffix-collision': lambda case, io, f: f.startswith('labels: alpha') and f.endswith('[suffixed label equals another label]'),
    'C07-blank-field-in-unterminated': lambda case, io, f: f.startswith('terminated: entry ') and f.rstrip("'").endswith(' In') and _has_blank_field(case, f),
}


def _has_blank_field(case, f):
    m = re.match(r"terminated: entry '([^']*)'", f)
    for e in case['entries']:
        if m and e['key'] == m.group(1):
            return any(not v.replace('{', '').replace('}', '').strip() for _n, v in e['fields'])
    return False


def buckets(case, io):
    b = [case['style'], 'sort:%s' % case.get('sorting_style'), 'label:%s' % case.get('label_style')]
    if 'error' in io:
        b.append('error:' + io['error'][0])
    return b


def nontrivial(case, io):
    return len(io.get('entries') or []) >= 2


def valid_case(case):
    return False


def corpus():
    out = list(corpus_for(ID))
    # the recorded finding: suffixed alpha label equal to another base label
    out.append({'op': 'pystyle', 'style': 'alpha', 'min_crossrefs': 2, 'citations': ['*'],
                'entries': [{'type': 'misc', 'key': 'k1', 'fields': [['key', 'ab'], ['title', 'T one']]},
                            {'type': 'misc', 'key': 'k2', 'fields': [['key', 'ab'], ['title', 'T two']]},
                            {'type': 'misc', 'key': 'k3', 'fields': [['key', 'aba'], ['title', 'T three']]}]})
    return out


def gen_entry(rng, key, keys, blanks=False):
    t = rng.choice(TYPES)
    fields = []
    rich = rng.random() < 0.75
    for f in FIELDS:
        p = (0.9 if f in ('title', 'year') else 0.35) if not rich else (0.97 if f in ('title', 'year', 'journal', 'publisher', 'booktitle',
             'school', 'institution', 'note', 'howpublished', 'url', 'organization') else 0.6)
        if rng.random() < p:
            fields.append([f, rng.choice(VALUES.get(f, GENERIC)) if not blanks or rng.random() < 0.6 else rng.choice(['', '', ' ', '{}'])])
    for role in ('author', 'editor'):
        if rng.random() < ((0.7 if role == 'author' else 0.35) if not rich else 0.93):
            n = rng.choice([1, 1, 2, 3, 5])
            fields.append([role, ' and '.join(rng.choice(PERSONS) for _ in range(n))])
    if keys and rng.random() < 0.2:
        fields.append(['crossref', rng.choice(keys)])
    rng.shuffle(fields)
    return {'type': t, 'key': key, 'fields': fields}


def gen_case(rng):
    n = rng.randint(1, 6)
    keys = ['k%d' % i for i in range(n)]
    entries = []
    blanks = rng.random() < 0.15      # databases with fields that are present but empty
    for i, k in enumerate(keys):
        entries.append(gen_entry(rng, k, keys[i + 1:], blanks))     # parents after children
    r = rng.random()
    if r < 0.25:
        cites = ['*']
    else:
        cites = rng.sample(keys, rng.randint(1, n))
        if rng.random() < 0.1:
            cites.append('nosuch')
    case = {'op': 'pystyle', 'entries': entries, 'citations': cites, 'min_crossrefs': rng.choice([1, 2, 2]), 'style': rng.choice(STYLES)}
    if rng.random() < 0.4:
        case['label_style'] = rng.choice(['number', 'alpha'])
    if rng.random() < 0.4:
        case['sorting_style'] = rng.choice(['none', 'author_year_title'])
    if rng.random() < 0.4:
        case['name_style'] = rng.choice(['plain', 'lastfirst'])
    if rng.random() < 0.4:
        case['abbreviate_names'] = True
    return case


def gen_ties(rng):
    """Databases whose entries tie on the (author, year, title) sorting key, cited in an order unrelated to the order of their keys."""
    n = rng.randint(2, 6)
    keys = rng.sample(['zeta', 'mid', 'alpha', 'Beta', 'k1', 'K0', 'omega', 'a'], n)
    authors = rng.sample(['John Smith', 'Ann Lee', 'john smith', 'Jim Smirnov', 'Ann Smiley'], rng.randint(1, 3))
    entries = []
    for k in keys:
        fs = [['title', rng.choice(['Same title', 'Same title', 'Other'])], ['year', rng.choice(['2001', '2001', '1999'])]]
        r = rng.random()
        if r < 0.75:
            fs.append(['author', rng.choice(authors)])
        elif r < 0.85:
            fs.append(['editor', rng.choice(authors)])
        entries.append({'type': rng.choice(['misc', 'misc', 'book', 'unpublished']), 'key': k, 'fields': fs + [['publisher', 'P'], ['note', 'N']]})
    cites = keys[:]
    rng.shuffle(cites)
    case = {'op': 'pystyle', 'entries': entries, 'citations': cites if rng.random() < 0.8 else ['*'], 'min_crossrefs': 2,
            'style': rng.choice(['plain', 'alpha', 'unsrt', 'unsrtalpha'])}
    if rng.random() < 0.6:
        case['sorting_style'] = 'author_year_title'
    if rng.random() < 0.5:
        case['label_style'] = rng.choice(['number', 'alpha'])
    return case


def gen_cases(tier, rng, info):
    cases = []
    for _ in range(150 if tier == 'quick' else 5000):
        cases.append(gen_ties(rng))
    # every type with all fields and with the minimal required fields, every style
    for t in TYPES:
        full = [[f, VALUES.get(f, GENERIC)[0]] for f in FIELDS] + [['author', 'Donald E. Knuth and Leslie Lamport'], ['editor', 'Ed Itor']]
        for st in STYLES:
            cases.append({'op': 'pystyle', 'entries': [{'type': t, 'key': 'full', 'fields': full}], 'citations': ['full'], 'min_crossrefs': 2, 'style': st})
        cases.append({'op': 'pystyle', 'entries': [{'type': t, 'key': 'empty', 'fields': []}], 'citations': ['empty'], 'min_crossrefs': 2, 'style': 'unsrt'})
        # every field present but blank; the same with a title / with title and names
        for keep in ((), ('title',), ('title', 'author', 'editor')):
            fs = [[f, VALUES.get(f, GENERIC)[0] if f in keep else ''] for f in FIELDS]
            if 'author' in keep:
                fs += [['author', 'Donald E. Knuth'], ['editor', 'Ed Itor']]
            cases.append({'op': 'pystyle', 'entries': [{'type': t, 'key': 'blank', 'fields': fs}], 'citations': ['blank'], 'min_crossrefs': 2, 'style': 'unsrt'})
    import itertools
    core = ['booktitle', 'publisher', 'year', 'journal', 'school'] + ([] if tier == 'quick' else ['institution', 'howpublished', 'organization', 'note'])
    for t in TYPES:
        for mask in itertools.product([False, True], repeat=len(core)):
            # title and names are real, a subset of the core fields is present but blank, everything else is absent
            fs = [['title', 'T'], ['author', 'A B']] + [[f, ''] for f, m in zip(core, mask) if m]
            cases.append({'op': 'pystyle', 'entries': [{'type': t, 'key': 'blank', 'fields': fs}], 'citations': ['blank'], 'min_crossrefs': 2, 'style': 'unsrt'})
    info['exhaustive'] = False
    info['scope'] = '%d systematic cases (17 types x full / empty entry x styles) + seeded random databases' % len(cases)
    for _ in range(1200 if tier == 'quick' else 25000):
        cases.append(gen_case(rng))
    return cases


LEVEL_TEXT = ('Machine-checked proofs (Lean 4) over an executable model of the Python formatting engine: the template evaluator '
              '(join/words/toplevel, together, sentence, field, names, optional, first_of, tag, href, name_part over the rich-text model of C08), '
              'Text.from_latex, the sorting styles none / author_year_title, the label styles number / alpha and BaseStyle.format_bibliography = '
              'resolve (C05) -> drop missing -> sort -> label -> template.  Proved for ALL databases, citation lists, templates and name templates: '
              'one formatted entry per resolved citation, citation order resp. stable sort by the key triple (a strict total order), number labels '
              '1..n distinct, alpha labels distinct under an explicit decidable proviso, FieldIsMissing characterised exactly (which node, which entry), '
              'terminating punctuation for sentence-built templates, protected text untouched, every printed field value occurs in the output.  The '
              'model is tied to the code by a correspondence check over all 17 entry types x 4 styles x label / sorting / name styles in which the '
              'templates of the live style objects are serialised and evaluated by the Lean evaluator.')
LEVEL_NOTE = ('Trusted: Lean kernel; axioms propext/Classical.choice/Quot.sound only; the hand-written model corresponds to the Python code only as '
              'far as the differential check explores; the templates get_<type>_template(entry) and the name-style templates are INPUTS of the '
              'evaluator (the theorems quantify over all templates; that the shipped templates satisfy endsInSentence is not part of the proof: '
              'about 89% of the sampled live templates do, the others end in words["In", sentence[...]] whose termination depends on the last '
              'sentence being non-empty); latexcodec decode = identity; ASCII case mapping.  The model follows the code with proposed fixes C05-1 / '
              'C14-1 / C14-2 / C08-1..5 applied.  Alpha labels are NOT always distinct: C07_alpha_labels_partial + C07_alpha_labels_neg, known '
              'finding C07-alpha-suffix-collision (a unique base label equal to a repeated one plus its suffix letter).  Field coverage is stated '
              'on str(text) for the field nodes on the successful path (printed); the URL of an href (link target, not text) and abbreviated name '
              'parts are excluded; a names node is required of the entry itself (no crossref inheritance) by design of the code.  Not proved: '
              'that evalFuel = 1000 suffices for every template (C07_fuel_irrelevant shows fuel never changes a result; the model reports '
              'out-of-fuel as its own error, never observed), the alpha base labels format_label themselves (only the suffix loop), backends (C09).')
