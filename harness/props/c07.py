"""C07 -- Python-engine bibliography: complete, ordered, uniquely labelled, lossless."""
import re

import compat  # noqa: F401
from props.base import corpus_for  # noqa: F401
from props import c01, c08
from props import c07_fn

ID = 'C07'
LEAN_MODULES = ['PybtexModel.Props.C07', 'PybtexModel.Props.C07x', 'PybtexModel.Props.C07y']
THEOREMS = {
    'C07_one_per_citation': "RELATIVE TO THE C05 RESOLUTION (resolvedKeys / resolvedEntries = the model's own addExtraCitations + drop-missing prefix of format_bibliography, characterised separately by the C05 theorems): sort, label and template neither drop nor duplicate an entry (formatted keys = a permutation of the resolved entries' keys, same number); independent part: every resolved key denotes its stored entry",
    'C07_no_duplicates': 'for well-formed entries no two formatted entries have the same key up to case (from C05_no_dup)',
    'C07_order_none': "sorting style none, relative to the C05 resolution (the model's own resolution prefix, see C07_one_per_citation): sort / label / template keep the order - the formatted keys are the keys of the resolved entries in the order of the resolved citations",
    'C07_key_order': 'the comparison of author_year_title (Python < on strings and on the key triples) is a strict total order',
    'C07_order_ayt': "sorting style author_year_title, relative to the C05 resolution: the output is a permutation of the resolved entries, ascending by the key triple, equal triples keep citation order (stable); 'by author/editor, year, title' is the MODEL's sortingKey (a transliteration of sorting_key; no independent spec - tied to the code by the correspondence check only)",
    'C07_sort_generic': 'the insertion sort modelling sorted() returns a sorted, stable permutation for any strict weak order',
    'C07_number_labels': 'when format_bibliography succeeds with the number label style: labels are "1" .. "n" in output order and pairwise distinct (decimal notation is injective)',
    'C07_alpha_labels_partial': "alpha labels = the MODEL's base labels (formatLabel; shape only, not agreement with alpha.bst) run through the suffix loop; pairwise distinct ONLY under alphaProviso (no unique base label equals a repeated base label plus one of its suffix letters, no label more than 26 times); without it: C07_alpha_labels_neg",
    'C07_alpha_suffix_partial': 'the suffix loop alone: no repetition under the proviso, for any list of base labels',
    'C07_alpha_labels_neg': 'witness: base labels ab, ab, aba get the labels aba, abb, aba (finding C07-alpha-suffix-collision)',
    'C07_fuel_irrelevant': 'the fuel bound of the evaluator never influences a result other than out-of-fuel',
    'C07_optional_never_missing': 'optional[...] never propagates a missing field',
    'C07_missing_required_eval': 'a FieldIsMissing(f) of the evaluator names a field/names node outside every optional whose lookup fails (field: along the crossref chain; names: the entry\'s own persons); if all required lookups succeed no such error occurs',
    'C07_missing_iff': 'exact, evaluator level, FOR SOME FUEL: the evaluation fails with FieldIsMissing(f) for some fuel iff, going left to right (first_of lazily, never into a failing optional; an href evaluates its URL BEFORE its children, as HRef(_format_data(url), *parts) does - corrected in round 2), the first node that fails is a field/names node named f whose lookup finds nothing (every sufficient fuel gives the same answer: C07_fuel_irrelevant)',
    'C07_missing_required': 'pipeline, ONE DIRECTION (error => cause): a FieldIsMissing error names the field and the key of the first entry (in formatting order) whose template fails with Missing, all earlier entries having been formatted; converse: C07_missing_required_conv (under a fuel hypothesis), at evaluator level C07_missing_iff (for some fuel)',
    'C07_missing_required_conv': "pipeline, converse direction: if labels can be formed, all entries before e in formatting order format without error, Missing holds for e's template and field f, and evalFuel suffices for that template (explicit hypothesis: the evaluation does not run out of fuel), format_bibliography fails with FieldIsMissing(f, key of e)",
    'C07_missing_required_conv_nonvacuous': 'non-vacuity: two-entry database, the first entry formats, the second has no journal: labels form, Missing holds for journal (via C07_missing_iff), evalFuel suffices, and format_bibliography reports FieldIsMissing(journal, nj)',
    'C07_terminated': 'CONDITIONAL on endsInSentence (decidable syntactic condition: built from sentences with add_period; a monitored invariant of the shipped templates - incollection / inproceedings never satisfy it): such a template evaluates to a text that is empty or ends with . ? or !; lifted to every formatted entry whose template satisfies it',
    'C07_protected_case': "PER OPERATION only (whole entries: C07_protected_case_pipeline): from_latex puts brace groups under Protected; each of lower/upper/capfirst/capitalize/dashify, a sentence node's post-processing and a single non-raw field node leave the protected atoms exactly as they are",
    'C07_protected_case_pipeline': "whole entry, ALL templates: for every formatted entry and every printed non-raw field occurrence (traversal printed) the brace-protected characters of the decoded field value occur - same characters, same case, still under Protected - as one contiguous run of the entry's protected characters (their markup stacks may gain tags / links); WHERE the run stands is not stated (C07_field_coverage, up to case)",
    'C07_protected_case_pipeline_nonvacuous': "non-vacuity: a lower-casing title field inside a tag inside a capfirst sentence on 'on {TeX} THINGS and {B}ig' prints 'On TeX things and Big.' with protected characters T e X B = those of the value; the same through format_bibliography on the example database",
    'C07_field_coverage': "for ALL templates: every field node in printed (nodes on the successful path; optional / first_of branches chosen by the model's own eval - relative to the evaluator; abbreviated name parts and href URLs excluded) has a value whose str(text) occurs contiguously in str(output), up to case under capfirst/capitalize sentences; value text = decoded field string without braces (none), up to case (lower/capitalize), up to dashes (dashify); lifted to every formatted entry; str(text), not backend output",
    'C07_name_coverage': "for ALL templates (all name-style templates): every name word in printedN (literal child of a name_part on the evaluated path; branch choice by the model's own eval) is shown contiguously in str(output), as the word or as word.abbreviate() when the name_part abbreviates; lifted to every formatted entry; that the shipped name styles put every part of a person under a name_part: oracle only",
    'C07_abbreviate': 'abbreviate(): the pieces (cut at white space / hyphens outside Protected, separators kept) spell the text; the result spells, piece by piece, first character + period for an alphabetic piece (str.isalpha of the interpreter) and the piece itself otherwise',
    'C07_unicode_keys': "person keys of author_year_title are normalised with str.lower (idempotent; persons differing in ASCII letter case only get the same key); _strip_nonalnum yields ASCII letters and digits only (table regenerated from unicodedata); this is ALL that is proved about the sort key beyond the model's definition",
    'C07_name_style_parts': "the shipped name styles INSIDE the model (formatName = plain / lastfirst NameStyle().format): when the template is produced (every word of the person parses) the name words on its evaluated path (printedN, fuel >= 6) are exactly Text.from_latex of the person's words - plain: first+middle, von, last, lineage; lastfirst: von, last, lineage, first+middle - and only the first+middle words carry the abbreviation flag, equal to abbr (closes the gap 'oracle only' of C07_name_coverage)",
    'C07_person_words_shown': "composition with C07_name_coverage: if the name style produces template t for a person and t evaluates to r (fuel >= 6), every word w of the person parses to a rich text x and str(r) contains str(x) contiguously (von / last / lineage words; first / middle names without abbr) resp. str(x.abbreviate()) (first / middle names with abbr); whole bibliography: through C07_name_coverage's pipeline part; stated for the name template evaluated on its own - the lift to whole formatted entries (names node -> personTemplatesOf -> f.text, fuel >= 6 left at the names node) is NOT stated as a theorem: the identification of the entry's name words with the persons' words is carried by the correspondence check (shipped.person_templates)",
    'C07_person_words_shown_nonvacuous': "non-vacuity: 'de Sartre, Jr, Jean-Paul' - the model builds the expected plain / lastfirst templates (by rfl) and they print 'J.-P. de<nbsp>Sartre, Jr' / 'de<nbsp>Sartre, Jr, J.-P.'; a word a}b gives no template",
    'C07_name_style_requires_nothing': 'a name template of the shipped name styles contains no field / names node: it adds nothing to the lookups that can be reported missing',
    'C07_shipped_terminated': "the templates of unsrt.py INSIDE the model (getTemplate): for article, booklet, dataset, manual, mastersthesis, misc, online, patent, phdthesis, proceedings, software, techreport, unpublished and for book / inbook entries with an editor the template satisfies endsInSentence for EVERY entry (was: monitored on samples); pipeline (formatBibliographyShipped, hypothesis: the keys of the database are pairwise distinct): every formatted entry of such an entry is empty or ends with . ? !; incollection / inproceedings stay excluded (finding C07-blank-field-in-unterminated)",
    'C07_shipped_required': "for each of the seventeen entry types (hypothesis: the type is one of them) the field / names lookups of the model's template outside every optional are the list Spec.requiredOf (article: author, title, journal, year; book / inbook: editor standing for author-or-editor, title, publisher, year; ...; misc-like types: nothing): with C07_missing_required_eval only these can be reported missing",
    'C07_shipped_required_nonvacuous': 'non-vacuity: the article example entry gets articleTemplate, its required list, 17 types, article is a terminatingEntry, incollection is not',
    'C07_shipped_types': 'the model has a template for exactly the entry types that have a get_<type>_template method in /repo (Gen.pyStyleTypes, regenerated); the message of the BibliographyDataError for other types is composed from the regenerated pieces [table tie; the message conjunct is ONE kernel-evaluated instance (webpage / k1) built from the regenerated pieces]',
    'C07_style_configuration': "BaseStyle.__init__ on the regenerated class attributes / group defaults: unsrt = plain names, number labels, citation order; plain = author_year_title; alpha = alpha labels + author_year_title; unsrtalpha = alpha labels + citation order; explicitly given label / name / sorting style and abbreviate_names always win (all 4 x 2 x 2 x 2 x 2 combinations)",
    'C07_spine_names_shown': "lift of C07_person_words_shown, evaluator level, any template: hypotheses - the context's name templates are personTemplatesOf st dec abbr roles (shipped name style st), eval fuel ctx t = ok r (any fuel), a names node for the role is on the spine of t (onSpine, Lemmas/NamesSpine.lean: reached through join / together / tag / href children / sentence without capfirst, capitalize; never through optional / first_of); conclusion - the first of roles whose name equals the role up to case exists, and for every person of it every word w parses (Text.from_latex) to x and str(r) contains str(x) contiguously (von / last / lineage; first / middle without abbr) resp. str(x.abbreviate()) (first / middle with abbr); the fuel left at the names node is derived from the successful evaluation, not assumed. NOT proved: names nodes under optional / first_of",
    'C07_spine_names_shown_nonvacuous': "non-vacuity: the article template over the name templates the plain style builds for 'de Sartre, Jr, Jean-Paul' and 'A Abel' evaluates (fuel 20) to 'J.-P. de<nbsp>Sartre, Jr and A.<nbsp>Abel.<newblock>T.<newblock>J, 2001.'; author is on the spine",
    'C07_entry_names_shown': "whole entries of the fully modelled run: hypotheses - keys of the database pairwise distinct, formatBibliographyShipped cfg dec es cites mc = some (rep, ok fs); conclusion - every formatted f belongs to an entry e of es with the same key, and for every template t = getTemplate e and role with onSpine role t the role is present in e.roles (first match up to case) and every word of every person of it (or its abbreviate() for first / middle names when cfg.abbr) occurs contiguously in str(f.text); both name styles, all label / sorting styles. Which shipped templates qualify: C07_shipped_spine. NOT proved: roles whose names node is under optional / first_of (book, inbook, manual, misc, dataset, online, patent, software; editor of incollection / inproceedings)",
    'C07_entry_names_shown_nonvacuous': "non-vacuity: a one-article database (authors 'de Sartre, Jr, Jean-Paul', 'A Abel'): distinct keys, article template, author on the spine, role found, and the shipped run gives 'J.-P. de<nbsp>Sartre, Jr and A.<nbsp>Abel.<newblock>T.<newblock>J, 2001.' (plain names, abbreviate_names) resp. label dSA01, 'de<nbsp>Sartre, Jr, Jean-Paul and Abel, A.<newblock>...' (lastfirst, alpha labels, sorted)",
    'C07_shipped_spine': "finite table, by evaluation of onSpine on the model templates for both values of the two entry facts the templates read (has editor, more than one editor): the author node of article, booklet, incollection, inproceedings, mastersthesis, phdthesis, techreport, unpublished is on the spine for EVERY entry of the type (hypothesis: getTemplate e = some t); the editor node of a proceedings entry that has an editor is on the spine",
    'C07_shipped_spine_nonvacuous': "the notion is not trivially true: onSpine is false for the author / editor of book (first_of) and the author of misc (optional), true for the editor of proceedings with editors; spineAlways has 8 pairs",
    'C07_shipped_names_shown': "C07_entry_names_shown composed with C07_shipped_spine, no template in the statement: hypotheses - distinct keys, the shipped run succeeds with fs; conclusion - every f of fs comes from an entry e of the same key, and if e is an article, booklet, incollection, inproceedings, mastersthesis, phdthesis, techreport or unpublished entry it has an author role and every word of every author (or its initials form abbreviate() for first / middle names under abbreviate_names) occurs contiguously in str(f.text); likewise the editors of a proceedings entry that has an editor. NOT proved: the other nine entry types and the editor of incollection / inproceedings (names under optional / first_of); non-vacuity: C07_entry_names_shown_nonvacuous (an article)",
    'C07_shipped_names_shown_nonvacuous': "non-vacuity: (article, author) is in the table, the one-article database of C07_entry_names_shown_nonvacuous is an article, and its shipped run (plain names, abbreviate_names) succeeds with formatted entries",
    'C07_shipped_pipeline': "[model wiring] formatBibliographyShipped (when defined: every name word parses) is formatBibliography on the model's own items (templates of Model/UnsrtStyle, name templates of Model/NameStyle), citations None = the keys of the database in order: every C07 theorem stated for arbitrary items applies to it",
    'C07_alpha_base_label': 'alpha base labels (format_label): end with year[-2:] when the entry has a year; the part made from persons (format_lab_names) consists of ASCII letters, digits and + only; for ordinary entry types with authors the base label is format_lab_names(authors) + year suffix',
}
RULE = ('databases over all seventeen entry types, each entry with a random subset of the fields its template reads (values with braces, '
        'hyphen runs, TeX: -- --- \\& {\\"o} ~ quotes, letters outside ASCII; persons in all name forms incl. lineage, hyphens, TeX accents, '
        'non-ASCII; cross-references; volume / number / series with unprotected upper-case letters inside - roman numerals, acronyms, title-case series - in the five types that print them), every citation list shape (subset / permutation / "*" / unknown key), EVERY combination formatting '
        'style x label style x sorting style x name style x abbreviate_names on one database plus random combinations; the expected sorting / '
        'labels / name style / abbreviation are derived from the CASE (never from the live style object); every case is also run through '
        'PybtexEngine().format_from_string with the configuration as keyword arguments and each of the four backends; the templates of the '
        'live style object and the name templates of the configured name style are serialised per entry and evaluated by the Lean template '
        'evaluator, the result is rendered by the Lean backend models; non-trivial = at least two formatted entries; distinct by case JSON')
TRUSTED = ['the templates get_<type>_template(entry) and the name-style templates are modelled (Model/UnsrtStyle.lean, Model/NameStyle.lean) AND still '
           'travel with every request as serialised Node trees of the live style objects: `out` is the evaluator on the serialised trees, the '
           'model trees are compared with them entry by entry (correspondence fields shipped.templates / shipped.person_templates) and the '
           'fully modelled run (formatBibliographyShipped) with `out` (shipped.out); hand-written after unsrt.py, not generated',
           'the translator harness/props/c07.py:tmpl (Node -> JSON, keyword defaults of join / words / sentence / names / name_part / href written '
           'out in _bind) and its inverse c07_fn.build used for the node-level op tmpleval',
           'latexcodec decode is DATA: the decoded form of every field value (computed by the real codec) travels with the request, as in C09',
           'apply_func closures are recognised by probing (dashify / lower / capitalize); an unrecognised closure stops the translator loudly',
           'the backend models of C09 (Model/Backends.lean; latexcodec encode = probed ASCII table + pass-through)',
           'unicodedata (NFD, combining) and str.lower / str.isalpha of the running interpreter: regenerated tables (Gen/StripAccents, Gen/UnicodeCase, Gen/Unicode)']
ASSUMPTIONS = ['an entry type the style does not define is reported as BibliographyDataError naming type and entry (modelled, generated: webpage / thesis); '
               'a style class with a format_<type> method instead of a template method is not modelled (none is shipped: Gen.pyStyleFormatMethods = [])',
               'name words with unbalanced braces (Person objects built by hand; Person(string) never produces them): formatBibliographyShipped gives no answer',
               'letters outside ASCII: everywhere in persons (sort keys, alpha labels, initials follow the interpreter\'s Unicode tables); in other '
               'field values only where the rich-text model of C08 (ASCII case mapping) applies no case change to them: not as the first character '
               'of a value, upper-case ones only inside braces; no U+0130 / U+03A3 (str.lower is not character-wise there)',
               'parents follow their children in the file (C05-filtered-parent-before-child) so that the filtered read of PybtexEngine sees them']

TYPES = ['article', 'book', 'booklet', 'dataset', 'inbook', 'incollection', 'inproceedings', 'manual', 'mastersthesis', 'misc', 'online',
         'patent', 'phdthesis', 'proceedings', 'software', 'techreport', 'unpublished']
FIELDS = ['title', 'year', 'month', 'journal', 'volume', 'number', 'pages', 'note', 'publisher', 'address', 'edition', 'series', 'booktitle',
          'chapter', 'howpublished', 'organization', 'school', 'institution', 'type', 'url', 'urldate', 'doi', 'eprint', 'pubmed', 'isbn', 'key']
# values with TeX: the codec turns -- / --- into dash characters, \& into &, {\"o} into {ö}, ~ into a no-break space, `` '' into quotes;
# non-ASCII letters of a title are lower case and not in first position (the rich-text model of C08 maps the case of ASCII letters only)
VALUES = {
    'title': ['The {TeX}book', 'a study of {B}races: and colons', 'UPPER lower Mixed', 'plain title', 'Ends with period.', 'What now?', '{Whole Protected}',
              'Gr{\\"o}bner bases --- a {\\"U}bersicht', "R\\'esum\\'e of the caf\\'e~problem", "On ``quoted'' words \\& more", 'naïve sets and their {É}tudes',
              'Research \\& {D}evelopment: 100\\% more', 'The {$O(n^2)$} bound -- revisited'],
    'year': ['1984', '2001', '1990', '99', '1984--85'],
    'month': ['January', 'feb', '7'],
    'pages': ['1-10', '5', '100-120', '11-20, 30', '1--10', '3---9', '12-{}-14', '7{-}9', 'A-1----A-5', '11--20, 30-{}-{}-40', 'x-{y}-z', '-', '1~--~2'],
    'volume': ['3', 'IV', '12'], 'number': ['2', '7b', '3--4'], 'chapter': ['8', '666'], 'edition': ['Second', '3rd'],
    'url': ['http://example.org/a_b', 'https://x.y/z', 'http://e.org/~u/a--b?x=1\\&y=2'], 'urldate': ['2020-01-02'], 'doi': ['10.1000/xyz', '10.1/a--b'],
    'eprint': ['1234.5678'], 'pubmed': ['12345'], 'isbn': ['3257227892', '0-201-13448-9'], 'key': ['Knu', 'ab', 'K', 'Åb'],
}
GENERIC = ['Some Name', 'the lower case one', 'A {B} c', 'Addison-Wesley', 'X', 'New York', 'Univ. of Somewhere',
           'AT\\&T Press', 'K{\\"o}ln~University', 'Stra{\\ss}e 5 -- annex', 'Presses de l’Université', 'Springer-Verlag, Berlin--Heidelberg',
           'The Łódź Society', "O'Reilly \\& Sons", 'Société {\\emph{x}}']
PERSONS = ['Donald E. Knuth', 'Knuth, Donald E.', 'Leslie Lamport', 'Jean de La Fontaine', 'von Beethoven, Jr, Ludwig', '{Barnes and Noble}',
           'A. B. Cee', 'Ab Cd', 'X', 'others', 'Smith', 'de la Vall{e}e Poussin, Charles Louis Xavier Joseph',
           # lineage parts, hyphenated and protected first names, TeX accents, letters outside ASCII (sort keys, alpha labels, initials)
           'King, III, Martin Luther', 'Smith, Jr., John Q.', 'Jean-Paul Sartre', '{Jean Paul} Marat', 'Kurt G{\\"o}del', 'Paul Erd{\\H{o}}s',
           "Charles de la Vall{\\'e}e Poussin", 'Anders Jonas Ångström', 'Éric Éz', 'éa, Zoë', 'Łukasz Ørsted-Ñandú', 'Çelik, Ömer',
           'van der Waerden, Bartel L.', 'Иван Петров', 'Ōe Kenzaburō', 'd’Alembert, Jean le Rond', 'Strauß, Jr, Johann']
STYLES = ['unsrt', 'plain', 'alpha', 'unsrtalpha']
# entry types the shipped styles do not define: format_entry raises BibliographyDataError naming type and entry
UNKNOWN_TYPES = ['webpage', 'thesis']


# ------------------------------------------------------------------------------------------------
# translator: live Node trees -> JSON for the Lean evaluator

class Untranslatable(Exception):
    pass


def _rt(x):
    """a str / rich text / None child as a JSON rich-text tree"""
    from pybtex import richtext as rt
    if x is None:
        return {'k': 'text', 'p': []}
    if isinstance(x, str):
        return x
    if isinstance(x, rt.BaseText):
        return c08.dump(x)
    raise Untranslatable('child %r' % (x,))


_FN_CACHE = {}


def _apply_fn(f):
    if f is None:
        return 'none'
    key = getattr(f, '__code__', f)
    if key in _FN_CACHE:
        return _FN_CACHE[key]
    from pybtex.richtext import Text, Tag
    probes = [Text('aB--c-D e'), Text('x', Tag('em', 'Y-z'), ' Q')]
    import pybtex.style.formatting.unsrt as unsrt
    cands = {'dashify': unsrt.dashify, 'lower': lambda t: t.lower(), 'capitalize': lambda t: t.capitalize()}
    got = None
    for name, g in cands.items():
        try:
            if all(f(p) == g(p) for p in probes):
                got = name
                break
        except Exception:
            continue
    if got is None:
        raise Untranslatable('apply_func %r is none of dashify / lower / capitalize' % (f,))
    _FN_CACHE[key] = got
    return got


def _bind(names, defaults, args, kwargs):
    d = dict(defaults)
    for n, a in zip(names, args):
        d[n] = a
    for k, v in kwargs.items():
        if k not in d:
            raise Untranslatable('unexpected keyword %s' % k)
        d[k] = v
    return d


def tmpl(node):
    """Node / str / rich text -> template JSON"""
    from pybtex.style.template import Node
    if not isinstance(node, Node):
        return {'t': 'lit', 'r': _rt(node)}
    n = node.name
    kids = [tmpl(c) for c in node.children]
    a, kw = node.args, node.kwargs
    if n in ('join', 'words'):
        d = _bind(['sep', 'sep2', 'last_sep'] if n == 'join' else ['sep'],
                  {'sep': '' if n == 'join' else ' ', 'sep2': None, 'last_sep': None}, a, kw)
        sep = d['sep']
        return {'t': 'join', 'sep': _rt(sep), 'sep2': _rt(sep if d['sep2'] is None else d['sep2']),
                'last': _rt(sep if d['last_sep'] is None else d['last_sep']), 'c': kids}
    if n == 'toplevel':
        from pybtex.richtext import Symbol
        s = _rt(Symbol('newblock'))
        return {'t': 'join', 'sep': s, 'sep2': s, 'last': s, 'c': kids}
    if n == 'together':
        d = _bind(['last_tie'], {'last_tie': False}, a, kw)
        return {'t': 'together', 'last_tie': bool(d['last_tie']), 'c': kids}
    if n == 'sentence':
        d = _bind(['capfirst', 'capitalize', 'add_period', 'sep'], {'capfirst': False, 'capitalize': False, 'add_period': True, 'sep': ', '}, a, kw)
        return {'t': 'sentence', 'capfirst': bool(d['capfirst']), 'capitalize': bool(d['capitalize']), 'add_period': bool(d['add_period']),
                'sep': _rt(d['sep']), 'c': kids}
    if n in ('field', 'optional_field'):
        d = _bind(['name', 'apply_func', 'raw'], {'name': None, 'apply_func': None, 'raw': False}, a, kw)
        f = {'t': 'field', 'name': d['name'], 'fn': _apply_fn(d['apply_func']), 'raw': bool(d['raw'])}
        if kids:
            raise Untranslatable('field with children')
        return f if n == 'field' else {'t': 'optional', 'c': [f]}
    if n == 'names':
        role = a[0] if a else kw.get('role')
        rest = dict(kw)
        rest.pop('role', None)
        d = _bind(['sep', 'sep2', 'last_sep'], {'sep': '', 'sep2': None, 'last_sep': None}, a[1:], rest)
        sep = d['sep']
        return {'t': 'names', 'role': role, 'sep': _rt(sep), 'sep2': _rt(sep if d['sep2'] is None else d['sep2']),
                'last': _rt(sep if d['last_sep'] is None else d['last_sep'])}
    if n == 'optional':
        return {'t': 'optional', 'c': kids}
    if n == 'first_of':
        return {'t': 'first_of', 'c': kids}
    if n == 'tag':
        d = _bind(['name'], {'name': None}, a, kw)
        return {'t': 'tag', 'name': d['name'], 'c': kids}
    if n == 'href':
        d = _bind(['url', 'external'], {'url': None, 'external': False}, a, kw)
        if d['url'] is None:
            raise Untranslatable('href without url (deprecated form)')
        return {'t': 'href', 'url': tmpl(d['url']), 'external': bool(d['external']), 'c': kids}
    if n == 'name_part':
        d = _bind(['before', 'tie', 'abbr'], {'before': '', 'tie': False, 'abbr': False}, a, kw)
        return {'t': 'name_part', 'before': _rt(d['before']), 'tie': bool(d['tie']), 'abbr': bool(d['abbr']), 'c': kids}
    raise Untranslatable('node %s' % n)


# ------------------------------------------------------------------------------------------------
# configuration: what the CASE asks for (never read back from the live style object)

# the four Pythonic styles: unsrt = citation order + number labels, plain = sorted + number labels, alpha = sorted + alpha labels,
# unsrtalpha = citation order + alpha labels; names are "First von Last, Jr" (plain) unless configured otherwise
STYLE_DEFAULTS = {'unsrt': ('number', 'none'), 'plain': ('number', 'author_year_title'),
                  'alpha': ('alpha', 'author_year_title'), 'unsrtalpha': ('alpha', 'none')}
BACKENDS = ['text', 'html', 'latex', 'markdown']


# Monitored invariant (C07_terminated needs `endsInSentence template`, a decidable syntactic condition the driver evaluates on every
# serialised live template): the templates of these entry types satisfy it for every entry -- for book / inbook whenever the entry has
# an editor (without one the template ends in a bare names node that raises or is skipped) -- as recorded when the machinery was
# built (corpus/C07/ends_in_sentence.json holds the per-entry record for every type).  incollection / inproceedings end in
# words['In', sentence[...]] and never satisfy it (finding C07-blank-field-in-unterminated).  A live template that used to satisfy the
# condition and no longer does shows up as a disagreement between this expectation and the driver's answer.
ENDS_ALWAYS = {'article', 'booklet', 'dataset', 'manual', 'mastersthesis', 'misc', 'online', 'patent', 'phdthesis', 'proceedings',
               'software', 'techreport', 'unpublished'}
ENDS_WITH_EDITOR = {'book', 'inbook'}


def expected_ends(case):
    """keys of the entries whose live template is expected to satisfy endsInSentence"""
    keys = set(k for k, v in case.get('expect_ends', {}).items() if v)
    seen = set()
    for e in case['entries']:
        if e['key'].lower() in seen:
            continue
        seen.add(e['key'].lower())
        if e['type'] in ENDS_ALWAYS or (e['type'] in ENDS_WITH_EDITOR and any(n.lower() == 'editor' for n, _v in e['fields'])):
            keys.add(e['key'])
    return sorted(keys)


def configured(case):
    lab, srt = STYLE_DEFAULTS[case['style']]
    return {'labels': case.get('label_style') or lab, 'sorting': case.get('sorting_style') or srt,
            'names': case.get('name_style') or 'plain', 'abbr': bool(case.get('abbreviate_names'))}


_EP_CACHE = {}


def _fast_entry_points():
    """importlib.metadata scans take ~3 ms per lookup: memoise pybtex.plugin.entry_points per argument tuple (harness only)"""
    import pybtex.plugin as pl
    if getattr(pl.entry_points, '_verif_cached', False):
        return
    orig = pl.entry_points

    def cached(**kw):
        k = tuple(sorted(kw.items()))
        if k not in _EP_CACHE:
            _EP_CACHE[k] = orig(**kw)
        return _EP_CACHE[k]
    cached._verif_cached = True
    pl.entry_points = cached


def make_style(case):
    from pybtex.plugin import find_plugin
    _fast_entry_points()
    cls = find_plugin('pybtex.style.formatting', case['style'])
    return cls(label_style=case.get('label_style'), name_style=case.get('name_style'), sorting_style=case.get('sorting_style'),
               abbreviate_names=case.get('abbreviate_names', False), min_crossrefs=case['min_crossrefs'])


def bib_text(case):
    out = []
    for e in case['entries']:
        fs = ['  %s = {%s}' % (k, v) for k, v in e['fields']]
        out.append('@%s{%s,\n%s\n}\n' % (e['type'], e['key'], ',\n'.join(fs)))
    return '\n'.join(out)


def parse_db(case):
    from pybtex import errors
    from pybtex.database import parse_string
    with errors.capture():
        return parse_string(bib_text(case), 'bibtex')


def _error_of(e):
    cls = type(e).__name__
    if cls == 'FieldIsMissing':
        m = re.match(r'missing (.*) in (.*)$', e.args[0], re.S)
        return ['FieldIsMissing', m.group(1), m.group(2)]
    if cls == 'BibliographyDataError':
        return [cls, e.args[0]]
    return [cls]


def engine_backends(case):
    """the backends through which the PybtexEngine path is run for this case: all four for a one-entry database, one of them
    (rotating with the content of the case) for larger ones -- every backend sees a quarter of the larger databases"""
    if len(case['entries']) <= 1:
        return BACKENDS
    import json
    import zlib
    return [BACKENDS[zlib.crc32(json.dumps(case, sort_keys=True).encode('utf-8')) % 4]]


def _engine_run(case, backend):
    """the second way into the same machinery: PybtexEngine().format_from_string with the configuration as keyword arguments"""
    import pybtex
    from pybtex import errors
    from pybtex.exceptions import PybtexError
    kw = {k: case[k] for k in ('label_style', 'name_style', 'sorting_style', 'abbreviate_names') if k in case}
    try:
        with errors.capture():
            return pybtex.PybtexEngine().format_from_string(bib_text(case), style=case['style'], citations=['*'] if case['citations'] is None else list(case['citations']), bib_format='bibtex',
                                                            output_backend=backend, min_crossrefs=case['min_crossrefs'], **kw)
    except PybtexError as e:
        return {'error': _error_of(e)}
    except Exception as e:  # noqa
        return {'error': ['INTERNAL'], 'detail': '%s: %s' % (type(e).__name__, e)}


def impl(case):
    if case['op'] in c07_fn.FN_OPS:
        return c07_fn.impl(case)
    import io
    from pybtex import errors
    from pybtex.exceptions import PybtexError
    from pybtex.plugin import find_plugin
    try:
        db = parse_db(case)
        style = make_style(case)
        with errors.capture() as captured:
            # citations None: format_bibliography(db) without a citation list = every entry of the database
            fb = style.format_bibliography(db) if case['citations'] is None else style.format_bibliography(db, list(case['citations']))
            entries = [[e.key, e.label, c08.dump(e.text)] for e in fb]
        out = {'entries': entries, 'reports': [_report(e) for e in captured]}
        # every entry through each of the four backends
        out['render'] = [{b: e.text.render_as(b) for b in BACKENDS} for e in fb]
        out['plain'] = [r['text'] for r in out['render']]
        docs = {}
        for b in BACKENDS:
            s = io.StringIO()
            find_plugin('pybtex.backends', b)(None).write_to_stream(fb, s)
            docs[b] = s.getvalue()
    except PybtexError as e:
        out = {'error': _error_of(e)}
        docs = {b: out for b in BACKENDS}
    except Exception as e:  # noqa
        return {'error': ['INTERNAL'], 'detail': '%s: %s' % (type(e).__name__, e)}
    # the same bibliography through PybtexEngine.format_from_string(..., sorting_style=, label_style=, name_style=, abbreviate_names=):
    # recorded only where it differs from the document the backend writes for the entries above
    diff = {}
    for b in engine_backends(case):
        got = _engine_run(case, b)
        if got != docs[b]:
            diff[b] = [got if isinstance(got, dict) else got[:4000], docs[b] if isinstance(docs[b], dict) else docs[b][:4000]]
    out['engine_diff'] = diff
    out['ends'] = sorted([k, True] for k in expected_ends(case))
    # the model of the shipped styles (templates, name styles, class attributes) must explain the same run: no differences
    cfg = configured(case)
    out['shipped'] = {'config': [cfg['names'], cfg['labels'], cfg['sorting'], cfg['abbr']], 'templates': [], 'person_templates': [], 'out': None}
    return out


def _report(e):
    m = e.args[0] if e.args else ''
    if m.startswith('missing database entry for "'):
        return ['missing', m[len('missing database entry for "'):-1]]
    if m.startswith('bad cross-reference: entry "'):
        mm = re.match(r'bad cross-reference: entry "(.*)" refers to entry "(.*)" which does not exist\.$', m)
        return ['bad_crossref', mm.group(1), mm.group(2)]
    if m.startswith('repeated bibliography entry: '):
        return ['repeated', m[len('repeated bibliography entry: '):]]
    return [type(e).__name__, m]


_REQ_CACHE = {}


def to_request(case):
    import json
    if case['op'] in c07_fn.FN_OPS:
        return c07_fn.to_request(case)
    k = json.dumps(case, sort_keys=True)
    if k not in _REQ_CACHE:
        if _PENDING:
            # first request after gen_cases: compute the requests of all generated cases on all cores (see _warm_requests)
            pending = list(_PENDING)
            del _PENDING[:]
            _warm_requests(pending)
            if k in _REQ_CACHE:
                return _REQ_CACHE[k]
        if len(_REQ_CACHE) > 80000:
            _REQ_CACHE.clear()
        _REQ_CACHE[k] = _to_request(case)
    return _REQ_CACHE[k]


_PENDING = []
_DEC_CACHE = {}


def _req_job(case):
    return _to_request(case)


def _warm_requests(cases):
    """to_request is a pure function of the case but costs ~15 ms (parse, style object, template serialisation, codec) and check.py
    calls it in the main process: the requests of all generated cases are computed on all cores the first time one is asked for (after
    the implementation runs, so that the worker processes of check.py are forked from a small parent) and parked in the cache"""
    import gc
    import json
    import multiprocessing
    import os
    jobs = int(os.environ.get('VERIF_JOBS', '16'))
    if jobs <= 1 or len(cases) < 500:
        return
    gc.collect()
    gc.freeze()       # the forked workers' collector must not touch (and so copy) the parent's heap
    try:
        with multiprocessing.get_context('fork').Pool(jobs) as pool:
            reqs = pool.map(_req_job, cases, chunksize=max(1, len(cases) // (jobs * 8)))
    except Exception:      # no pool: the requests are computed one by one when asked for
        return
    finally:
        gc.unfreeze()
    for c, r in zip(cases, reqs):
        _REQ_CACHE[json.dumps(c, sort_keys=True)] = r


def decode(v):
    """codecs.decode(v, 'ulatex'): what Text.from_latex applies to a field value / name word before parsing the braces"""
    d = _DEC_CACHE.get(v)
    if d is None:
        import codecs
        import latexcodec  # noqa: F401
        d = _DEC_CACHE[v] = codecs.decode(v, 'ulatex')
    return d


def _to_request(case):
    from pybtex.plugin import find_plugin
    db = parse_db(case)
    style = make_style(case)
    cfg = configured(case)
    # the name templates come from the name style the CASE configures (a fresh plug-in object), not from the style object
    name_style = find_plugin('pybtex.style.names', cfg['names'])()
    entries, _pre = c01.canon_db(db)
    items = []
    for key, e in db.entries.items():
        get = getattr(style, 'get_%s_template' % e.type, None)
        if get is None:
            continue
        t = tmpl(get(e))
        pts = [[role, [tmpl(name_style.format(p, cfg['abbr'])) for p in ps]] for role, ps in e.persons.items()]
        items.append({'key': key, 'template': t, 'person_templates': pts})
    dec = {}
    for e in entries:
        # field values and name words: Text.from_latex decodes both (fields in the field node, words in Person.rich_*_names)
        for v in [v for _k, v in e['fields']] + [w for _r, ps in e['persons'] for p in ps for part in p for w in part]:
            d = decode(v)
            if d != v:
                dec[v] = d
    from pybtex import errors
    with errors.capture():
        cites = list(db.entries.keys()) if case['citations'] is None else list(case['citations'])
        resolved = [k for k in db.add_extra_citations(cites, case['min_crossrefs']) if k in db.entries]
    return {'op': 'pystyle', 'entries': entries, 'items': items, 'citations': case['citations'], 'min_crossrefs': case['min_crossrefs'],
            'sorting': cfg['sorting'], 'labels': cfg['labels'], 'decode': sorted(dec.items()),
            # the style by name and the keyword arguments as given: the model of the shipped styles derives everything from these
            'style': case['style'], 'options': {k: case[k] for k in ('label_style', 'name_style', 'sorting_style', 'abbreviate_names') if k in case},
            # for the oracle only (the driver ignores it): the resolved citations according to the database API (C05)
            'resolved': resolved}


# backends whose per-entry rendering is compared with the model (Model/Backends.lean)
MODEL_BACKENDS = ['text', 'html', 'latex', 'markdown']


def compare_view(io):
    if 'fn' in io:
        return io['fn']
    if 'error' in io:
        v = {'error': io['error']}
    else:
        v = {'entries': io['entries'], 'reports': io['reports'], 'render': [{b: r[b] for b in MODEL_BACKENDS} for r in io['render']]}
    v['ends'] = io.get('ends')
    v['shipped'] = io.get('shipped')
    return v


def model_out(case, reply):
    if case['op'] in c07_fn.FN_OPS:
        return c07_fn.model_out(case, reply)['fn']
    o = reply['out']
    if 'error' in o:
        e = o['error']
        v = {'error': e if e[0] in ('FieldIsMissing', 'BibliographyDataError') else [e[0]]}
    else:
        v = {'entries': o['entries'], 'reports': o['reports'], 'render': [{b: r[b] for b in MODEL_BACKENDS} for r in o['render']]}
    ends = dict(reply['spec']['ends_in_sentence'])
    v['ends'] = sorted([k, bool(ends.get(k))] for k in expected_ends(case))
    sh = reply['spec'].get('shipped')
    if isinstance(sh, dict) and isinstance(sh.get('out'), dict):
        # keep the report readable: where the fully modelled run differs, show its keys / labels / error only
        so = sh['out']
        sh = dict(sh, out={'error': so['error']} if 'error' in so else {'entries': [[x[0], x[1]] for x in so.get('entries', [])]})
    v['shipped'] = sh
    return v


# ------------------------------------------------------------------------------------------------
# oracle

def _strip_braces(s):
    return s.replace('{', '').replace('}', '')


def _text_len(v, raw):
    """number of characters Text.from_latex(v) has (braces are markup); a raw field is the string itself"""
    return len(v) if raw else len(_strip_braces(decode(v)))


class _Missing(Exception):
    pass


def _walk(t, field_value, persons_of):
    """Which field nodes and names nodes contribute to the output of a template for an entry, by presence and emptiness of the
    values only (the documented meaning of the template language: optional[...] vanishes when a field in it is missing, first_of
    takes the first non-empty alternative, join / sentence / words skip empty children).  Returns (fields, roles, non_empty):
    fields = [(name, fn, raw)], roles = [role]; raises _Missing(name) for the first field or role that is required and absent."""
    k = t['t']
    if k == 'lit':
        r = t['r']
        return [], [], (len(r) > 0 if isinstance(r, str) else (True if 'y' in r else _tree_len(r) > 0))
    if k == 'field':
        v = field_value(t['name'])
        if v is None:
            raise _Missing(t['name'])
        return [(t['name'], t['fn'], t['raw'])], [], _text_len(v, t['raw']) > 0
    if k == 'names':
        if not persons_of(t['role']):
            raise _Missing(t['role'])
        return [], [t['role']], True
    if k == 'first_of':
        for c in t['c']:
            got = _walk(c, field_value, persons_of)    # a missing field propagates, as in the evaluator
            if got[2]:
                return got
        return [], [], False
    try:
        fs, rs, ne = [], [], False
        for c in t.get('c', []):
            f, r, n = _walk(c, field_value, persons_of)
            fs += f
            rs += r
            ne = ne or n
        if k == 'href':
            _walk(t['url'], field_value, persons_of)    # the link target: evaluated (may be missing), not printed
        return fs, rs, ne
    except _Missing:
        if k == 'optional':
            return [], [], False
        raise


def _tree_len(r):
    if isinstance(r, str):
        return len(r)
    if 'y' in r:
        return 1
    return sum(_tree_len(p) for p in r.get('p', []))


def _atoms(r, prot=False):
    """flatten a dumped rich text: ('c', char, protected) / ('y', symbol name)"""
    if isinstance(r, str):
        return [('c', ch, prot) for ch in r]
    if 'y' in r:
        return [('y', r['y'])]
    out = []
    for p in r.get('p', []):
        out += _atoms(p, prot or r.get('k') == 'prot')
    return out


def _dash_atoms(decoded):
    """documented dash transformation of a page range: every maximal run of hyphens outside braces is ONE en dash; everything
    else (hyphens inside braces too) is kept"""
    out, depth = [], 0
    for ch in decoded:
        if ch == '{':
            depth += 1
        elif ch == '}':
            depth -= 1
        elif ch == '-' and depth == 0:
            if not out or out[-1] != ('y', 'ndash'):
                out.append(('y', 'ndash'))
        else:
            out.append(('c', ch))
    return out


def _contains(hay, needle):
    n = len(needle)
    return n == 0 or any(hay[i:i + n] == needle for i in range(len(hay) - n + 1))


def _norm(s):
    """up to white space (a tie is a space), runs of hyphens and letter case"""
    return re.sub(r'-+', '-', re.sub(r'[\s\xa0]+', ' ', s)).lower()


def _ws(s):
    """up to white space only (a tie is a space): letter case and hyphens are kept"""
    return re.sub(r'[\s\xa0]+', ' ', s)


# The documented case transformations of the shipped styles ("up to the documented case ... transformations"): a title / booktitle may be
# capitalised (format_title: first letter raised, the rest lower-cased, brace-protected text untouched), the edition is lower-cased
# (format_edition), and the first letter of a sentence may be raised (sentence(capfirst=True): the volume / number / series sentence of
# book and inbook).  Nothing else changes the case of a field: every other field keeps the case of every letter but (possibly) its first.
CASE_CHANGING_FIELDS = {'title': 'capitalize', 'booktitle': 'capitalize', 'edition': 'lower'}


def _cased(decoded, mode):
    """the characters of a decoded field value (braces are markup) after a documented case transformation, by brace depth:
    'none' = as written; 'lower' = text outside braces lower-cased; 'capitalize' = first character raised (outside braces), text outside
    braces lower-cased after it; 'capfirst' = first character raised (outside braces), nothing else"""
    out, depth = [], 0
    for ch in decoded:
        if ch == '{':
            depth += 1
        elif ch == '}':
            depth -= 1
        elif depth > 0 or mode == 'none':
            out.append(ch)
        elif not out and mode in ('capitalize', 'capfirst'):
            out.append(ch.upper())
        elif mode in ('lower', 'capitalize'):
            out.append(ch.lower())
        else:
            out.append(ch)
    return ''.join(out)


def _case_variants(name, decoded, dashify):
    """the spellings under which the text of a printed field may appear: as written or with its first letter raised; a title / booktitle
    also capitalised, an edition also lower-cased (and that with the first letter raised)"""
    modes = ['none', 'capfirst']
    doc = CASE_CHANGING_FIELDS.get(name.lower())
    if doc == 'capitalize':
        modes.append('capitalize')
    if doc == 'lower':
        modes += ['lower', 'capitalize']
    if dashify:
        # the documented dash transformation first: every run of hyphens outside braces is one en dash (a hyphen in the text backend)
        out, depth, run = [], 0, False
        for ch in decoded:
            depth += (ch == '{') - (ch == '}')
            if ch == '-' and depth == 0:
                if not run:
                    out.append('-')
                run = True
            else:
                out.append(ch)
                run = run and ch in '{}'      # braces are markup: a run of hyphens goes on across an empty group (as in _dash_atoms)
        decoded = ''.join(out)
    return [_ws(_cased(decoded, m)) for m in modes]


def _word_text(w):
    """the text of a name word: decoded, braces are markup"""
    return _strip_braces(decode(w))


def _abbr_word(w):
    """a first name abbreviated: split at white space / hyphens outside braces, a purely alphabetic piece becomes initial + '.'"""
    pieces, cur, depth = [], '', 0
    for ch in decode(w):
        if ch == '{':
            depth += 1
        elif ch == '}':
            depth -= 1
        elif depth == 0 and (ch.isspace() or ch == '-'):
            pieces += [cur, ch]
            cur = ''
        else:
            cur += ch
    pieces.append(cur)
    return ''.join((p[0] + '.') if (i % 2 == 0 and p.isalpha()) else p for i, p in enumerate(pieces))


def _person_text(p, cfg):
    """the configured name style: plain = First von Last, Jr; lastfirst = von Last, Jr, First (first names abbreviated on request)"""
    first = [(_abbr_word(w) if cfg['abbr'] else _word_text(w)) for w in p[0] + p[1]]
    von_last = ' '.join(_word_text(w) for w in p[2] + p[3])
    jr = ' '.join(_word_text(w) for w in p[4])
    if cfg['names'] == 'plain':
        s = ' '.join(x for x in (' '.join(first), von_last) if x)
        return s + (', ' + jr if jr else '')
    s = von_last + (', ' + jr if jr else '')
    return s + (', ' + ' '.join(first) if first else '')


def _sort_key(e):
    def person_key(p):
        return '  '.join((' '.join(p[2] + p[3]), ' '.join(p[0] + p[1]), ' '.join(p[4]))).lower()

    def persons_key(ps):
        return '   '.join(person_key(p) for p in ps)
    persons = {r.lower(): ps for r, ps in e['persons']}
    fields = {k.lower(): v for k, v in e['fields']}
    if e['type'] in ('book', 'inbook'):
        ak = persons_key(persons['author']) if persons.get('author') else (persons_key(persons['editor']) if persons.get('editor') else '')
    else:
        ak = persons_key(persons['author']) if 'author' in persons else ''
    return (ak, fields.get('year', ''), fields.get('title', ''))


def oracle(case, io, reply):
    if case['op'] in c07_fn.FN_OPS:
        return c07_fn.oracle(case, io, reply)
    fails = []
    if 'error' in io and io['error'][0] == 'INTERNAL':
        return ['no_internal: %s' % io.get('detail')]
    cfg = configured(case)
    req = to_request(case)
    entries = req['entries']
    by_key = {e['key'].lower(): e for e in entries}
    resolved = req['resolved']
    tmpls = {it['key'].lower(): it['template'] for it in req['items']}
    spec = reply.get('spec') or {}

    def lookups(e):
        def field_value(name, e=e):
            cur, seen = e, set()
            while cur is not None and cur['key'].lower() not in seen:
                seen.add(cur['key'].lower())
                fs = {k.lower(): v for k, v in cur['fields']}
                if name.lower() in fs:
                    return fs[name.lower()]
                if name.lower() in {r.lower() for r, _ in cur['persons']}:
                    return 'x'          # a person role read as a field (never generated): present
                cur = by_key.get(fs['crossref'].lower()) if 'crossref' in fs else None
            return None

        def persons_of(role, e=e):
            for r, ps in e['persons']:
                if r.lower() == role.lower():
                    return ps
            return None
        return field_value, persons_of

    # the PybtexEngine path must give the same bibliography (same keys, labels, texts through the same backend; same error)
    for b, (got, want) in sorted((io.get('engine_diff') or {}).items()):
        if isinstance(got, str) and isinstance(want, str):
            gl, wl = got.split('\n'), want.split('\n')
            i = next((i for i, (x, y) in enumerate(zip(gl, wl)) if x != y), min(len(gl), len(wl)))
            got, want = '... ' + '\n'.join(gl[i:i + 3])[:300], '... ' + '\n'.join(wl[i:i + 3])[:300]
        fails.append('engine_path: PybtexEngine().format_from_string(..., output_backend=%r, %s) writes %r where the style object configured '
                     'the same way gives %r' % (b, ', '.join('%s=%r' % (k, case[k]) for k in ('label_style', 'name_style', 'sorting_style',
                                                                                              'abbreviate_names') if k in case), got, want))
        break
    # which entry (in the order the style formats them) first lacks a required field?
    order = [by_key[k.lower()] for k in resolved]
    if cfg['sorting'] == 'author_year_title':
        order = sorted(order, key=_sort_key)
    first_missing = None
    for e in order:
        t = tmpls.get(e['key'].lower())
        if t is None:
            continue
        try:
            _walk(t, *lookups(e))
        except _Missing as k:
            first_missing = (k.args[0], e['key'])
            break
    if 'error' in io:
        if io['error'][0] == 'BibliographyDataError':
            # an entry type the style does not define: a pybtex error naming type and entry, raised for the first such entry in
            # formatting order and only if no earlier entry lacks a required field
            undefined = [e for e in order if e['key'].lower() not in tmpls]
            first_bad = next((e for e in order if e['key'].lower() not in tmpls or (first_missing and e['key'] == first_missing[1])), None)
            if not undefined:
                fails.append('undefined_type: %r although every entry has a type the style defines' % (io['error'],))
            elif first_bad is not undefined[0]:
                fails.append('undefined_type: %r reported although entry %r, formatted earlier, lacks the required field %r' % (
                    io['error'], first_missing[1], first_missing[0]))
            elif undefined[0]['type'] not in io['error'][1] or undefined[0]['key'] not in io['error'][1]:
                fails.append('undefined_type: the error %r does not name type %r and entry %r' % (io['error'], undefined[0]['type'], undefined[0]['key']))
        if io['error'][0] == 'FieldIsMissing':
            if first_missing is None:
                fails.append('missing_required: reported %r although no required field is missing' % (io['error'],))
            elif [io['error'][1].lower(), io['error'][2].lower()] != [first_missing[0].lower(), first_missing[1].lower()]:
                fails.append('missing_required: reported %r, the first missing required field is %r' % (io['error'], first_missing))
        return fails
    if first_missing is not None:
        fails.append('missing_required: field %r of entry %r is required and missing but no error was reported' % first_missing)
        return fails
    if any(e['key'].lower() not in tmpls for e in order):
        fails.append('undefined_type: entry %r has a type the style does not define but no error was reported' % (
            next(e['key'] for e in order if e['key'].lower() not in tmpls),))
        return fails
    got = io['entries']
    keys = [g[0] for g in got]
    if sorted(k.lower() for k in keys) != sorted(k.lower() for k in resolved):
        fails.append('one_per_citation: formatted %r, resolved citations %r' % (keys, resolved))
        return fails
    if cfg['sorting'] == 'none':
        if [k.lower() for k in keys] != [k.lower() for k in resolved]:
            fails.append('order: sorting style none (configured) emitted %r, citation order is %r' % (keys, resolved))
    else:
        want = [e['key'] for e in order]
        if [k.lower() for k in keys] != [k.lower() for k in want]:
            fails.append('order: author_year_title (configured) emitted %r, stable sort by (author, year, title) gives %r' % (keys, want))
    labels = [g[1] for g in got]
    if cfg['labels'] == 'number':
        if labels != [str(i + 1) for i in range(len(got))]:
            fails.append('labels: number labels (configured) are %r' % labels)
    else:
        # BibTeX alpha labels: the base label of alpha.bst (reference value: the Lean model's format_label) plus at most one suffix letter
        base = dict((k.lower(), v) for k, v in (spec.get('alpha_base') or []))
        for k, l in zip(keys, labels):
            b = base.get(k.lower())
            if b is not None and not (l == b or (len(l) == len(b) + 1 and l.startswith(b) and 'a' <= l[-1] <= 'z')):
                fails.append('labels: alpha label of %r is %r, the BibTeX alpha label is %r (plus a suffix letter when it repeats)' % (k, l, b))
                break
        if len(set(labels)) != len(labels):
            dup = sorted({l for l in labels if labels.count(l) > 1})
            # the recorded finding has a precise shape: a duplicated label L = B + letter next to another label B + other letter
            # (B was disambiguated with suffix letters and one of the results equals a label that occurs on its own)
            collision = all(l[-1:].islower() and any(m != l and m[:-1] == l[:-1] and m[-1:].islower() for m in labels) for l in dup)
            fails.append('labels: alpha labels are not pairwise distinct: %r (duplicates %r)%s' % (
                labels, dup, ' [suffixed label equals another label]' if collision else ''))
    for g, plain in zip(got, io['plain']):
        e = by_key[g[0].lower()]
        t = tmpls.get(e['key'].lower())
        if plain and plain.rstrip()[-1:] not in '.?!':
            fails.append('terminated: entry %r renders as %r' % (g[0], plain[-40:]))
        field_value, persons_of = lookups(e)
        try:
            printed, roles, _ne = _walk(t, field_value, persons_of)
        except _Missing:
            continue
        low = _norm(plain)
        plain_ws = _ws(plain)
        atoms = None
        for f, fn, raw in printed:
            val = field_value(f)
            if raw:
                if val not in plain:
                    fails.append('field_coverage: field %s = %r of entry %r is printed verbatim by the template but missing from %r' % (f, val, g[0], plain))
                continue
            dec = decode(val)
            want = _norm(_strip_braces(dec))
            if want.strip() and want not in low:
                fails.append('field_coverage: field %s = %r (decoded %r) of entry %r is printed by the template but missing from %r' % (f, val, dec, g[0], plain))
            # ... "up to the DOCUMENTED case transformations": the letters of the value keep their case; only the first letter may be
            # raised (start of a capfirst sentence), a title / booktitle may be capitalised and an edition lower-cased
            variants = _case_variants(f, dec, fn == 'dashify')
            if variants[0].strip() and want in low and not any(v in plain_ws for v in variants):
                fails.append('field_case: field %s = %r (decoded %r) of entry %r is printed with another letter case: none of %r occurs in %r '
                             '(documented case transformations: title / booktitle capitalised, edition lower-cased, first letter of a sentence raised)' % (
                                 f, val, dec, g[0], sorted(set(variants)), plain))
            for m in re.finditer(r'\{([^{}]+)\}', dec):
                if m.group(1) not in plain:
                    fails.append('protected_case: %r of the field %s of %r does not keep its case in %r' % (m.group(1), f, g[0], plain))
            if fn == 'dashify':
                if atoms is None:
                    atoms = [(a[0], a[1].lower()) if a[0] == 'c' else a for a in _atoms(g[2])]
                need = [(a[0], a[1].lower()) if a[0] == 'c' else a for a in _dash_atoms(dec)]
                if not _contains(atoms, need):
                    fails.append('dash: field %s = %r of entry %r: every run of hyphens outside braces becomes one en dash (%r), the text is %r' % (
                        f, val, g[0], ''.join('–' if a[0] == 'y' else a[1] for a in need), plain))
        for role in roles:
            for p in persons_of(role) or []:
                for w in p[2] + p[3] + p[4]:
                    if _norm(_word_text(w)) not in low:
                        fails.append('name_coverage: the %s %r of entry %r has the von / last / lineage word %r, which is missing from %r' % (role, p, g[0], w, plain))
                for w in p[0] + p[1]:
                    shown = _abbr_word(w) if cfg['abbr'] else _word_text(w)
                    if _norm(shown) not in low:
                        fails.append('name_coverage: the %s %r of entry %r has the first name %r, to be shown as %r (abbreviate_names=%r), which is missing from %r' % (
                            role, p, g[0], w, shown, cfg['abbr'], plain))
                want = _norm(_person_text(p, cfg))
                if want not in low:
                    fails.append('name_style: the %s %r of entry %r reads %r in the configured name style %s (abbreviate_names=%r), which is missing from %r' % (
                        role, p, g[0], _person_text(p, cfg), cfg['names'], cfg['abbr'], plain))
    return fails


def c01_norm(s):
    return re.sub(r'\s+', ' ', s.strip())


KNOWN_MATCHERS = {
    'C07-alpha-suffix-collision': lambda case, io, f: f.startswith('labels: alpha labels are not pairwise distinct') and f.endswith('[suffixed label equals another label]'),
    'C07-blank-field-in-unterminated': lambda case, io, f: f.startswith('terminated: entry ') and f.rstrip("'").endswith(' In') and _blank_after_in(case, f),
}


def _blank_after_in(case, f):
    """exactly the recorded class: the entry's template has a words['In', ...] node, everything the template prints after the word 'In'
    is empty, and at least one field read there is present with a blank value (an absent field would have been reported or skipped)"""
    m = re.match(r"terminated: entry '([^']*)'", f)
    if not m:
        return False
    req = to_request(case)
    by_key = {e['key'].lower(): e for e in req['entries']}
    e = by_key.get(m.group(1).lower())
    t = next((it['template'] for it in req['items'] if it['key'].lower() == m.group(1).lower()), None)
    if e is None or t is None or t['t'] != 'join':
        return False

    def field_value(name):
        cur, seen = e, set()
        while cur is not None and cur['key'].lower() not in seen:
            seen.add(cur['key'].lower())
            fs = {k.lower(): v for k, v in cur['fields']}
            if name.lower() in fs:
                return fs[name.lower()]
            cur = by_key.get(fs['crossref'].lower()) if 'crossref' in fs else None
        return None

    def persons_of(role):
        return next((ps for r, ps in e['persons'] if r.lower() == role.lower()), None)

    def fields_in(x):
        out = [x['name']] if x['t'] == 'field' else []
        for c in x.get('c', []):
            out += fields_in(c)
        return out
    kids = t['c']
    idx = next((i for i, c in enumerate(kids) if c['t'] == 'join' and c['c'] and c['c'][0] == {'t': 'lit', 'r': 'In'}), None)
    if idx is None:
        return False
    tail = kids[idx]['c'][1:] + kids[idx + 1:]
    try:
        if any(_walk(c, field_value, persons_of)[2] for c in tail):
            return False
    except _Missing:
        return False
    return any(field_value(n) is not None and _text_len(field_value(n), False) == 0 for c in tail for n in fields_in(c))


def buckets(case, io):
    if case['op'] in c07_fn.FN_OPS:
        return c07_fn.buckets(case, io)
    cfg = configured(case)
    b = [case['style'], 'sort:%s' % cfg['sorting'], 'label:%s' % cfg['labels'], 'names:%s%s' % (cfg['names'], '+abbr' if cfg['abbr'] else '')]
    if 'error' in io:
        b.append('error:' + io['error'][0])
    if any(ord(c) > 127 for e in case['entries'] for _k, v in e['fields'] for c in v):
        b.append('non-ascii')
    if any('\\' in v or '--' in v or '~' in v for e in case['entries'] for _k, v in e['fields']):
        b.append('tex')
    return b


def nontrivial(case, io):
    if case['op'] in c07_fn.FN_OPS:
        return 'error' not in io.get('fn', {'error': 1})
    return len(io.get('entries') or []) >= 2


_ROLES = ('author', 'editor')


def _balanced(v):
    d = 0
    for ch in v:
        d += (ch == '{') - (ch == '}')
        if d < 0:
            return False
    return d == 0


def valid_case(case):
    """shape of a case (used by the shrinker): known style / configuration names, distinct non-empty keys, known field names,
    brace-balanced values without the characters that end a BibTeX value, person fields that still hold a name"""
    try:
        if case.get('op') in c07_fn.FN_OPS:
            return c07_fn.valid_case(case)
        if case.get('op') != 'pystyle' or case['style'] not in STYLES or not isinstance(case['min_crossrefs'], int) or case['min_crossrefs'] < 1:
            return False
        if case.get('label_style', 'number') not in ('number', 'alpha') or case.get('sorting_style', 'none') not in ('none', 'author_year_title'):
            return False
        if case.get('name_style', 'plain') not in ('plain', 'lastfirst') or not isinstance(case.get('abbreviate_names', False), bool):
            return False
        if 'expect_ends' in case:
            return False
        keys = [e['key'].lower() for e in case['entries']]
        if len(set(keys)) != len(keys) or not all(re.fullmatch(r'[A-Za-z0-9]+', k) for k in keys):
            return False
        if case['citations'] is not None and not all(isinstance(c, str) and re.fullmatch(r'[A-Za-z0-9*]+', c) for c in case['citations']):
            return False
        for e in case['entries']:
            if e['type'] not in TYPES and e['type'] not in UNKNOWN_TYPES:
                return False
            names = [f[0].lower() for f in e['fields']]
            if len(set(names)) != len(names):
                return False
            for n, v in e['fields']:
                if n not in FIELDS and n not in _ROLES and n != 'crossref':
                    return False
                if not _balanced(v) or '@' in v or '"' in v or v != v.strip() or '  ' in v or '\\{' in v or '\\}' in v or v.endswith('\\'):
                    return False
                if n in _ROLES:
                    parts = re.split(r' and ', v)
                    if not all(p.strip() and not re.fullmatch(r'[\s,~{}\-]*', p) and p.count(',') <= 2 and not p.strip().startswith(',') for p in parts):
                        return False
                    if re.search(r'\band$|^and\b', v.strip()):
                        return False
                if n == 'crossref' and v.lower() not in keys:
                    return False
        return True
    except Exception:
        return False


def corpus():
    out = list(corpus_for(ID))
    # the recorded finding: suffixed alpha label equal to another base label
    out.append({'op': 'pystyle', 'style': 'alpha', 'min_crossrefs': 2, 'citations': ['*'],
                'entries': [{'type': 'misc', 'key': 'k1', 'fields': [['key', 'ab'], ['title', 'T one']]},
                            {'type': 'misc', 'key': 'k2', 'fields': [['key', 'ab'], ['title', 'T two']]},
                            {'type': 'misc', 'key': 'k3', 'fields': [['key', 'aba'], ['title', 'T three']]}]})
    return out


def gen_entry(rng, key, keys, blanks=False):
    t = rng.choice(TYPES)
    fields = []
    rich = rng.random() < 0.75
    for f in FIELDS:
        p = (0.9 if f in ('title', 'year') else 0.35) if not rich else (0.97 if f in ('title', 'year', 'journal', 'publisher', 'booktitle',
             'school', 'institution', 'note', 'howpublished', 'url', 'organization') else 0.6)
        if rng.random() < p:
            fields.append([f, rng.choice(VALUES.get(f, GENERIC)) if not blanks or rng.random() < 0.6 else rng.choice(['', '', ' ', '{}'])])
    for role in ('author', 'editor'):
        if rng.random() < ((0.7 if role == 'author' else 0.35) if not rich else 0.93):
            n = rng.choice([1, 1, 2, 3, 5])
            fields.append([role, ' and '.join(rng.choice(PERSONS) for _ in range(n))])
    if keys and rng.random() < 0.2:
        fields.append(['crossref', rng.choice(keys)])
    rng.shuffle(fields)
    return {'type': t, 'key': key, 'fields': fields}


def _configure(rng, case, p=0.4):
    if rng.random() < p:
        case['label_style'] = rng.choice(['number', 'alpha'])
    if rng.random() < p:
        case['sorting_style'] = rng.choice(['none', 'author_year_title'])
    if rng.random() < p:
        case['name_style'] = rng.choice(['plain', 'lastfirst'])
    if rng.random() < p:
        case['abbreviate_names'] = True
    return case


def gen_case(rng):
    n = rng.randint(1, 6)
    keys = ['k%d' % i for i in range(n)]
    entries = []
    blanks = rng.random() < 0.15      # databases with fields that are present but empty
    for i, k in enumerate(keys):
        entries.append(gen_entry(rng, k, keys[i + 1:], blanks))     # parents after children
    r = rng.random()
    if r < 0.25:
        cites = ['*']
    else:
        cites = rng.sample(keys, rng.randint(1, n))
        if rng.random() < 0.1:
            cites.append('nosuch')
    if rng.random() < 0.06:
        cites = None          # format_bibliography(db) without a citation list
    if rng.random() < 0.05:
        rng.choice(entries)['type'] = rng.choice(UNKNOWN_TYPES)       # an entry type the styles do not define
    case = {'op': 'pystyle', 'entries': entries, 'citations': cites, 'min_crossrefs': rng.choice([1, 2, 2]), 'style': rng.choice(STYLES)}
    return _configure(rng, case)


def gen_ties(rng):
    """Databases whose entries tie on the (author, year, title) sorting key, cited in an order unrelated to the order of their keys."""
    n = rng.randint(2, 6)
    keys = rng.sample(['zeta', 'mid', 'alpha', 'Beta', 'k1', 'K0', 'omega', 'a'], n)
    authors = rng.sample(['John Smith', 'Ann Lee', 'john smith', 'Jim Smirnov', 'Ann Smiley', 'Éric Smith', 'éric smith', 'Ann Ångström'], rng.randint(1, 3))
    entries = []
    for k in keys:
        fs = [['title', rng.choice(['Same title', 'Same title', 'Other'])], ['year', rng.choice(['2001', '2001', '1999'])]]
        r = rng.random()
        if r < 0.75:
            fs.append(['author', rng.choice(authors)])
        elif r < 0.85:
            fs.append(['editor', rng.choice(authors)])
        entries.append({'type': rng.choice(['misc', 'misc', 'book', 'unpublished']), 'key': k, 'fields': fs + [['publisher', 'P'], ['note', 'N']]})
    cites = keys[:]
    rng.shuffle(cites)
    case = {'op': 'pystyle', 'entries': entries, 'citations': cites if rng.random() < 0.8 else ['*'], 'min_crossrefs': 2,
            'style': rng.choice(['plain', 'alpha', 'unsrt', 'unsrtalpha'])}
    if rng.random() < 0.6:
        case['sorting_style'] = 'author_year_title'
    if rng.random() < 0.5:
        case['label_style'] = rng.choice(['number', 'alpha'])
    return case


def gen_names(rng):
    """Entries that differ in their persons only: every name form (von, lineage, hyphens, protected words, TeX accents, letters outside
    ASCII, 'others'), one to six persons per role, all name styles with and without abbreviation; alpha labels and sorting depend on them."""
    n = rng.randint(1, 4)
    entries = []
    for i in range(n):
        fs = [['title', 'T%d' % i], ['year', rng.choice(['1999', '2001'])], ['publisher', 'P']]
        for role in ('author', 'editor'):
            if rng.random() < (0.9 if role == 'author' else 0.5):
                k = rng.choice([1, 1, 2, 3, 4, 5, 6])
                ps = [rng.choice(PERSONS) for _ in range(k)]
                if k > 1 and rng.random() < 0.2:
                    ps[-1] = 'others'
                fs.append([role, ' and '.join(ps)])
        entries.append({'type': rng.choice(['book', 'misc', 'article', 'proceedings', 'manual', 'inbook']), 'key': 'n%d' % i,
                        'fields': fs + [['journal', 'J'], ['chapter', '2'], ['organization', 'The Örg']]})
    case = {'op': 'pystyle', 'entries': entries, 'citations': ['*'], 'min_crossrefs': 2, 'style': rng.choice(STYLES)}
    return _configure(rng, case, 0.6)


# volume / number / series with unprotected upper-case letters that are not the first character (roman numerals, acronyms, title-case
# series): the sentence "Volume IV of Lecture Notes in Computer Science." of book / inbook (sentence(capfirst=True): only the first letter
# may change) and the "volume IV of ..." fragment of incollection / inproceedings / proceedings
SERIES_TYPES = ['book', 'inbook', 'incollection', 'inproceedings', 'proceedings']
SERIES_VALUES = {
    'volume': ['IV', 'XII', 'B2', '3', 'iV'],
    'number': ['VII', '7B', '7', 'No. X', 'xI'],
    'series': ['Lecture Notes in NASA Computer Science', 'Lecture Notes in {NASA} Computer Science', 'The Art of Computer Programming',
               'monographs in Discrete Mathematics', 'LNCS', '{LNCS} Tutorials', 'lower case series', 'a {B} C', 'IEEE-Press Series on RF'],
}
SERIES_PATTERNS = [('volume', 'series'), ('number', 'series'), ('series',), ('volume',), ('number',), ('volume', 'number', 'series')]


def _series_entry(t, key, present, i, extra=()):
    fs = [['author', 'Donald E. Knuth'], ['editor', 'Ed Itor'], ['title', 'Graph Algorithms'], ['booktitle', 'Collected Things'],
          ['publisher', 'Springer'], ['year', '1999'], ['chapter', '5'], ['pages', '1--10']]
    fs = [f for f in fs if f[0] not in extra]
    for j, f in enumerate(present):
        pool = SERIES_VALUES[f]
        fs.append([f, pool[(i + j) % len(pool)]])
    return {'type': t, 'key': key, 'fields': fs}


def series_cases():
    """Deterministic family: every type that prints volume / number / series x every pattern of presence x every value of the pools
    (one-entry databases, the four styles in turn) + one database per style holding all five types."""
    out = []
    n = max(len(v) for v in SERIES_VALUES.values())
    for ti, t in enumerate(SERIES_TYPES):
        for pi, present in enumerate(SERIES_PATTERNS):
            for i in range(n):
                out.append({'op': 'pystyle', 'entries': [_series_entry(t, 's%d' % i, present, i)], 'citations': ['*'], 'min_crossrefs': 2,
                            'style': STYLES[(ti + pi + i) % 4]})
    for si, st in enumerate(STYLES):
        for pi, present in enumerate(SERIES_PATTERNS):
            entries = [_series_entry(t, 'e%d' % k, present, si + pi + k) for k, t in enumerate(SERIES_TYPES)]
            out.append({'op': 'pystyle', 'entries': entries, 'citations': ['e%d' % k for k in (3, 0, 4, 1, 2)], 'min_crossrefs': 2, 'style': st})
    return out


def gen_series(rng):
    """Random family: one to four entries of the types that print volume / number / series, random pattern of presence, values from the
    pools or composed of random words with upper-case letters inside, some inherited from a cross-referenced parent; any configuration."""
    words = ['Notes', 'in', 'NASA', 'of', 'Computer', 'Science', 'the', 'ACM', '{IEEE}', 'Series', 'on', 'McGraw', 'TeX', '{B}ooks', 'vol', 'IIb']
    n = rng.randint(1, 4)
    entries = []
    for k in range(n):
        present = [f for f in ('volume', 'number', 'series') if rng.random() < 0.7]
        e = _series_entry(rng.choice(SERIES_TYPES), 'r%d' % k, (), 0, extra=('editor',) if rng.random() < 0.3 else ())
        for f in present:
            v = rng.choice(SERIES_VALUES[f]) if rng.random() < 0.5 else ' '.join(rng.choice(words) for _ in range(rng.randint(1, 5) if f == 'series' else 1))
            e['fields'].append([f, v])
        entries.append(e)
    if n > 1 and rng.random() < 0.3:
        # the last entry is the parent of the first: series / volume it does not have itself are inherited
        entries[0]['fields'] = [f for f in entries[0]['fields'] if f[0] not in ('series', 'volume') or rng.random() < 0.5] + [['crossref', entries[-1]['key']]]
    rng.shuffle(entries[0]['fields'])
    case = {'op': 'pystyle', 'entries': entries, 'citations': ['*'] if rng.random() < 0.5 else [e['key'] for e in entries][:rng.randint(1, n)],
            'min_crossrefs': rng.choice([1, 2]), 'style': rng.choice(STYLES)}
    return _configure(rng, case)


def config_matrix():
    """One database (ties, a lineage part, a von part, first names to abbreviate, letters outside ASCII; the citation order is not the
    sorted order) under EVERY combination style x label_style x sorting_style x name_style x abbreviate_names (absent = the default)."""
    entries = [
        {'type': 'article', 'key': 'zz', 'fields': [['author', 'Ludwig van Beethoven, Jr and Éric Ångström'], ['title', 'Second'], ['journal', 'J'], ['year', '2001']]},
        {'type': 'book', 'key': 'mm', 'fields': [['editor', 'Smith, Jr., John Quincy'], ['title', 'First'], ['publisher', 'P'], ['year', '1999']]},
        {'type': 'misc', 'key': 'aa', 'fields': [['author', 'Ann-Marie Zeta and others'], ['title', 'Third'], ['year', '1999']]},
        {'type': 'misc', 'key': 'bb', 'fields': [['author', 'Ann-Marie Zeta and others'], ['title', 'Third'], ['year', '1999']]},
    ]
    out = []
    for st in STYLES:
        for lab in (None, 'number', 'alpha'):
            for srt in (None, 'none', 'author_year_title'):
                for nm in (None, 'plain', 'lastfirst'):
                    for ab in (None, True, False):
                        case = {'op': 'pystyle', 'entries': entries, 'citations': ['zz', 'bb', 'mm', 'aa'], 'min_crossrefs': 2, 'style': st}
                        for k, v in (('label_style', lab), ('sorting_style', srt), ('name_style', nm), ('abbreviate_names', ab)):
                            if v is not None:
                                case[k] = v
                        out.append(case)
        # degenerate citation lists: nothing cited (nothing is formatted), only unknown keys, a key cited twice, a wild card next to explicit keys
        for cites in ([], ['nosuch'], ['nosuch', 'nosuch2'], ['aa', 'aa'], ['mm', 'zz', 'mm'], ['*', 'aa'], ['bb', '*'], None):
            out.append({'op': 'pystyle', 'entries': entries, 'citations': cites, 'min_crossrefs': 2, 'style': st})
        # an undefined entry type: first / last in formatting order, behind an entry that lacks a required field, uncited
        odd = {'type': UNKNOWN_TYPES[0], 'key': 'odd', 'fields': [['author', 'Zed Zulu'], ['title', 'Zz'], ['year', '2020']]}
        bad = {'type': 'article', 'key': 'nojournal', 'fields': [['author', 'Abe Abel'], ['title', 'Aa'], ['year', '1990']]}
        for es, cites in ((entries + [odd], ['odd', 'zz']), (entries + [odd], ['zz', 'odd']), (entries + [odd], ['zz', 'aa']), (entries + [odd], None),
                          ([bad, odd], ['nojournal', 'odd']), ([bad, odd], ['odd', 'nojournal']), ([odd], ['*'])):
            out.append({'op': 'pystyle', 'entries': es, 'citations': cites, 'min_crossrefs': 2, 'style': st})
    return out


def gen_cases(tier, rng, info):
    cases = []
    for _ in range(150 if tier == 'quick' else 2000):
        cases.append(gen_ties(rng))
    cases += config_matrix()
    # volume / number / series with upper-case letters inside (the capfirst sentence of book / inbook)
    cases += series_cases()
    # every type with all fields and with the minimal required fields, every style
    for t in TYPES:
        full = [[f, VALUES.get(f, GENERIC)[0]] for f in FIELDS] + [['author', 'Donald E. Knuth and Leslie Lamport'], ['editor', 'Ed Itor']]
        for st in STYLES:
            cases.append({'op': 'pystyle', 'entries': [{'type': t, 'key': 'full', 'fields': full}], 'citations': ['full'], 'min_crossrefs': 2, 'style': st})
        cases.append({'op': 'pystyle', 'entries': [{'type': t, 'key': 'empty', 'fields': []}], 'citations': ['empty'], 'min_crossrefs': 2, 'style': 'unsrt'})
        # every value of the pools once (TeX, dashes, letters outside ASCII) in an entry of this type with all fields
        for i in range(max(len(v) for v in list(VALUES.values()) + [GENERIC])):
            fs = [[f, VALUES.get(f, GENERIC)[i % len(VALUES.get(f, GENERIC))]] for f in FIELDS]
            fs += [['author', PERSONS[(2 * i) % len(PERSONS)] + ' and ' + PERSONS[(2 * i + 1) % len(PERSONS)]], ['editor', PERSONS[(i + 7) % len(PERSONS)]]]
            case = {'op': 'pystyle', 'entries': [{'type': t, 'key': 'v%d' % i, 'fields': fs}], 'citations': ['*'], 'min_crossrefs': 2, 'style': STYLES[i % 4]}
            if i % 3 == 1:
                case['name_style'] = 'lastfirst'
            if i % 2 == 1:
                case['abbreviate_names'] = True
            cases.append(case)
        # every field present but blank; the same with a title / with title and names
        for keep in ((), ('title',), ('title', 'author', 'editor')):
            fs = [[f, VALUES.get(f, GENERIC)[0] if f in keep else ''] for f in FIELDS]
            if 'author' in keep:
                fs += [['author', 'Donald E. Knuth'], ['editor', 'Ed Itor']]
            cases.append({'op': 'pystyle', 'entries': [{'type': t, 'key': 'blank', 'fields': fs}], 'citations': ['blank'], 'min_crossrefs': 2, 'style': 'unsrt'})
    import itertools
    core = ['booktitle', 'publisher', 'year', 'journal', 'school'] + ([] if tier == 'quick' else ['institution', 'howpublished', 'organization', 'note'])
    for t in TYPES:
        for mask in itertools.product([False, True], repeat=len(core)):
            # title and names are real, a subset of the core fields is present but blank, everything else is absent
            fs = [['title', 'T'], ['author', 'A B']] + [[f, ''] for f, m in zip(core, mask) if m]
            cases.append({'op': 'pystyle', 'entries': [{'type': t, 'key': 'blank', 'fields': fs}], 'citations': ['blank'], 'min_crossrefs': 2, 'style': 'unsrt'})
    info['exhaustive'] = False
    info['scope'] = ('%d systematic cases (every configuration combination on one database; 17 types x full / empty / blank-field entries x styles; '
                     'every value of the pools in every type; volume / number / series with upper-case letters inside x 5 types x 6 patterns of presence) '
                     '+ seeded random databases' % len(cases))
    for _ in range(600 if tier == 'quick' else 3000):
        cases.append(gen_names(rng))
    for _ in range(1000 if tier == 'quick' else 12000):
        cases.append(gen_case(rng))
    for _ in range(60 if tier == 'quick' else 1500):
        cases.append(gen_series(rng))
    _PENDING[:] = cases
    # function by function (one driver op each, see props/c07_fn.py)
    fn = c07_fn.gen_cases(tier, rng)
    info['scope'] += '; %d function-level cases (styletemplate, namestyle, sortkey, pylabels, richfn, tmpleval)' % len(fn)
    return cases + fn


LEVEL_TEXT = ('Machine-checked proofs (Lean 4) over an executable model of the Python formatting engine: the template evaluator '
              '(join/words/toplevel, together, sentence, field, names, optional, first_of, tag, href, name_part over the rich-text model of C08), '
              'Text.from_latex (the codec result is data), BaseText.abbreviate, the sorting styles none / author_year_title (str.lower of the '
              'interpreter), the label styles number / alpha (NFD accent stripping and str.isalpha from regenerated tables) and '
              'BaseStyle.format_bibliography = resolve (C05) -> drop missing -> sort -> label -> template.  Proved for ALL databases, citation '
              'lists, templates and name templates: RELATIVE TO THE C05 RESOLUTION (the resolved citations are the model\'s own C05 prefix of '
              'format_bibliography, characterised by the C05 theorems) sort, label and template neither drop nor duplicate an entry, sorting style '
              'none keeps citation order, author_year_title is a stable sorted permutation by the model\'s key triple (a strict total order; the '
              'triple itself has no independent spec), number labels 1..n distinct, alpha labels distinct under an explicit decidable proviso, '
              'FieldIsMissing characterised exactly at evaluator level (for some fuel) and in both directions at pipeline level (the converse '
              'under an explicit fuel hypothesis), terminating punctuation for templates satisfying the syntactic condition endsInSentence, '
              'protected text untouched per operation AND for whole entries (the protected characters of every printed field value survive, same '
              'case, still protected, in the entry), every printed field value and every name word (or its abbreviation: first letter + period, '
              'characterised) occurs in str(text) of the output (up to case under capfirst / capitalize).  '
              'The model is tied to the code by a correspondence check over all 17 entry types x 4 styles x every label / sorting / name style / '
              'abbreviation combination in which the templates of the live style objects are serialised and evaluated by the Lean evaluator and '
              'the result is compared as rich text and as rendered by each of the four backends; the configuration the oracle and the model use '
              'is read from the case, and every case also goes through PybtexEngine().format_from_string.  Round 2: the seventeen templates of '
              'unsrt.py, the name styles plain / lastfirst, the plug-in choice of BaseStyle.__init__ (class attributes regenerated from /repo), '
              'format_bibliography(citations=None) and the BibliographyDataError for an undefined entry type are INSIDE the model '
              '(Model/UnsrtStyle.lean, Model/NameStyle.lean): the model templates are compared tree by tree with the live ones on every entry of '
              'every case, the fully modelled run with the evaluator run, and each function of the engine has its own driver op '
              '(styletemplate, namestyle, sortkey, pylabels, richfn, tmpleval).  Proved about the shipped styles: every word of every person '
              'is under a name_part and shown (or its initials), the thirteen + two entry-type templates end in a sentence for EVERY entry, the '
              'required lookups per entry type, the configuration table of the four styles.')
LEVEL_NOTE = ('Trusted: Lean kernel; axioms propext/Classical.choice/Quot.sound only; the hand-written model corresponds to the Python code only as '
              'far as the differential check explores; the general theorems quantify over all templates, the C07_shipped_* / C07_name_style_* '
              'theorems are about the hand-written Lean copies of the shipped templates and name styles, which are tied to unsrt.py / plain.py / '
              'lastfirst.py by tree comparison with the serialised live templates on every generated entry (not by generation).  That the shipped '
              'templates satisfy endsInSentence is now a theorem about the model templates (C07_shipped_terminated: 13 entry types always, '
              'book / inbook when the entry has an editor) and still monitored on every serialised live template; incollection / inproceedings end in '
              'words["In", sentence[...]] and never do: finding C07-blank-field-in-unterminated; that the shipped name styles print every part of '
              'a person is C07_name_style_parts / C07_person_words_shown for the model name styles and the oracle clauses name_coverage / '
              'name_style on every case.  Model correction in round 2: an href node evaluates its URL before its children (the model had the '
              'opposite order; only the field reported when both are missing differs; found by the node-level op tmpleval).  latexcodec decode is data computed by the real '
              'codec; case mapping inside rich text is the ASCII one of the C08 model (see ASSUMPTIONS for the generated region).  The model follows '
              'the code with proposed fixes C05-1 / C14-1 / C14-2 / C08-1..5 applied.  Alpha labels are NOT always distinct: '
              'C07_alpha_labels_partial + C07_alpha_labels_neg, known finding C07-alpha-suffix-collision (a unique base label equal to a repeated '
              'one plus its suffix letter); the alpha base labels (format_label) are modelled and compared, the oracle takes them as the reference '
              'for "BibTeX alpha labels"; theorems about them: C07_alpha_base_label, C07_unicode_keys (shape, not agreement with alpha.bst).  The order / completeness theorems are relative to resolvedKeys / resolvedEntries, which are verbatim the '
              'first three lets of the model\'s formatBibliography (C05\'s addExtraCitations, drop missing): they establish what sort, label and '
              'template do to that list, not an independent notion of "resolved citation"; "by author/editor, year, title" is the model\'s '
              'sortingKey (transliterated from sorting_key; C07_unicode_keys gives idempotence and case-insensitivity of the person key only).  '
              'C07_missing_required_conv needs "evalFuel suffices" as a hypothesis.  C07_protected_case_pipeline says the protected characters '
              'of a printed field value form a contiguous run of the entry\'s protected characters, not where that run stands in the text.  '
              'Field coverage is stated on str(text) for the field nodes '
              'on the successful path (printed / printedN use the model\'s own eval / evalList to choose optional / first_of branches; abbreviated '
              'name_part children are covered by C07_name_coverage only); the URL of an href (link target, not text) is excluded; a names node is required of the entry '
              'itself (no crossref inheritance) by design of the code.  Not proved: that evalFuel = 1000 suffices for every template '
              '(C07_fuel_irrelevant shows fuel never changes a result; the model reports out-of-fuel as its own error, never observed); the '
              'backends (C09; here compared per entry through Model/Backends.lean); PybtexEngine.format_from_files (second implementation path, '
              'oracle clause engine_path); format_bibliography(citations=None) is not exercised.')
