"""C04 -- personal names are split into first / von / last / jr parts as BibTeX does."""
import itertools

import compat  # noqa: F401
from props.base import to_request, corpus_for  # noqa: F401

ID = 'C04'
LEAN_MODULES = ['PybtexModel.Props.C04']
THEOREMS = {
    'C04_char_classes': 'the character classes of model and rule are the interpreter\'s str.isalpha/isupper/islower tables (regenerated); kernel-checked facts the rule relies on: upper and lower case are disjoint, below U+0080 the classes are the ASCII ones, white space / braces / backslash / comma / tie / hyphen / digits are in no class, a first character that is a letter or cased is an ordinary brace-level-0 character, and the first-character clause of the rule matters only for a cased first character that is not a letter',
    'C04_matches_spec': 'the model of Person._parse_string equals the BibTeX rule (Spec.split) for EVERY non-empty string whose case-deciding tokens scan within the nesting limit or start with an upper-case character',
    'C04_matches_spec_of_scan': 'the same under the plain hypothesis that every case-deciding token scans within the nesting limit',
    'C04_matches_rule_any': 'for every string, a successful parse is the rule\'s split with "is_von_name answers yes" as the lower-case test (no hypothesis)',
    'C04_matches_spec_neg': 'witness a{101 nested braces} B: the scan hypothesis cannot be dropped for tokens starting with a lower-case letter (is_von_name answers from the first character, the rule gives an over-nested token no case)',
    'C04_case_of_token': "each token's case is decided by its first brace-level-0 letter or special character (a cased first character decides at once; a letter without case makes the token caseless): is_von_name = Spec.isLow on every non-empty token with a decidable case",
    'C04_total': 'parsing succeeds for every non-empty string, reporting too many commas exactly when there are more than three comma parts; the only exception is "too many nested braces" from a case-deciding token that does not scan; never IndexError / ValueError',
    'C04_total_person': 'Person(string, first, middle, prelast, last, lineage) for ANY six strings returns a person or raises "too many nested braces" caused by a token of the stripped string',
    'C04_tokens_nonempty': 'tokens of the tokeniser are never empty and a non-empty string has at least one comma part (why string[0] and the ValueError branch are unreachable)',
    'C04_tokens_preserved': 'no token is lost, duplicated or reordered: first++middle++prelast++last = tokens(s) without commas; prelast++last / lineage / first++middle = tokens of the first / second / last comma part (extra parts joined by blanks); first_names is the first token of First',
    'C04_von_longest': 'the von part is the longest run ending in a lower-case token that still leaves a last name: boundary = Spec.vonLast, no lower-case token left in last[:-1], von ends lower-case, last non-empty, a lower-case token before the final one forces von',
    'C04_case_rule': 'First von Last form: no token of First is lower-case, von (when present) starts with the first lower-case token, a lower-case token before the final token forces a von part',
    'C04_parts_same_tokenisation': 'explicit part arguments are tokenised by the same tokeniser and appended to the parts parsed from the string',
    'C04_braces_atomic': 'every returned token is a non-empty token of the tokeniser applied to the name, one of its first two comma parts or the blank-joined rest (brace atomicity reduces to C12\'s tokeniser theorems)',
}
RULE = ('all token shapes up to the tier token count over the ASCII token classes {Capitalised, lowercase, braced, special-char upper, '
        'special-char lower, caseless, hyphenated, tie-joined} and the non-ASCII classes {cased letters (\u00c9douard, \u0432\u0430\u043d), letters '
        'without case (CJK; okina + small letters; titlecase \u01c5), cased non-letters first (\u24b6b, \u24d0B) and inside (1\u24d0X), combining '
        'mark first, special characters with non-ASCII letters} x 0..3 commas at every position x separators {space, ~, two spaces, \\ }; '
        'every string up to the tier length over {a B { } \\ , ~ space - 1 \u6bdb \u24d0 \u00e9} (totality); seeded noisy long names with Latin-1, '
        'Cyrillic, Greek, CJK, Hebrew, Hangul, circled and astral letters; tokens starting with code points at and next to the '
        'boundaries of the interpreter\'s isalpha/isupper/islower ranges and with random code points; the table of '
        'tests/parse_name_test.py as corpus; non-trivial = more than one token or a comma; distinct by case JSON')
TRUSTED = ['character classes: str.isalpha / str.isupper / str.islower of the running interpreter on single code points, regenerated as '
           'range tables (harness/tablegen/unicode.py -> Gen/Unicode.lean) on every run',
           'tokenisation is the C12 model of split_tex_string']
ASSUMPTIONS = []

TOKENS = {'Cap': 'Smith', 'low': 'von', 'braced': '{Mc B}', 'spU': "{\\'E}cole", 'spL': "{\\'e}cole", 'caseless': '1{2}',
          'hyph': 'Jean-Paul', 'lowbr': '{\\v s}x', 'sp0': '{\\ae}b'}
# token classes with non-ASCII characters.  "letter" (isalpha) and "cased" (isupper/islower) are independent in Unicode.
UTOKENS = {'uCap': '\u00c9douard',            # cased letters outside ASCII
           'uLow': '\u0432\u0430\u043d',            # Cyrillic "van"
           'cjk': '\u6bdb\u6cfd',                # letters without case
           'okinaLow': '\u02bbakahi',          # a letter without case (modifier letter) first, small letters after it
           'title': '\u01c5x',                 # titlecase letter: a letter, neither upper nor lower
           'circU': '\u24b6b',                 # upper-case but not a letter, first
           'circL': '\u24d0B',                 # lower-case but not a letter, first
           'circIn': '1\u24d0X',               # ... not first: skipped by the scan
           'comb': '\u0301x',                  # combining mark (no class) first
           'spUU': "{\\'\u00c9}x",              # special characters with non-ASCII letters
           'spUL': '{\\relax \u0436}X'}
CLASSES = list(TOKENS)
UCLASSES = list(UTOKENS)
ALLTOKENS = dict(TOKENS, **UTOKENS)
# reduced class set for the longest shapes of the thorough tier
CLASSES4 = ['Cap', 'low', 'caseless', 'spL', 'uCap', 'uLow', 'cjk', 'okinaLow', 'circL', 'title']
SEPS = [' ', '~', '  ', '\\ ']
ALPHA = ['a', 'B', '{', '}', '\\', ',', '~', ' ', '-', '1', '\u6bdb', '\u24d0', '\u00e9']
UNICODE_NAMES = ['\u6bdb \u6cfd\u4e1c', '\u05d3\u05d5\u05d3 \u05d1\u05df \u05d2\u05d5\u05e8\u05d9\u05d5\u05df', '\u00c9douard van Beneden',
                 '\u02bbAkahi Kealoha, Leilani', '\u5c71\u7530 van \u592a\u90ce Smith', '\uae40 Van Halen, Jr, Eddie', '(\u6bdb \u6cfd\u4e1c',
                 '\u24b6b \u24d0b 1\u24d0X Z', '\u0416\u0430\u043d \u0432\u0430\u043d \u03c9mega \u01c5x \u03a9mega', 'e\u0301cole \u0301x Last',
                 '\U0001d400 \U0001d41a \U00020000 \U00010400 \U00010428 Z', '\u00aa \u00df \u0131 \u0345x \u2160 \u2170 Z']
UPOOL = ['\u00c9douard', '\u00e9lan', '\u0416\u0430\u043d', '\u0432\u0430\u043d', '\u03a9mega', '\u03c9mega', '\u6bdb', '\u6cfd\u4e1c', '\u05d1\u05df',
         '\u05d3\u05d5\u05d3', '\uae40', '\uae40x', '\u02bbAkahi', '\u02bbokina', '\u24b6b', '\u24d0B', '\u24d0', '\u01c5x', '\u0301x', 'e\u0301',
         "{\\'\u00c9}", "{\\'\u00e9}", '{\\relax \u0436}', '{\\relax \u6bdb}x', '{\\\u00e9 \u00c9}', '(\u6bdb', '1\u24d0X', '\u00df', '\u0131', '\u00aa',
         '\u0345x', '\u2160', '\u2170x', '\U0001d400', '\U0001d41ab', '\U00020000', '\U00010428x', '{\u6bdb}\u00e9', '\u00e9{', '\u6bdb}']


def impl(case):
    from pybtex import errors
    from pybtex.database import Person
    try:
        with errors.capture() as captured:
            if case['op'] == 'person':
                p = Person(case['s'])
            else:
                p = Person(case['s'], case['first'], case['middle'], case['prelast'], case['last'], case['lineage'])
        kinds = [type(e).__name__ for e in captured]
        bad = [k for k in kinds if k != 'InvalidNameString']
        if bad:
            return {'error': 'UNEXPECTED-REPORT:' + ','.join(bad)}
        return {'person': {'first': p.first_names, 'middle': p.middle_names, 'prelast': p.prelast_names, 'last': p.last_names,
                           'lineage': p.lineage_names, 'bibtex_first': p.bibtex_first_names, 'str': str(p)},
                'too_many_commas': len(kinds) > 0}
    except Exception as e:  # noqa
        return {'error': compat.pybtex_error_kind(e)}


def model_out(case, reply):
    return reply['out']


def _balanced(s):
    d = 0
    for c in s:
        if c == '{':
            d += 1
        elif c == '}':
            d -= 1
            if d < 0:
                return False
    return d == 0


def oracle(case, io, reply):
    if case['op'] != 'person':
        return []
    fails = []
    s = case['s']
    spec = reply.get('spec', {})
    if 'error' in io:
        if io['error'] == 'BibTeXError' and '{' * 90 in s:
            return []
        return ['total: Person(%r) raised %s' % (s, io['error'])]
    p = io['person']
    toks = spec['tokens']
    parts = spec['comma_parts']
    ptoks = spec['part_tokens']
    if len(parts) <= 1:
        if p['first'] + p['middle'] + p['prelast'] + p['last'] != toks or p['lineage']:
            fails.append('tokens_preserved: Person(%r) -> %r, tokens %r' % (s, p, toks))
    else:
        # more than three comma parts: the parts beyond the second are re-joined with blanks (reported as too many commas);
        # the driver's part_tokens already holds the tokens of that regrouped third part
        tail = ptoks[-1]
        jr = ptoks[1] if len(parts) >= 3 else []
        if p['prelast'] + p['last'] != ptoks[0] or p['lineage'] != jr or p['first'] + p['middle'] != tail:
            fails.append('tokens_preserved: Person(%r) -> %r, tokens per part %r' % (s, p, ptoks))
    if io['too_many_commas'] != (len(parts) > 3):
        fails.append('total: Person(%r) reported too many commas = %r with %d comma-separated parts' % (s, io['too_many_commas'], len(parts)))
    if _balanced(s):
        for part in ('first', 'middle', 'prelast', 'last', 'lineage'):
            for t in p[part]:
                if not _balanced(t) or t not in s:
                    fails.append('braces_atomic: Person(%r).%s contains %r' % (s, part, t))
    if p['bibtex_first'] != p['first'] + p['middle']:
        fails.append('tokens_preserved: bibtex_first_names of Person(%r)' % s)
    want = spec['person']
    got = {k: p[k] for k in ('first', 'middle', 'prelast', 'last', 'lineage')}
    if got != {k: want[k] for k in got}:
        fails.append('matches_bibtex: Person(%r) = %r, BibTeX rule gives %r' % (s, got, {k: want[k] for k in got}))
    return fails


def buckets(case, io):
    if 'error' in io:
        return ['error:' + io['error']]
    p = io['person']
    b = ['commas=%d' % min(case['s'].count(','), 4)]
    if p['prelast']:
        b.append('has-von')
    if p['lineage']:
        b.append('has-jr')
    if io['too_many_commas']:
        b.append('too-many-commas')
    if any(ord(c) > 127 for c in case['s']):
        b.append('non-ascii')
    return b


def nontrivial(case, io):
    return ',' in case['s'] or len(case['s'].split()) > 1


def corpus():
    out = list(corpus_for(ID))
    out.extend({'op': 'person', 's': n} for n in UNICODE_NAMES)
    try:
        import importlib.util
        import os
        spec = importlib.util.spec_from_file_location('parse_name_test', os.path.join(compat.REPO, 'tests', 'parse_name_test.py'))
        m = importlib.util.module_from_spec(spec)
        spec.loader.exec_module(m)
        for row in m.sample_names:
            out.append({'op': 'person', 's': row[0]})
    except Exception:
        pass
    return out


def _shapes(tier):
    """(tokens, separators): every shape over the ASCII classes up to 3 (quick) / 4 (thorough) tokens as before; every shape with
    at least one non-ASCII class up to 3 tokens over all classes (quick: one separator kind for 3 tokens), thorough also 4 tokens
    over the reduced class set CLASSES4 with blanks."""
    maxtok = 3 if tier == 'quick' else 4
    for n in range(1, maxtok + 1):
        for classes in itertools.product(CLASSES, repeat=n):
            yield [TOKENS[c] for c in classes], (SEPS if n <= 2 or tier == 'thorough' else SEPS[:2])
    allc = CLASSES + UCLASSES
    for n in range(1, 4):
        for classes in itertools.product(allc, repeat=n):
            if all(c in TOKENS for c in classes):
                continue
            yield [ALLTOKENS[c] for c in classes], (SEPS if n <= 2 or tier == 'thorough' else SEPS[:1])
    if tier != 'quick':
        for classes in itertools.product(CLASSES4, repeat=4):
            if all(c in TOKENS for c in classes):
                continue
            yield [ALLTOKENS[c] for c in classes], SEPS[:1]


def _class_ranges():
    """inclusive code-point ranges of the three single-character predicates of the running interpreter"""
    out = []
    for pred in (str.isalpha, str.isupper, str.islower):
        start = None
        for cp in range(0x110000):
            ok = not (0xD800 <= cp <= 0xDFFF) and pred(chr(cp))
            if ok and start is None:
                start = cp
            elif not ok and start is not None:
                out.append((start, cp - 1))
                start = None
        if start is not None:
            out.append((start, 0x10FFFF))
    return out


def _okcp(cp):
    return 0 < cp < 0x110000 and not (0xD800 <= cp <= 0xDFFF)


def gen_cases(tier, rng, info):
    cases = []
    maxtok = 3 if tier == 'quick' else 4
    nshape = 0
    for toks, seps in _shapes(tier):
        nshape += 1
        n = len(toks)
        # commas after any subset of token positions (0..3 commas), one separator kind per name
        positions = list(range(n))
        for k in range(0, min(3, n) + 1):
            for commas in itertools.combinations(positions, k):
                for sep in seps:
                    s = ''
                    for i, t in enumerate(toks):
                        s += t
                        if i in commas:
                            s += ','
                        if i < n - 1:
                            s += sep if not (i in commas and sep == '\\ ') else ' '
                    cases.append({'op': 'person', 's': s})
    maxlen = 4 if tier == 'quick' else 5
    nstr = 0
    for n in range(0, maxlen + 1):
        for tup in itertools.product(ALPHA, repeat=n):
            cases.append({'op': 'person', 's': ''.join(tup)})
            nstr += 1
    info['exhaustive'] = True
    info['scope'] = ('%d token shapes (<=%d tokens over the %d ASCII token classes; <=3 tokens over all %d classes incl. %d non-ASCII ones%s) '
                     'x comma placements x separators; all %d strings of length <=%d over %r' % (
                         nshape, maxtok, len(CLASSES), len(ALLTOKENS), len(UCLASSES),
                         '' if tier == 'quick' else '; 4 tokens over %d classes' % len(CLASSES4), nstr, maxlen, ALPHA))
    apool = list(TOKENS.values()) + ['de', 'la', 'Jr.', 'III', '{\\relax van}', 'd\'Aviano', '{', '}', '\\', '~', ',', ' ', '  ', 'and', '{{\\LaTeX}}', '\\~{n}', 'A.', 'x']
    pool = apool + list(UTOKENS.values()) + UPOOL
    for i in range(3000 if tier == 'quick' else 60000):
        n = rng.randint(1, 9)
        pl = apool if i % 2 else pool
        s = ''.join(rng.choice(pl) + rng.choice(['', ' ', ' ', ' ', '~', ', ', ',']) for _ in range(n))
        if rng.random() < 0.02:
            s += '{' * rng.choice([99, 100, 101, 102]) + 'x' + '}' * 100
        cases.append({'op': 'person', 's': s})
    # the character tables themselves: a token starting with a code point at / next to a boundary of the interpreter's
    # isalpha / isupper / islower ranges, or with a random code point, in a position where its case matters
    ranges = _class_ranges()
    tails = ['', 'x', 'X', '1', '{x}']
    frames = ['%s Last', 'First %s Last', '%s Last, First', 'von %s Last, Jr, First', '1%s Last', "{\\'%s}x Last", '%s']
    for _ in range(1500 if tier == 'quick' else 40000):
        if rng.random() < 0.7:
            a, b = rng.choice(ranges)
            cp = rng.choice([a - 1, a, b, b + 1])
        else:
            cp = rng.choice([rng.randint(0x80, 0x2FFF), rng.randint(0x80, 0xFFFF), rng.randint(0x10000, 0x323AF)])
        if not _okcp(cp):
            continue
        cases.append({'op': 'person', 's': rng.choice(frames) % (chr(cp) + rng.choice(tails))})
    for _ in range(300 if tier == 'quick' else 5000):
        cases.append({'op': 'personparts', 's': rng.choice(['', 'von Last, First', 'A B', '\u6bdb \u6cfd\u4e1c', '\u02bbAkahi \u00e9 Kealoha, Leilani']),
                      'first': rng.choice(pool) + ' ' + rng.choice(pool), 'middle': rng.choice(pool),
                      'prelast': rng.choice(['', 'von', 'de la']), 'last': rng.choice(pool), 'lineage': rng.choice(['', 'Jr', 'III~x'])})
    return cases


LEVEL_TEXT = ('Machine-checked proofs (Lean 4) about the function-by-function model of Person.__init__ / Person._parse_string: for EVERY '
              'string (unbounded length) the model equals the declarative BibTeX rule Spec.split whenever the case-deciding tokens scan within '
              'the 100-level nesting limit (C04_matches_spec); it never raises IndexError/ValueError, its only error is the nesting error, '
              'and the too-many-commas report is exact (C04_total, C04_total_person); tokens are preserved in order in all comma forms '
              '(C04_tokens_preserved); the von/Last boundary and the case rule are characterised on the model output (C04_von_longest, '
              'C04_case_rule, C04_case_of_token); explicit parts use the same tokeniser (C04_parts_same_tokenisation); brace atomicity is '
              'reduced to the tokeniser (C04_braces_atomic, proved for the tokeniser under C12). The model is tied to the code by the '
              'differential check (exhaustive token-shape scope incl. non-ASCII token classes + random + the parse_name_test table) and the '
              'oracle evaluating the spec. Letters and case are the interpreter\'s Unicode classes (str.isalpha / isupper / islower on one '
              'character), in the model and in the rule alike (C04_char_classes).')
LEVEL_NOTE = ('Trusted: Lean kernel; axioms propext/Classical.choice/Quot.sound only; the hand-written model (Model/Names.lean, '
              'Model/TeXString.lean) corresponds to pybtex only as far as the differential check explores; the character classes are the '
              'range tables regenerated from the running interpreter (Gen/Unicode.lean; sortedness, upper/lower disjointness, ASCII '
              'coincidence and "structural characters are in no class" are re-checked by the kernel on every regeneration); BibTeX itself '
              'knows ASCII letters only, so beyond ASCII the rule is BibTeX\'s rule read with Python\'s classes (a cased first character '
              'decides; else the first brace-level-0 letter or special character; a letter without case makes the token caseless); '
              'fidelity of Spec/Names.lean to BibTeX itself is by reading (no binary to compare with). parseName is _parse_string on the '
              'stripped non-empty argument (find_pos after repair #3). Beyond the nesting limit model and rule differ for a token that starts '
              'with a lower-case letter (C04_matches_spec_neg: the code answers from the first character, the rule assigns no case); '
              'concrete witnesses are checked by kernel evaluation (decide +kernel).')
