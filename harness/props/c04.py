"""C04 -- personal names are split into first / von / last / jr parts as BibTeX does."""
import itertools

import compat  # noqa: F401
from props.base import to_request, corpus_for  # noqa: F401

ID = 'C04'
LEAN_MODULES = ['PybtexModel.Props.C04', 'PybtexModel.Props.LocalsC04']
THEOREMS = {
    'C04_char_classes': 'the character classes of model and rule are the interpreter\'s str.isalpha/isupper/islower tables (regenerated); kernel-checked facts the rule relies on: upper and lower case are disjoint, below U+0080 the classes are the ASCII ones, white space / braces / backslash / comma / tie / hyphen / digits are in no class, a first character that is a letter or cased is an ordinary brace-level-0 character, and the first-character clause of the rule matters only for a cased first character that is not a letter',
    'C04_matches_spec': 'the model of Person._parse_string equals the rule Spec.split for EVERY non-empty string (no hypothesis) - RELATIVE to the shared C12 models: tokens = splitTex (split_tex_string), brace level / special character = the scanner scan; characterised separately by C12_split_* / C12_scan_*; the case rule is proved equal to the scanner-free one: C04_case_bibtex_partial',
    'C04_matches_rule_any': "[lemma-level tie, subsumed by C04_matches_spec] a successful parse is splitWith (Lemmas/Names.lean, not a Spec definition) with the MODEL's is_von_name as the lower-case test",
    'C04_case_of_token': "is_von_name = Spec.isLow on EVERY non-empty token: a cased first character decides at once, else the first brace-level-0 letter (one without case: caseless) or special character - read off the items of the shared scanner scan (Spec.tokCaseOf mirrors the model's loop); that this IS bibtex.web's rule stated without the scanner: C04_case_bibtex_partial",
    'C04_case_bibtex_partial': 'the case rule WITHOUT the scanner (bibtex.web 397-401 von_token_found as one pass with a brace counter: Spec.tokenCaseBibtex; an ordinary group is skipped whatever it contains): is_von_name answers by it on EVERY non-empty token that starts with a cased character or nests <= 100 levels (after repair C04-3 no other proviso; the nesting clause cannot go: C04_overnested_case)',
    'C04_case_bibtex_ordinary_group': 'instance (kernel evaluation; the behaviour repaired by C04-3): a backslash inside an ORDINARY group makes no special character - {x\\y}von is lower-case and Person("Jean {x\\y}von Last") has the von part {x\\y}von, like {xy}von; a group that starts with a backslash is a special character wherever it stands: {x}{\\y}von has no case, {x}{\\o}x is lower-case',
    'C04_matches_bibtex_rule': "the WHOLE split against the scanner-free rule: the model of Person._parse_string equals Spec.splitBibtex (the rule with every token's case decided by bibtex.web's von_token_found restated without the scanner) on every non-empty name whose case-deciding tokens start with a cased character or nest <= 100 levels; tokens are still those of the shared tokeniser splitTex",
    'C04_overnested_case': 'a token nesting braces deeper than the scanner follows them (> 100 levels) has the case of its first character (upper / lower / none) in the rule, and is_von_name answers accordingly instead of raising (repair C04-1)',
    'C04_builtin_special_chars': 'a special character whose control sequence is one of BibTeX\'s built-in foreign characters has the case of the table (\\i \\j \\oe \\ae \\aa \\o \\l \\ss lower; \\OE \\AE \\AA \\O \\L upper) whatever follows, in the rule and in special_char_islower (repair C04-2)',
    'C04_total': 'parsing succeeds for EVERY non-empty string (no IndexError / ValueError / too many nested braces), reporting too many commas exactly when there are more than three comma parts',
    'C04_total_person': 'Person(string, first, middle, prelast, last, lineage) succeeds for ANY six strings; too many commas is reported exactly when the stripped string has more than three comma parts',
    'C04_tokens_nonempty': 'tokens of the tokeniser are never empty and a non-empty string has at least one comma part (why string[0] and the ValueError branch are unreachable)',
    'C04_tokens_preserved': 'no token is lost, duplicated or reordered, RELATIVE to the model tokeniser splitTex (C12; equal to the one-pass Spec.nameTokens on balanced names: C04_tokeniser_is_rule, C04_tokens_by_rule): first++middle++prelast++last = tokens(s) without commas; prelast++last / lineage / first++middle = tokens of the first / second / last comma part (extra parts joined by blanks); first_names is the first token of First',
    'C04_von_longest': 'the von part is the longest run ending in a lower-case token that still leaves a last name: boundary = Spec.vonLast, no lower-case token left in last[:-1], von ends lower-case, last non-empty, a lower-case token before the final one forces von (every string)',
    'C04_case_rule': 'First von Last form: no token of First is lower-case, von (when present) starts with the first lower-case token, a lower-case token before the final token forces a von part (every string)',
    'C04_person_matches_spec': 'the constructor as a whole, for ANY six arguments: Person(string, first, middle, prelast, last, lineage) = the rule\'s split of the stripped string (nothing for a blank string) with the tokens of each explicit part appended, too many commas as the rule says (what the oracle clauses matches_bibtex / parts_same_tokenisation evaluate)',
    'C04_parts_same_tokenisation': 'explicit part arguments are tokenised by the same tokeniser and appended to the parts parsed from the string',
    'C04_braces_atomic': "every returned token is a non-empty token of the MODEL tokeniser splitTex applied to the name, one of its first two comma parts or the blank-joined rest (so that C12's tokeniser theorems apply to every name part)",
    'C04_tables_current': 'the constants model and rule hard-code ARE those of the current source (kernel evaluation against Gen/NamesTables.lean, regenerated on every run from the code objects of /repo): the two tuples of built-in control sequences in special_char_islower = lowerControlSeqs / upperControlSeqs and Spec.builtinCase answers lower / upper on them, the item ("{", 1) is_von_name compares previous with, max_level = 100 of BibTeXString, the patterns of BIBTEX_SPACE_RE / BRACE_RE, the separators of _parse_string and __str__, the format string of InvalidNameString and the WARNING prefix of report_error',
    'C04_find_pos_spec': 'find_pos(lst, pred) for a predicate that does not raise, EVERY list: the index of the first item satisfying it, len(lst) if none (0 for the empty list); the items before it fail the predicate, the item at it satisfies it',
    'C04_split_at_spec': 'split_at / rsplit_at for a predicate that does not raise, EVERY list: the list cut in two, nothing lost or reordered; split_at cuts in front of the first satisfying item, rsplit_at directly after the last one (nothing satisfying to its right, its left part ends with a satisfying item)',
    'C04_local_helpers_wiring': '[model wiring] the model of process_von_last (which inlines rsplit_at) equals process_von_last written with rsplit_at, and the no-comma branch of the model of _parse_string equals split_at + pop + process_first_middle + process_von_last (hypothesis: the name has exactly one comma part)',
    'C04_special_char_case': 'special_char_islower(sc) is True exactly when the rule Spec.specialCase says lower case, for EVERY string sc (no hypothesis; also without leading backslash, empty, with braces)',
    'C04_von_last_spec': 'process_von_last(parts) on ANY list of non-empty strings (hypothesis: no empty string in the list) never raises and gives the rule Spec.vonLast appended to the person; von ++ last = parts; process_first_middle: first token First, the rest Middle',
    'C04_tokeniser_is_rule': 'on EVERY brace-balanced string (hypothesis: balanced) the model tokeniser splitTex (split_tex_string: partition / re.split / _find_closing_brace) returns exactly the tokens of the one-pass tokeniser stated from the property text (Spec.nameTokens: maximal pieces between brace-level-0 white space, ties not after a backslash, control spaces) and its comma parts are exactly the stripped pieces between brace-level-0 commas (Spec.nameCommaParts)',
    'C04_tokens_by_rule': 'C04_tokens_preserved with the tokeniser of the property text, for a brace-balanced name (hypotheses: balanced, the parse returned): First++Middle++von++Last = Spec.nameTokens(name) without commas; von++Last / Jr / First++Middle = Spec.nameTokens of the first / second / last brace-level-0 comma part (surplus parts joined by blanks)',
    'C04_tokeniser_is_rule_all': 'EVERY string, unbalanced braces included (no hypothesis): the comma parts of the model tokeniser are exactly Spec.nameCommaParts; its tokens are Spec.nameTokens with white space stripped from the ends of each token, and exactly Spec.nameTokens when the string does not end in white space (e.g. is stripped, as the string Person.__init__ parses)',
    'C04_tokeniser_is_rule_neg': 'the proviso cannot go: on "a {b " (white space at the end of a last, unclosed group) split_tex_string gives the token "{b", the one-pass rule "{b " (kernel evaluation)',
    'C04_tokens_by_rule_all': 'C04_tokens_by_rule without the balance hypothesis (hypothesis: the parse returned): comma parts = Spec.nameCommaParts, every name list = Spec.nameTokens of its comma part with white space stripped from the ends of each token',
    'C04_modes': 'parsing succeeds (possibly reporting too many commas) in EVERY error mode, any six constructor arguments (no hypothesis): at most three comma parts - nothing raised, captured or printed, error_code 0, all modes alike; more - the same person in capture and non-strict mode (report captured / one WARNING line, error_code 2), strict mode raises InvalidNameString; the text names the stripped string in all modes [the mode dispatch itself is model wiring of report_error]',
    'C04_groups_never_split': 'braced groups are never split, ONLY for a name with balanced braces (the property states it without that proviso; unbalanced: ASSUMPTIONS): every returned token is brace-balanced in all comma forms incl. too many commas; likewise the tokens of a balanced explicit part (from C12_split_braces; stripping and blank-joining keep the balance)',
}
RULE = ('all token shapes up to the tier token count over the ASCII token classes {Capitalised, lowercase, braced, special-char upper, '
        'special-char lower, caseless, hyphenated, tie-joined, built-in foreign character lower ({\\ae}b) / upper ({\\O}x)} and the non-ASCII '
        'classes {cased letters (\u00c9douard, \u0432\u0430\u043d), letters '
        'without case (CJK; okina + small letters; titlecase \u01c5), cased non-letters first (\u24b6b, \u24d0B) and inside (1\u24d0X), combining '
        'mark first, special characters with non-ASCII letters} x 0..3 commas at every position x separators {space, ~, two spaces, \\ }; '
        'white space: 1..3 tokens x comma placements x an INDEPENDENT separator per gap from {tab, LF, CR LF, NBSP, U+001F, U+2028, LF + '
        'indentation, blank, ~, control space, ...}, every one of the 29 Python white-space code points (and look-alikes that are not white '
        'space) between, around and inside the tokens; every string up to the tier length over {a B { } \\ , ~ space - 1 \u6bdb \u24d0 \u00e9} '
        'and over {a B { } \\ , ~ space LF tab NBSP U+001F} (totality); groups nested 99..102 deep at every token position, with and without '
        'a cased / caseless first character, also inside a special character; the thirteen built-in control sequences and near misses in '
        'every special-character shape; seeded noisy long names with Latin-1, '
        'Cyrillic, Greek, CJK, Hebrew, Hangul, circled and astral letters and mixed white space; tokens starting with code points at and next to the '
        'boundaries of the interpreter\'s isalpha/isupper/islower ranges and with random code points; explicit part arguments with the '
        'same token material; FUNCTION LEVEL: the local functions of _parse_string (is_von_name, special_char_islower, find_pos, split_at, rsplit_at, '
        'process_von_last, process_first_middle) rebuilt from the running code objects and driven one by one (every token of the families above as a '
        'token of its own, every short string, nesting 99..102, every 0/1 pattern for the list helpers, every short token list); the same names in the '
        'three error modes of pybtex.errors (capture / strict / non-strict) with the report text; the table of '
        'tests/parse_name_test.py as corpus (also re-written with line breaks as in wrapped .bib files); non-trivial = more than one token or a comma; distinct by case JSON')
TRUSTED = ['character classes: str.isalpha / str.isupper / str.islower of the running interpreter on single code points, regenerated as '
           'range tables (harness/tablegen/unicode.py -> Gen/Unicode.lean) on every run',
           'tokenisation in the theorems is the C12 model of split_tex_string (splitTex); the oracle compares the tokens with the '
           'independent one-pass tokeniser Spec.nameTokens / Spec.nameCommaParts (stated from the property text) on every case whose brace '
           'groups are all closed; splitTex = Spec.nameTokens / nameCommaParts is PROVED for balanced strings (C04_tokeniser_is_rule) and checked on the closed-group cases with a stray closing brace',
           'the case rule Spec.tokenCase sits on the shared scanner scan (C12 model of scan_bibtex_string): Spec.tokCaseOf / Spec.specialCase mirror the model\'s '
           'vonScan / specialCharIsLower over the scanner\'s tokens, incl. scan = none => caseless (pybtex\'s 100-level limit, not BibTeX\'s); the scanner is '
           'characterised in C12 (C12_scan_lossless / _levels / _total); the rule is restated scanner-free in Spec.tokenCaseBibtex and proved equal to it within the '
           'nesting limit (C04_case_bibtex_partial; the whole split: C04_matches_bibtex_rule)',
           'the oracle clause case_as_bibtex evaluates the case clauses with bibtex_von_token_found, a statement-by-statement transliteration of bibtex.web\'s '
           'von_token_found in the harness (Python\'s character classes), independent of pybtex\'s scanner and of Spec.tokenCase; it is compared with the Lean '
           'restatement Spec.tokenCaseBibtex on every case']
ASSUMPTIONS = ['/repo carries the proposed repairs C04-1 (is_von_name: an over-nested token has no case instead of raising "too many nested '
               'braces"), C04-2 (special_char_islower knows BibTeX\'s thirteen built-in foreign characters) and C04-3 (is_von_name: a backslash inside an '
               'ordinary group is no special character); on a tree without them the check reports the defects as violations with failing inputs',
               'a token that nests braces deeper than pybtex\'s scanner limit (100 levels) and does not start with a cased character is '
               'caseless in the rule (Spec.tokenCase); BibTeX itself has no nesting limit (its limits are buffer sizes) and would scan on',
               'on a string with an unclosed brace group the group runs to the end of the string, in the code (after repair C12-1) as in the rule '
               'Spec.nameTokens - proved equal for every string up to white space at the end of a last unclosed group, which the code strips from the '
               'token (C04_tokeniser_is_rule_all / _neg); the property text does not say what the tokens of such a string are, so the ORACLE still takes '
               'the model of split_tex_string as the token reference there',
               'BibTeX knows ASCII letters only: beyond ASCII the rule is BibTeX\'s rule read with Python\'s character classes (also for the '
               'letters that make up a control sequence)']

TOKENS = {'Cap': 'Smith', 'low': 'von', 'braced': '{Mc B}', 'spU': "{\\'E}cole", 'spL': "{\\'e}cole", 'caseless': '1{2}',
          'hyph': 'Jean-Paul', 'lowbr': '{\\v s}x', 'sp0': '{\\ae}b', 'biU': '{\\O}stergaard'}
# token classes with non-ASCII characters.  "letter" (isalpha) and "cased" (isupper/islower) are independent in Unicode.
UTOKENS = {'uCap': '\u00c9douard',            # cased letters outside ASCII
           'uLow': '\u0432\u0430\u043d',            # Cyrillic "van"
           'cjk': '\u6bdb\u6cfd',                # letters without case
           'okinaLow': '\u02bbakahi',          # a letter without case (modifier letter) first, small letters after it
           'title': '\u01c5x',                 # titlecase letter: a letter, neither upper nor lower
           'circU': '\u24b6b',                 # upper-case but not a letter, first
           'circL': '\u24d0B',                 # lower-case but not a letter, first
           'circIn': '1\u24d0X',               # ... not first: skipped by the scan
           'comb': '\u0301x',                  # combining mark (no class) first
           'spUU': "{\\'\u00c9}x",              # special characters with non-ASCII letters
           'spUL': '{\\relax \u0436}X'}
CLASSES = list(TOKENS)
CLASSES_LONG = [c for c in CLASSES if c != 'biU']       # the longest shapes of the thorough tier
UCLASSES = list(UTOKENS)
ALLTOKENS = dict(TOKENS, **UTOKENS)
# reduced class set for the longest shapes of the thorough tier
CLASSES4 = ['Cap', 'low', 'caseless', 'spL', 'uCap', 'uLow', 'cjk', 'okinaLow', 'circL', 'title']
SEPS = [' ', '~', '  ', '\\ ']
ALPHA = ['a', 'B', '{', '}', '\\', ',', '~', ' ', '-', '1', '\u6bdb', '\u24d0', '\u00e9']
# second alphabet for the exhaustive strings: white space other than the blank
ALPHA_WS = ['a', 'B', '{', '}', '\\', ',', '~', ' ', '\n', '\t', '\u00a0', '\x1f']
# the 29 code points of str.isspace() / re's \s (Model/Basic.lean wsCodes; C04_char_classes: none of them is a letter or cased)
PY_WS = [chr(c) for c in range(0x110000) if chr(c).isspace()]
# look-alikes that are NOT white space for Python (zero-width space, BOM, Mongolian vowel separator, NUL, word joiner, soft hyphen)
NOT_WS = ['\u200b', '\ufeff', '\u180e', '\x00', '\u2060', '\xad', '\x08', '\x7f']
# separators of the white-space families: what real .bib files contain (wrapped author lists, tabs, CR LF, NBSP) plus the rarer ones
WS_MAIN = ['\t', '\n', '\r\n', '\u00a0', '\x1f', '\u2028', '\n    ']
WS_MORE = WS_MAIN + [' ', '~', '\\ ', '\x0b', '\x0c', '\x1c', '\x85', '\u3000', '\u2003', '\r', ' \n', '~\n', '\\ \t', '\t~', '\n\\ \n']
WS_CLASSES = ['Cap', 'low', 'braced', 'spL', 'caseless', 'sp0']
UNICODE_NAMES = ['\u6bdb \u6cfd\u4e1c', '\u05d3\u05d5\u05d3 \u05d1\u05df \u05d2\u05d5\u05e8\u05d9\u05d5\u05df', '\u00c9douard van Beneden',
                 '\u02bbAkahi Kealoha, Leilani', '\u5c71\u7530 van \u592a\u90ce Smith', '\uae40 Van Halen, Jr, Eddie', '(\u6bdb \u6cfd\u4e1c',
                 '\u24b6b \u24d0b 1\u24d0X Z', '\u0416\u0430\u043d \u0432\u0430\u043d \u03c9mega \u01c5x \u03a9mega', 'e\u0301cole \u0301x Last',
                 '\U0001d400 \U0001d41a \U00020000 \U00010400 \U00010428 Z', '\u00aa \u00df \u0131 \u0345x \u2160 \u2170 Z']
# names as they stand in real .bib files (line breaks inside the author list), built-in foreign characters, over-nested tokens
KNOWN_NAMES = ['Ludwig\nvan Beethoven', 'Ludwig\n               van\tBeethoven', 'von\r\nBeethoven,\n Jr,\u00a0Ludwig\u2028X.',
               'A~\n\\ b\x1f\t~C', 'Jens {\\o}stergaard Hansen', 'Jens {\\O}stergaard Hansen', '{\\ss}x {\\O e} {\\oe} Z', '{\\l}ukasz {\\L}ukasz',
               'a' + '{' * 101 + '}' * 101 + ' B', '{' * 101 + 'a' + '}' * 101 + ' B', 'A ' + '{' * 101 + '}' * 101 + 'a B',
               'B' + '{' * 101 + '}' * 101 + ' c D', '{\\x' + '{' * 100 + 'a' + '}' * 100 + '} B', '{a{b} c d']
UPOOL = ['\u00c9douard', '\u00e9lan', '\u0416\u0430\u043d', '\u0432\u0430\u043d', '\u03a9mega', '\u03c9mega', '\u6bdb', '\u6cfd\u4e1c', '\u05d1\u05df',
         '\u05d3\u05d5\u05d3', '\uae40', '\uae40x', '\u02bbAkahi', '\u02bbokina', '\u24b6b', '\u24d0B', '\u24d0', '\u01c5x', '\u0301x', 'e\u0301',
         "{\\'\u00c9}", "{\\'\u00e9}", '{\\relax \u0436}', '{\\relax \u6bdb}x', '{\\\u00e9 \u00c9}', '(\u6bdb', '1\u24d0X', '\u00df', '\u0131', '\u00aa',
         '\u0345x', '\u2160', '\u2170x', '\U0001d400', '\U0001d41ab', '\U00020000', '\U00010428x', '{\u6bdb}\u00e9', '\u00e9{', '\u6bdb}']
# the control sequences BibTeX has built in, and near misses
BUILTIN_CS = ['i', 'j', 'oe', 'ae', 'aa', 'o', 'l', 'ss', 'OE', 'AE', 'AA', 'O', 'L']
NEAR_CS = ['', 'I', 'J', 'Oe', 'oE', 'aE', 'Aa', 'SS', 'ii', 'oo', 'ssx', 'os', 'lambda', 'oslash', 'relax', 'LL', 'a', 'e', 's', 'A', "'", '"', '\u00f8', 'o\u00e9']
PARTS = ('first', 'middle', 'prelast', 'last', 'lineage')


LOCAL_OPS = ('isvon', 'spislower', 'findpos', 'vonlast')
SKIPPED = {'skipped': 'the tree under test has no local function of this name in Person._parse_string'}


def _flag(item):
    return item[:1] == '1'


def _impl_local(case):
    """function-level correspondence: the local functions of Person._parse_string, rebuilt from the running code objects"""
    from props import c04_locals
    op = case['op']
    loc = c04_locals.fresh()
    try:
        if op == 'isvon':
            f = loc.get('is_von_name')
            return dict(SKIPPED) if f is None else {'von': bool(f(case['tok']))}
        if op == 'spislower':
            f = loc.get('special_char_islower')
            return dict(SKIPPED) if f is None else {'lower': bool(f(case['sc']))}
        if op == 'findpos':
            fs = [loc.get(n) for n in ('find_pos', 'split_at', 'rsplit_at')]
            if any(f is None for f in fs):
                return dict(SKIPPED)
            items = list(case['items'])
            out = {'find_pos': fs[0](list(items), _flag)}
            for name, f in (('split_at', fs[1]), ('rsplit_at', fs[2])):
                a, b = f(list(items), _flag)
                out[name] = {'left': list(a), 'right': list(b)}
            return out
        if op == 'vonlast':
            f = loc.get('process_von_last')
            loc2 = c04_locals.fresh()
            g = loc2.get('process_first_middle')
            if f is None or g is None:
                return dict(SKIPPED)
            try:
                f(list(case['toks']))
                vl = {'prelast': list(loc.person.prelast_names), 'last': list(loc.person.last_names)}
                if loc.person.first_names or loc.person.middle_names or loc.person.lineage_names:
                    vl['other'] = [loc.person.first_names, loc.person.middle_names, loc.person.lineage_names]
            except Exception as e:  # noqa
                vl = {'error': compat.pybtex_error_kind(e)}
            g(list(case['toks']))
            return {'von_last': vl, 'first_middle': {'first': list(loc2.person.first_names), 'middle': list(loc2.person.middle_names)}}
    except Exception as e:  # noqa
        return {'error': compat.pybtex_error_kind(e)}
    return {'error': 'unknown op'}


def reconcile(case, view, mo):
    """a tree whose _parse_string has no local function of that name: the function-level case is dropped on both sides"""
    if isinstance(view, dict) and 'skipped' in view:
        return {}, {}
    return view, mo


def _impl_mode(case):
    """Person(s) in capture / strict / non-strict mode; the module state of pybtex.errors and pybtex.io is put back afterwards"""
    import io as _io
    import pybtex.io
    from pybtex import errors
    from pybtex.database import Person
    saved = (errors.strict, errors.error_code, pybtex.io.stderr)
    out = {'person': None, 'raised': None, 'captured': [], 'stderr': '', 'error_code': 0}
    try:
        errors.error_code = 0
        buf = _io.StringIO()
        pybtex.io.stderr = buf
        try:
            if case['mode'] == 'capture':
                with errors.capture() as captured:
                    p = Person(case['s'])
                out['captured'] = [str(e) for e in captured]
                if any(type(e).__name__ != 'InvalidNameString' for e in captured):
                    return {'error': 'UNEXPECTED-REPORT:' + ','.join(type(e).__name__ for e in captured)}
            else:
                errors.set_strict_mode(case['mode'] == 'strict')
                p = Person(case['s'])
            out['person'] = {'first': p.first_names, 'middle': p.middle_names, 'prelast': p.prelast_names, 'last': p.last_names,
                             'lineage': p.lineage_names, 'bibtex_first': p.bibtex_first_names, 'str': str(p)}
        except Exception as e:  # noqa
            if type(e).__name__ == 'InvalidNameString' and case['mode'] == 'strict':
                out['raised'] = str(e)
            else:
                return {'error': compat.pybtex_error_kind(e)}
        out['stderr'] = buf.getvalue()
        out['error_code'] = errors.error_code
        return out
    finally:
        errors.strict, errors.error_code, pybtex.io.stderr = saved


def impl(case):
    from pybtex import errors
    from pybtex.database import Person
    if case['op'] in LOCAL_OPS:
        return _impl_local(case)
    if case['op'] == 'personmode':
        return _impl_mode(case)
    try:
        with errors.capture() as captured:
            if case['op'] == 'person':
                p = Person(case['s'])
            else:
                p = Person(case['s'], case['first'], case['middle'], case['prelast'], case['last'], case['lineage'])
        kinds = [type(e).__name__ for e in captured]
        bad = [k for k in kinds if k != 'InvalidNameString']
        if bad:
            return {'error': 'UNEXPECTED-REPORT:' + ','.join(bad)}
        return {'person': {'first': p.first_names, 'middle': p.middle_names, 'prelast': p.prelast_names, 'last': p.last_names,
                           'lineage': p.lineage_names, 'bibtex_first': p.bibtex_first_names, 'str': str(p)},
                'too_many_commas': len(kinds) > 0}
    except Exception as e:  # noqa
        return {'error': compat.pybtex_error_kind(e)}


def model_out(case, reply):
    return reply['out']


def _balanced(s):
    d = 0
    for c in s:
        if c == '{':
            d += 1
        elif c == '}':
            d -= 1
            if d < 0:
                return False
    return d == 0


def _call(case):
    if case['op'] == 'person':
        return 'Person(%r)' % case['s']
    return 'Person(%r, %s)' % (case['s'], ', '.join('%s=%r' % (k, case[k]) for k in PARTS))


def _oracle_parts(case, io, spec):
    """op personparts -- "explicit part arguments are token-split the same way": every name list is the list parsed from the
    string followed by the tokens of the explicit argument (tokens by the rule when the argument's groups are all closed)."""
    fails = []
    p = io['person']
    base = spec['person']
    for k in PARTS:
        ref = spec[k]['rule'] if spec[k]['closed'] else spec[k]['model']
        if p[k] != base[k] + ref:
            fails.append('parts_same_tokenisation: %s .%s_names = %r, the string gives %r and the tokens of %s=%r are %r' % (
                _call(case), k, p[k], base[k], k, case[k], ref))
    if io['too_many_commas'] != spec['too_many_commas']:
        fails.append('total: %s reported too many commas = %r' % (_call(case), io['too_many_commas']))
    if p['bibtex_first'] != p['first'] + p['middle']:
        fails.append('tokens_preserved: bibtex_first_names of %s' % _call(case))
    return fails


# ----------------------------------------------------------------------------------------------
# "each token's case is decided by its first brace-level-0 letter or special character ... exactly as in BibTeX":
# von_token_found of bibtex.web (sections 397-401), transliterated statement by statement.  Independent of pybtex's scanner
# (scan_bibtex_string) and of the Lean rule Spec.tokenCase that follows that scanner.  Character classes: Python's, as recorded in
# ASSUMPTIONS (a cased first character decides at once; a letter decides, a letter without case is not lower-case); on ASCII this
# is bibtex.web's own test "A".."Z" -> return, "a".."z" -> von found.
BIBTEX_LOWER_CS = ('i', 'j', 'oe', 'ae', 'aa', 'o', 'l', 'ss')
BIBTEX_UPPER_CS = ('OE', 'AE', 'AA', 'O', 'L')


def bibtex_von_token_found(tok):
    n = len(tok)
    if n and tok[0].isupper():
        return False
    if n and tok[0].islower():
        return True
    i = 0
    level = 0                                   # nm_brace_level
    while i < n:                                # while name_bf_ptr < name_bf_xptr
        c = tok[i]
        if c.isalpha():                         # a letter at brace level 0 decides
            return c.islower()
        elif c == '{':
            level += 1
            i += 1
            if i + 2 < n and tok[i] == '\\':    # a special character: the backslash directly follows a brace opened at level 0
                i += 1                          # skip over the backslash
                j = i
                while i < n and tok[i].isalpha():
                    i += 1                      # this scans the control sequence
                cs = tok[j:i]
                if cs in BIBTEX_UPPER_CS:       # handle this accented or foreign character
                    return False
                if cs in BIBTEX_LOWER_CS:
                    return True
                while i < n and level > 0:
                    c = tok[i]
                    if c.isalpha():
                        return c.islower()
                    elif c == '}':
                        level -= 1
                    elif c == '{':
                        level += 1
                    i += 1
                return False
            else:                               # skip over name_buf stuff at nm_brace_level > 0: an ORDINARY group, whatever it contains
                while level > 0 and i < n:
                    if tok[i] == '}':
                        level -= 1
                    elif tok[i] == '{':
                        level += 1
                    i += 1
        else:
            i += 1
    return False


def _max_depth(s):
    d = m = 0
    for c in s:
        if c == '{':
            d += 1
            m = max(m, d)
        elif c == '}' and d > 0:
            d -= 1
    return m


def _case_as_bibtex(s, p, spec):
    """the clauses on the case of tokens, evaluated on the parts the implementation returned with bibtex.web's own test: no token
    of First is lower-case and von starts with a lower-case token (First von Last form); von ends with a lower-case token; no
    lower-case token is left in Last before its final token.  Domain: every brace group of the name is closed and no token nests
    deeper than 100 levels (ASSUMPTIONS).  The Lean restatement Spec.tokenCaseBibtex (driver) has to give the same answers."""
    fails = []
    toks = p['first'] + p['middle'] + p['prelast'] + p['last']
    if not spec.get('closed') or any(_max_depth(t) > 100 or not _balanced(t) for t in toks):
        return fails
    von = bibtex_von_token_found
    lean = {t: low for t, low in spec.get('case_bibtex', [])}
    for t in toks:
        if t in lean and lean[t] != von(t):
            fails.append('case_as_bibtex: the two statements of bibtex.web\'s rule disagree on the token %r: harness transliteration %r, '
                         'Spec.tokenCaseBibtex %r' % (t, von(t), lean[t]))
    nparts = len(spec['rule_comma_parts'])
    where = 'Person(%r) = %r' % (s, {k: p[k] for k in PARTS})
    if nparts <= 1:
        for t in p['first'] + p['middle']:
            if von(t):
                fails.append('case_as_bibtex: %s: the token %r of the First part is lower-case by BibTeX\'s rule (von_token_found: its first '
                             'brace-level-0 letter or special character), so the von part starts there' % (where, t))
        if p['prelast'] and not von(p['prelast'][0]):
            fails.append('case_as_bibtex: %s: the von part starts with %r, which is not lower-case by BibTeX\'s rule' % (where, p['prelast'][0]))
    if p['prelast'] and not von(p['prelast'][-1]):
        fails.append('case_as_bibtex: %s: the von part ends with %r, which is not lower-case by BibTeX\'s rule' % (where, p['prelast'][-1]))
    for t in p['last'][:-1]:
        if von(t):
            fails.append('case_as_bibtex: %s: the token %r of the Last part (not its final token) is lower-case by BibTeX\'s rule, so '
                         'the von part reaches up to it' % (where, t))
    return fails


def _in_domain(t):
    return bool(t) and _balanced(t) and _max_depth(t) <= 100


def _oracle_local(case, io, spec):
    """the clauses of the property evaluated on what the local functions return"""
    op = case['op']
    fails = []
    if 'skipped' in io:
        return fails
    if 'error' in io:
        return ['total: %s(%r) raised %s' % (op, {k: v for k, v in case.items() if k != 'op'}, io['error'])]
    von = bibtex_von_token_found
    if op == 'isvon':
        t = case['tok']
        if _in_domain(t):
            if io['von'] != von(t):
                fails.append('case_as_bibtex: is_von_name(%r) = %r; by BibTeX\'s rule (von_token_found: first brace-level-0 letter or special '
                             'character) the token is %slower-case' % (t, io['von'], '' if von(t) else 'not '))
            if (spec['case_bibtex'] == 'lower') != von(t):
                fails.append('case_as_bibtex: the two statements of bibtex.web\'s rule disagree on the token %r: harness transliteration %r, '
                             'Spec.tokenCaseBibtex %r' % (t, von(t), spec['case_bibtex']))
    elif op == 'spislower':
        sc = case['sc']
        # a special character as the scanner hands it out: backslash first, its own groups closed (the brace that ends it is the first
        # unmatched one)
        if sc.startswith('\\') and _balanced(sc) and _in_domain('{' + sc + '}'):
            want = von('{' + sc + '}')
            if io['lower'] != want:
                fails.append('case_as_bibtex: special_char_islower(%r) = %r; the special character {%s} is %slower-case by BibTeX\'s rule' % (
                    sc, io['lower'], sc, '' if want else 'not '))
    elif op == 'findpos':
        items = case['items']
        first = next((i for i, x in enumerate(items) if _flag(x)), len(items))
        last = max([i for i, x in enumerate(items) if _flag(x)] + [-1])
        if io['find_pos'] != first:
            fails.append('von_longest: find_pos(%r, starts-with-1) = %r, the first such item is at %r' % (items, io['find_pos'], first))
        sa, rs = io['split_at'], io['rsplit_at']
        if sa['left'] + sa['right'] != items or rs['left'] + rs['right'] != items:
            fails.append('tokens_preserved: split_at / rsplit_at of %r gave %r / %r' % (items, sa, rs))
        if len(sa['left']) != first:
            fails.append('case_rule: split_at(%r) cuts at %d, the first satisfying item is at %d' % (items, len(sa['left']), first))
        if len(rs['left']) != last + 1:
            fails.append('von_longest: rsplit_at(%r) cuts at %d, the last satisfying item is at %d' % (items, len(rs['left']), last))
    elif op == 'vonlast':
        toks = case['toks']
        vl, fm = io['von_last'], io['first_middle']
        if 'error' in vl:
            return ['total: process_von_last(%r) raised %s' % (toks, vl['error'])]
        if vl['prelast'] + vl['last'] != toks or 'other' in vl:
            fails.append('tokens_preserved: process_von_last(%r) -> %r' % (toks, vl))
        if fm['first'] + fm['middle'] != toks or len(fm['first']) != min(1, len(toks)):
            fails.append('tokens_preserved: process_first_middle(%r) -> %r' % (toks, fm))
        if all(_in_domain(t) for t in toks):
            where = 'process_von_last(%r) = %r' % (toks, vl)
            if toks and not vl['last']:
                fails.append('von_longest: %s leaves no last name' % where)
            if vl['prelast'] and not von(vl['prelast'][-1]):
                fails.append('case_as_bibtex: %s: the von part ends with %r, which is not lower-case by BibTeX\'s rule' % (where, vl['prelast'][-1]))
            for t in vl['last'][:-1]:
                if von(t):
                    fails.append('case_as_bibtex: %s: the token %r of the Last part (not its final token) is lower-case by BibTeX\'s rule' % (where, t))
            if [von(t) for t in toks] != spec['low_bibtex']:
                fails.append('case_as_bibtex: the two statements of bibtex.web\'s rule disagree on the tokens %r' % (toks,))
            if spec['with_rsplit_at'] != vl:
                fails.append('matches_bibtex: %s, process_von_last written with rsplit_at gives %r' % (where, spec['with_rsplit_at']))
            if vl['prelast'] != spec['von'] or vl['last'] != spec['last']:
                fails.append('matches_bibtex: %s, BibTeX rule gives von %r last %r' % (where, spec['von'], spec['last']))
    return fails


def _oracle_mode(case, io, spec):
    """"parsing succeeds (possibly reporting too many commas) for every string", mode by mode: with the report captured or printed
    as a warning the constructor returns the person the rule gives; in strict mode the only thing it may raise is the report itself"""
    fails = []
    s, mode = case['s'], case['mode']
    if 'error' in io:
        return ['total: Person(%r) in %s mode raised %s' % (s, mode, io['error'])]
    many = len(spec['rule_comma_parts']) > 3 if spec.get('closed') else spec['too_many_commas']
    reported = bool(io['raised'] or io['captured'] or io['stderr'])
    if reported != many:
        fails.append('total: Person(%r) in %s mode reported too many commas = %r with %d comma parts' % (s, mode, reported, len(spec['rule_comma_parts'])))
    if mode != 'strict' or not many:
        if io['person'] is None:
            fails.append('total: Person(%r) in %s mode did not return a person' % (s, mode))
        else:
            got = {k: io['person'][k] for k in PARTS}
            if got != {k: spec['person'][k] for k in PARTS}:
                fails.append('matches_bibtex: Person(%r) in %s mode = %r, BibTeX rule gives %r' % (s, mode, got, {k: spec['person'][k] for k in PARTS}))
    return fails


def oracle(case, io, reply):
    fails = []
    if case['op'] in LOCAL_OPS:
        return _oracle_local(case, io, reply.get('spec', {}))
    if case['op'] == 'personmode':
        return _oracle_mode(case, io, reply.get('spec', {}))
    s = case['s']
    spec = reply.get('spec', {})
    if 'error' in io:
        # "parsing succeeds (possibly reporting too many commas) for every string"
        return ['total: %s raised %s' % (_call(case)[:300], io['error'])]
    if case['op'] != 'person':
        return _oracle_parts(case, io, spec)
    p = io['person']
    toks = spec['tokens']
    parts = spec['comma_parts']
    ptoks = spec['part_tokens']
    if len(parts) <= 1:
        if p['first'] + p['middle'] + p['prelast'] + p['last'] != toks or p['lineage']:
            fails.append('tokens_preserved: Person(%r) -> %r, tokens %r' % (s, p, toks))
    else:
        # more than three comma parts: the parts beyond the second are re-joined with blanks (reported as too many commas);
        # the driver's part_tokens already holds the tokens of that regrouped third part
        tail = ptoks[-1]
        jr = ptoks[1] if len(parts) >= 3 else []
        if p['prelast'] + p['last'] != ptoks[0] or p['lineage'] != jr or p['first'] + p['middle'] != tail:
            fails.append('tokens_preserved: Person(%r) -> %r, tokens per part %r' % (s, p, ptoks))
    if spec.get('closed'):
        # the same clause against the tokeniser stated from the property text (tokens = the pieces between brace-level-0 white
        # space / ties / control spaces, comma parts = the pieces between brace-level-0 commas); all groups of the name are closed
        rparts = spec['rule_comma_parts']
        rptoks = spec['rule_part_tokens']
        if len(rparts) <= 1:
            if p['first'] + p['middle'] + p['prelast'] + p['last'] != spec['rule_tokens'] or p['lineage']:
                fails.append('tokenised: Person(%r) -> %r, the brace-level-0 tokens are %r' % (s, p, spec['rule_tokens']))
        else:
            jr = rptoks[1] if len(rparts) >= 3 else []
            if p['prelast'] + p['last'] != rptoks[0] or p['lineage'] != jr or p['first'] + p['middle'] != rptoks[-1]:
                fails.append('tokenised: Person(%r) -> %r, the brace-level-0 tokens per comma part are %r' % (s, p, rptoks))
        if io['too_many_commas'] != (len(rparts) > 3):
            fails.append('total: Person(%r) reported too many commas = %r with %d brace-level-0 comma parts' % (s, io['too_many_commas'], len(rparts)))
    if io['too_many_commas'] != (len(parts) > 3):
        fails.append('total: Person(%r) reported too many commas = %r with %d comma-separated parts' % (s, io['too_many_commas'], len(parts)))
    if _balanced(s):
        for part in PARTS:
            for t in p[part]:
                if not _balanced(t) or t not in s:
                    fails.append('braces_atomic: Person(%r).%s contains %r' % (s, part, t))
    if p['bibtex_first'] != p['first'] + p['middle']:
        fails.append('tokens_preserved: bibtex_first_names of Person(%r)' % s)
    fails.extend(_case_as_bibtex(s, p, spec))
    want = spec['person']
    got = {k: p[k] for k in PARTS}
    if got != {k: want[k] for k in got}:
        fails.append('matches_bibtex: Person(%r) = %r, BibTeX rule gives %r' % (s, got, {k: want[k] for k in got}))
    return fails


def buckets(case, io):
    if 'error' in io:
        return ['error:' + io['error']]
    if case['op'] == 'personmode':
        return ['mode:%s:%s' % (case['mode'], 'raised' if io['raised'] else 'warned' if io['stderr'] else 'captured' if io['captured'] else 'clean')]
    if case['op'] in LOCAL_OPS:
        b = ['local:' + case['op']]
        if 'skipped' in io:
            b.append('local-skipped')
        elif case['op'] == 'isvon':
            b.append('isvon=%s' % io['von'])
            t = case['tok']
            b.append('isvon:' + ('cased-first' if t[:1].isupper() or t[:1].islower() else 'over-nested' if _max_depth(t) > 100 else
                                 'special-char' if '{\\' in t else 'scanned'))
        elif case['op'] == 'spislower':
            b.append('spislower=%s' % io['lower'])
        elif case['op'] == 'vonlast' and 'error' not in io['von_last']:
            b.append('vonlast:' + ('von' if io['von_last']['prelast'] else 'no-von'))
        return b
    p = io['person']
    s = case['s']
    b = ['commas=%d' % min(s.count(','), 4)]
    if case['op'] != 'person':
        b.append('explicit-parts')
    if p['prelast']:
        b.append('has-von')
    if p['lineage']:
        b.append('has-jr')
    if io['too_many_commas']:
        b.append('too-many-commas')
    if any(ord(c) > 127 for c in s):
        b.append('non-ascii')
    if any(c.isspace() and c != ' ' for c in s):
        b.append('ws-not-blank')
    if '{' * 90 in s:
        b.append('deep-nesting')
    if '{\\' in s:
        b.append('special-char')
    return b


def nontrivial(case, io):
    if case['op'] in LOCAL_OPS or case['op'] == 'personmode':
        return True
    return ',' in case['s'] or len(case['s'].split()) > 1 or case['op'] != 'person'


def _wrap_like_bib(name, rng=None):
    """the name as it stands in a .bib file whose author list was wrapped: blanks become line break + indentation / tabs"""
    out = []
    i = 0
    for c in name:
        if c == ' ':
            out.append(['\n', '\n  ', '\t', '\r\n\t', '\n               '][i % 5])
            i += 1
        else:
            out.append(c)
    return ''.join(out)


def corpus():
    out = list(corpus_for(ID))
    out.extend({'op': 'person', 's': n} for n in UNICODE_NAMES)
    out.extend({'op': 'person', 's': n} for n in KNOWN_NAMES)
    try:
        import importlib.util
        import os
        spec = importlib.util.spec_from_file_location('parse_name_test', os.path.join(compat.REPO, 'tests', 'parse_name_test.py'))
        m = importlib.util.module_from_spec(spec)
        spec.loader.exec_module(m)
        for row in m.sample_names:
            out.append({'op': 'person', 's': row[0]})
        for row in m.sample_names:
            w = _wrap_like_bib(row[0])
            if w != row[0]:
                out.append({'op': 'person', 's': w})
    except Exception:
        pass
    return out


def _shapes(tier):
    """(tokens, separators): every shape over the ASCII classes up to 3 (quick) / 4 (thorough) tokens as before; every shape with
    at least one non-ASCII class up to 3 tokens over all classes (quick: one separator kind for 3 tokens), thorough also 4 tokens
    over the reduced class set CLASSES4 with blanks."""
    maxtok = 3 if tier == 'quick' else 4
    for n in range(1, maxtok + 1):
        for classes in itertools.product(CLASSES if n <= 3 else CLASSES_LONG, repeat=n):
            yield [TOKENS[c] for c in classes], (SEPS if n <= 2 or tier == 'thorough' else SEPS[:2])
    allc = CLASSES + UCLASSES
    for n in range(1, 4):
        for classes in itertools.product(allc, repeat=n):
            if all(c in TOKENS for c in classes):
                continue
            yield [ALLTOKENS[c] for c in classes], (SEPS if n <= 2 or tier == 'thorough' else SEPS[:1])
    if tier != 'quick':
        for classes in itertools.product(CLASSES4, repeat=4):
            if all(c in TOKENS for c in classes):
                continue
            yield [ALLTOKENS[c] for c in classes], SEPS[:1]


def _class_ranges():
    """inclusive code-point ranges of the three single-character predicates of the running interpreter"""
    out = []
    for pred in (str.isalpha, str.isupper, str.islower):
        start = None
        for cp in range(0x110000):
            ok = not (0xD800 <= cp <= 0xDFFF) and pred(chr(cp))
            if ok and start is None:
                start = cp
            elif not ok and start is not None:
                out.append((start, cp - 1))
                start = None
        if start is not None:
            out.append((start, 0x10FFFF))
    return out


def _okcp(cp):
    return 0 < cp < 0x110000 and not (0xD800 <= cp <= 0xDFFF)


def _join(toks, commas, seps):
    """tokens joined by seps[i] after token i; a comma directly after the tokens whose index is in commas (a control space
    directly after a comma would make the backslash part of the next token: a blank is used there)"""
    s = ''
    for i, t in enumerate(toks):
        s += t
        if i in commas:
            s += ','
        if i < len(toks) - 1:
            s += seps[i] if not (i in commas and seps[i].startswith('\\ ')) else ' ' + seps[i][2:]
    return s


def _ws_cases(tier):
    """white space other than the blank (tab, LF, CR LF, NBSP, U+001F, U+2028, ...), an independent separator per gap"""
    out = []
    # two tokens: every separator of the long list, every comma placement (also a comma directly followed by the next token)
    for classes in itertools.product(WS_CLASSES, repeat=2):
        toks = [TOKENS[c] for c in classes]
        for sep in WS_MORE + ['']:
            for commas in ((), (0,), (1,), (0, 1)):
                if sep == '' and 0 not in commas:
                    continue
                out.append(_join(toks, commas, [sep]))
    # three tokens: an independent separator per gap
    classes3 = WS_CLASSES[:4] if tier == 'quick' else WS_CLASSES[:5]
    seps3 = WS_MAIN + [' '] if tier == 'quick' else WS_MORE
    for classes in itertools.product(classes3, repeat=3):
        toks = [TOKENS[c] for c in classes]
        for s1 in seps3:
            for s2 in seps3:
                for commas in ((), (0,), (1,), (0, 1)):
                    out.append(_join(toks, commas, [s1, s2]))
    # every white-space code point of the interpreter (and look-alikes that are not white space): between tokens, around the
    # name (strip), next to commas, inside a group, inside a special character, after a backslash, next to a tie
    frames = ['A%svon%sB', '%sA von B%s', 'von B,%sA', 'von B%s, Jr%s,%sA', '{A%sB} C', "{\\'a%sb} C", 'A\\%sB', 'A~%sb~%sC', 'a%s']
    for w in PY_WS + NOT_WS + ['\r\n']:
        for f in frames:
            out.append(f.replace('%s', w))
    return out


def _deep_cases():
    """brace groups nested 99..102 deep (the scanner of is_von_name follows 100 levels) at every token position"""
    out = []
    frames = ['%s B', 'A %s B', 'A B %s', '%s B, A', 'von %s B, Jr, A', 'A von %s', '%s', '%s %s B']
    for k in (99, 100, 101, 102):
        for pre in ('', 'a', 'B', '1', '\u6bdb', '\u24d0', '-'):
            for inner in ('', 'x', 'X'):
                for post in ('', 'a', 'B'):
                    tok = pre + '{' * k + inner + '}' * k + post
                    for f in frames:
                        out.append(f.replace('%s', tok))
        # deep nesting inside a special character (its level counts from 1), closed and unclosed
        for inner in ('a', 'A', ''):
            tok = '{\\x' + '{' * (k - 1) + inner + '}' * (k - 1) + '}'
            out.extend([tok + ' B', 'A ' + tok + ' B', 'A ' + tok[:-1] + ' B', 'A 1' + tok + 'b B'])
        out.append('A ' + '{' * k + ' B')          # unclosed
        out.append('A ' + '}' * k + '{' * k + 'a B')
    return out


def _builtin_cases():
    """special characters whose control sequence is / is not one of BibTeX's thirteen built-in foreign characters"""
    out = []
    forms = ['{\\%s}', '{\\%s}x', '{\\%s}X', '{\\%s x}', '{\\%s X}', '{\\%s{}}x', '{\\%s{X}}', '{\\%s1x}', '{\\%s\u00c9}', 'x{\\%s}', 'X{\\%s}',
             '1{\\%s}X', '-{\\%s}', '{{\\%s}}x', '{\\%s', '{\\%s x', '\\%s', '\\%s{}x', "{\\'\\%s}", '{\\%s\\%s}', '{\\ %s}', '{\\%s}{\\O}', '{\\%s}{\\o}']
    frames = ['A %s B', '%s B', 'von %s B, A', '%s']
    for cs in BUILTIN_CS + NEAR_CS:
        for f in forms:
            tok = f.replace('%s', cs)
            for fr in frames:
                out.append(fr.replace('%s', tok))
    return out


# groups that are ORDINARY (the brace that opens them at level 0 is not followed by a backslash) but contain a backslash further in,
# real special characters next to them, and backslashes deeper down
ORD_GROUPS = ['{x\\y}', '{X\\y}', '{x\\Y}', '{1\\y}', '{x \\y}', '{x\\y z}', '{xy\\}', '{x\\}', '{x\\o}', '{x\\O}', '{x\\ae}', "{x\\'e}", '{x{\\y}}', '{{\\y}}',
              '{{\\y}x}', '{x}{\\y}', '{x}{\\Y}', '{x}{\\o}', '{x\\y}{\\Z}', '{x\\y}{\\z}', '{x\\y}{\\O}', '{}{x\\y}', '{\\y}{x\\z}', '{x\\y}{x\\z}',
              '{-\\y}', '{\u6bdb\\y}', '{ \\y}', '{x\\\\y}', '{\\y}', '{\\Y}', '{\\y}{\\Z}']


def _ordinary_group_cases():
    """tokens in which a backslash stands inside an ordinary group, before / after the deciding letter, in every name position
    where the case of a token matters (BibTeX skips an ordinary group whatever it contains)"""
    out = []
    heads = ['', '1', '-', 'a', 'A', '\u6bdb']
    tails = ['von', 'Von', '', '1', 'v', 'V', '1x', '{z}v', '-\u00e9']
    frames = ['%s Last', 'First %s Last', 'First %s von Last', 'First von %s Last', 'First %s', '%s', '%s %s Last', 'von %s Last, First',
              '%s Last, First', '%s Last, Jr, First', 'Last, %s', 'von Last %s End, First', 'First\n%s\tLast']
    for g in ORD_GROUPS:
        for h in heads:
            for t in tails:
                tok = h + g + t
                for f in frames:
                    out.append(f.replace('%s', tok))
    return out


# ----------------------------------------------------------------------------------------------
# function-level families: the local functions of Person._parse_string one by one (ops isvon / spislower / findpos / vonlast)
LOCAL_ALPHA = ['a', 'B', '{', '}', '\\', '1', ' ', '毛']
SP_ALPHA = ['a', 'B', 'o', 'O', 'e', ' ', '{', '}', '1', '\\']
SP_RESTS = ['', 'x', 'X', ' x', ' X', '{}x', '{X}', '{x}', '1x', '1X', 'É', 'é', '\\o', '\\O x', ' ', '  \tx', '-X', '~x', '{{x}}', '毛x', 'ⓐX']
VL_CLASSES = ['von', 'Smith', '{\\o}x', '1{2}', '{x\\y}v', 'ⓐB', '{\\O}x']


def _local_cases(tier, rng):
    cases = []
    quick = tier == 'quick'
    # is_von_name: every token of the end-to-end families as a token of its own, every short string, deep nesting, boundaries
    toks = set(ALLTOKENS.values()) | set(UPOOL)
    for g in ORD_GROUPS:
        for h in ('', '1', '-', 'a', 'A', '毛'):
            for t in ('von', 'Von', '', '1', 'v', 'V', '1x', '{z}v', '-é'):
                toks.add(h + g + t)
    for cs in BUILTIN_CS + NEAR_CS:
        for f in ('{\\%s}', '{\\%s}x', '{\\%s}X', '{\\%s x}', '{\\%s X}', '{\\%s{}}x', '{\\%s{X}}', '{\\%s1x}', 'x{\\%s}', '1{\\%s}X', '-{\\%s}', '{{\\%s}}x',
                  '{\\%s', '{\\%s x', '\\%s', '\\%s{}x', "{\\'\\%s}", '{\\%s\\%s}', '{\\ %s}', '{\\%s}{\\O}', '{\\%s}{\\o}', '{}{\\%s}x', '1{x}{\\%s}'):
            toks.add(f.replace('%s', cs))
    for k in (99, 100, 101, 102):
        for pre in ('', 'a', 'B', '1', '毛', 'ⓐ', '-'):
            for inner in ('', 'x', 'X', '\\x'):
                toks.add(pre + '{' * k + inner + '}' * k + 'y')
        for inner in ('a', 'A', ''):
            toks.add('{\\x' + '{' * (k - 1) + inner + '}' * (k - 1) + '}')
            toks.add('1{\\x' + '{' * (k - 1) + inner + '}' * (k - 1))
    for n in range(1, (4 if quick else 5) + 1):
        for tup in itertools.product(LOCAL_ALPHA, repeat=n):
            toks.add(''.join(tup))
    toks.discard('')
    cases.extend({'op': 'isvon', 'tok': t} for t in sorted(toks))
    ranges = _class_ranges()
    for _ in range(600 if quick else 8000):
        a, b = rng.choice(ranges)
        cp = rng.choice([a - 1, a, b, b + 1, rng.randint(0x80, 0xFFFF)])
        if _okcp(cp):
            cases.append({'op': 'isvon', 'tok': rng.choice(['%s', '%sx', '1%s', '{}%sX', "{\\'%s}", '{\\x %s}X', '{x\\y}%s', '-{%s}%s']).replace('%s', chr(cp))})
    # special_char_islower: every control sequence x every continuation, every short string (with and without the backslash)
    scs = set()
    for cs in BUILTIN_CS + NEAR_CS:
        for r in SP_RESTS:
            scs.add('\\' + cs + r)
    for n in range(0, (3 if quick else 4) + 1):
        for tup in itertools.product(SP_ALPHA, repeat=n):
            scs.add('\\' + ''.join(tup))
            scs.add(''.join(tup))
    cases.extend({'op': 'spislower', 'sc': x} for x in sorted(scs))
    for _ in range(300 if quick else 4000):
        a, b = rng.choice(ranges)
        cp = rng.choice([a - 1, a, b, b + 1, rng.randint(0x80, 0xFFFF)])
        if _okcp(cp):
            cases.append({'op': 'spislower', 'sc': rng.choice(['\\%s', '\\x%s', '\\x %s', '\\%sx X', '\\o%s', '\\ %s', "\\'%sX", '\\x{%s}'] ).replace('%s', chr(cp))})
    # find_pos / split_at / rsplit_at: every 0/1 pattern up to 6 (7) items, the items made distinct
    for n in range(0, (6 if quick else 8) + 1):
        for bits in itertools.product('01', repeat=n):
            cases.append({'op': 'findpos', 'items': ['%s%s' % (b, chr(97 + i)) for i, b in enumerate(bits)]})
    # process_von_last / process_first_middle: every token list up to 4 (5) tokens over seven classes, seeded longer ones
    for n in range(0, (4 if quick else 5) + 1):
        for tup in itertools.product(VL_CLASSES, repeat=n):
            cases.append({'op': 'vonlast', 'toks': list(tup)})
    pool = [t for t in list(ALLTOKENS.values()) + UPOOL + ['de', 'la', 'Jr.', '{\\relax van}', '{x\\y}von', '{x}{\\y}von', '1{x\\o}', '{\\ss}', '{\\AE}x',
                                                         '{' * 101 + '}' * 101 + 'a', 'a' + '{' * 101 + '}' * 101, 'ⓐ', '{', '}', '\\'] if t]
    for _ in range(600 if quick else 10000):
        cases.append({'op': 'vonlast', 'toks': [rng.choice(pool) for _ in range(rng.randint(1, 9))]})
    return cases


MODE_TOKENS = ['Smith', 'von', "O'Brien", 'a"b', '\'"', '{a, b}', '\\x', 'A\nB', '\x85', 'é', '毛', '\U0001d400', '\x7f', '\xad', '\u2028x', '{', '}', '']


def _mode_cases(tier, rng):
    """the same name in the three error modes: 0..5 commas, characters that repr() escapes or quotes differently, white space around"""
    names = set()
    for n in range(1, 7):
        for t in MODE_TOKENS:
            for sep in (', ', ',', ' , '):
                names.add(sep.join(['A'] * (n - 1) + [t]))
                names.add(sep.join([t] + ['b'] * (n - 1)))
    for nm in ('a, b, c, d', 'von Last, Jr, First, X'):
        for pad in (' ', '\n', '\t ', '\u00a0'):
            names.update([pad + nm, nm + pad, pad + nm + pad])
    names.update(['', ' ', ',', ',,', ',,,', ',,,,', ', , , ,', '{,,,,}', '{a,b},c,d,e', 'a,b,c,{d', 'a},b,c,d'])
    for _ in range(60 if tier == 'quick' else 2000):
        names.add(''.join(rng.choice(MODE_TOKENS + [',', ', ', ' ']) for _ in range(rng.randint(1, 10))))
    return [{'op': 'personmode', 's': s, 'mode': m} for s in sorted(names) for m in ('capture', 'strict', 'nonstrict')]


def gen_cases(tier, rng, info):
    cases = []
    maxtok = 3 if tier == 'quick' else 4
    nshape = 0
    for toks, seps in _shapes(tier):
        nshape += 1
        n = len(toks)
        # commas after any subset of token positions (0..3 commas), one separator kind per name
        positions = list(range(n))
        for k in range(0, min(3, n) + 1):
            for commas in itertools.combinations(positions, k):
                for sep in seps:
                    cases.append({'op': 'person', 's': _join(toks, commas, [sep] * n)})
    maxlen = 4 if tier == 'quick' else 5
    nstr = 0
    for alpha in (ALPHA, ALPHA_WS):
        for n in range(0, maxlen + 1):
            for tup in itertools.product(alpha, repeat=n):
                if alpha is ALPHA_WS and not any(c in '\n\t\u00a0\x1f' for c in tup):
                    continue        # already in the first alphabet's scope
                cases.append({'op': 'person', 's': ''.join(tup)})
                nstr += 1
    ws = _ws_cases(tier)
    deep = _deep_cases()
    builtin = _builtin_cases()
    ordinary = _ordinary_group_cases()
    cases.extend({'op': 'person', 's': s} for s in ws + deep + builtin + ordinary)
    info['exhaustive'] = True
    info['scope'] = ('%d token shapes (<=%d tokens over the %d ASCII token classes; <=3 tokens over all %d classes incl. %d non-ASCII ones%s) '
                     'x comma placements x separators; %d strings: all of length <=%d over %r and over %r; %d white-space names (1..3 tokens, '
                     'independent separator per gap from %r, all %d Python white-space code points); %d names with groups nested 99..102 deep '
                     'at every token position; %d names around the %d built-in control sequences and %d near misses; %d names with a backslash inside '
                     'an ordinary group (%d group shapes x heads x tails x name positions)' % (
                         nshape, maxtok, len(CLASSES), len(ALLTOKENS), len(UCLASSES),
                         '' if tier == 'quick' else '; 4 tokens over %d classes' % len(CLASSES4), nstr, maxlen, ALPHA, ALPHA_WS,
                         len(ws), WS_MORE, len(PY_WS), len(deep), len(builtin), len(BUILTIN_CS), len(NEAR_CS), len(ordinary), len(ORD_GROUPS)))
    apool = list(TOKENS.values()) + ['de', 'la', 'Jr.', 'III', '{\\relax van}', 'd\'Aviano', '{', '}', '\\', '~', ',', ' ', '  ', 'and', '{{\\LaTeX}}', '\\~{n}', 'A.', 'x',
                                     '{\\ss}', '{\\AE}x', '{\\i}', '{\\L}', '\n', '\t', '{x\\y}von', '{x\\y}Von', '{x}{\\y}von', '1{x\\o}']
    pool = apool + list(UTOKENS.values()) + UPOOL
    rseps = ['', ' ', ' ', ' ', '~', ', ', ',', '\n', '\t', '\r\n', '\u00a0', ',\n  ', '\n    ', '\x1f', '\u2028', ' ,', '\\ ']

    def deep_token():
        k = rng.choice([99, 100, 101, 102])
        return rng.choice(['', '', 'a', 'B', '1', '\u6bdb', '{\\o}']) + '{' * k + rng.choice(['', 'x', 'X', '\\x', ' ']) + '}' * rng.choice([k, k, k, 100]) + rng.choice(['', 'a', 'B'])

    for i in range(3000 if tier == 'quick' else 60000):
        n = rng.randint(1, 9)
        pl = apool if i % 2 else pool
        toks = [rng.choice(pl) for _ in range(n)]
        if rng.random() < 0.04:
            toks[rng.randrange(n)] = deep_token()       # at ANY position, not only at the end of the name
        s = ''.join(t + rng.choice(rseps) for t in toks)
        cases.append({'op': 'person', 's': s})
    # the character tables themselves: a token starting with a code point at / next to a boundary of the interpreter's
    # isalpha / isupper / islower ranges, or with a random code point, in a position where its case matters
    ranges = _class_ranges()
    tails = ['', 'x', 'X', '1', '{x}']
    frames = ['%s Last', 'First %s Last', '%s Last, First', 'von %s Last, Jr, First', '1%s Last', "{\\'%s}x Last", '%s', 'First\n%s\tLast', '{\\o%s} Last']
    for _ in range(1500 if tier == 'quick' else 40000):
        if rng.random() < 0.7:
            a, b = rng.choice(ranges)
            cp = rng.choice([a - 1, a, b, b + 1])
        else:
            cp = rng.choice([rng.randint(0x80, 0x2FFF), rng.randint(0x80, 0xFFFF), rng.randint(0x10000, 0x323AF)])
        if not _okcp(cp):
            continue
        cases.append({'op': 'person', 's': rng.choice(frames) % (chr(cp) + rng.choice(tails))})
    # explicit part arguments: the same token material (white space of every kind, unclosed groups, deep groups, built-ins)
    strings = ['', '', 'von Last, First', 'A B', '\u6bdb \u6cfd\u4e1c', '\u02bbAkahi \u00e9 Kealoha, Leilani', 'a, b, c, d', ' \n', 'Jens {\\o}stergaard\nHansen',
               '{' * 101 + '}' * 101 + ' B']

    def part():
        r = rng.random()
        if r < 0.15:
            return ''
        if r < 0.2:
            return deep_token()
        return ''.join(rng.choice(pool) + rng.choice(rseps) for _ in range(rng.randint(1, 3)))

    for _ in range(1500 if tier == 'quick' else 20000):
        case = {'op': 'personparts', 's': rng.choice(strings)}
        for k in PARTS:
            case[k] = part()
        cases.append(case)
    for w in PY_WS + NOT_WS:
        cases.append({'op': 'personparts', 's': '', 'first': 'A%sB' % w, 'middle': '%sC%s' % (w, w), 'prelast': 'von~%sder' % w, 'last': '{L%sM}%sN' % (w, w),
                      'lineage': w})
    local = _local_cases(tier, rng)
    info['scope'] += ('; function level (the local functions of _parse_string rebuilt from the running code objects): %d cases - is_von_name on every '
                      'token of the families above as a token of its own, every string of length <=%d over %r, nesting 99..102, class-table boundaries; '
                      'special_char_islower on %d control sequences x %d continuations and every string of length <=%d over %r with / without the '
                      'backslash; find_pos / split_at / rsplit_at on every 0/1 pattern of <=%d items; process_von_last / process_first_middle on every '
                      'list of <=%d tokens over %r' % (len(local), 4 if tier == 'quick' else 5, LOCAL_ALPHA, len(BUILTIN_CS + NEAR_CS), len(SP_RESTS),
                                                       3 if tier == 'quick' else 4, SP_ALPHA, 6 if tier == 'quick' else 8, 4 if tier == 'quick' else 5,
                                                       VL_CLASSES))
    cases.extend(local)
    modes = _mode_cases(tier, rng)
    info['scope'] += '; %d names x the three error modes of pybtex.errors (capture / strict / non-strict), 0..5 commas, characters that repr() quotes or escapes' % (len(modes) // 3)
    cases.extend(modes)
    return cases


TRUSTED.append('function-level correspondence: harness/props/c04_locals.py makes function objects from the code objects of the local functions of '
               'Person._parse_string (types.FunctionType with rebuilt closure cells); if the tree under test has no local of that name the '
               'function-level cases are dropped on both sides (the end-to-end families still run)')
TRUSTED.append('constants: harness/tablegen/c04.py reads the tuples / defaults / patterns / format strings from the code objects of /repo into '
               'Gen/NamesTables.lean on every run; C04_tables_current proves the model constants equal to them')

LEVEL_TEXT = ('Machine-checked proofs (Lean 4) about the function-by-function model of Person.__init__ / Person._parse_string (after the '
              'proposed repairs C04-1, C04-2 and C04-3): for EVERY non-empty string (unbounded length, any nesting) the model equals the declarative '
              'BibTeX rule Spec.split (C04_matches_spec, no hypothesis); parsing succeeds for every string and for any six constructor '
              'arguments, and the too-many-commas report is exact (C04_total, C04_total_person); tokens are preserved in order in all comma forms '
              '(C04_tokens_preserved); the von/Last boundary and the case rule are characterised on the model output (C04_von_longest, '
              'C04_case_rule, C04_case_of_token), including over-nested tokens (C04_overnested_case) and BibTeX\'s thirteen built-in foreign '
              'characters (C04_builtin_special_chars), and the case rule is bibtex.web\'s von_token_found stated without the scanner (C04_case_bibtex_partial); explicit parts use the same tokeniser (C04_parts_same_tokenisation); every token of a '
              'brace-balanced name is brace-balanced, i.e. braced groups are never split (C04_groups_never_split, from C04_braces_atomic and '
              'C12_split_braces). The model is tied to the code by the '
              'differential check (exhaustive token-shape scope incl. non-ASCII token classes, white space of every kind with mixed separators, '
              'deep nesting at every position, the built-in control sequences + random + the parse_name_test table, also re-wrapped) and the '
              'oracle evaluating the spec; the tokens are also compared with a one-pass tokeniser stated from the property text. Letters and '
              'case are the interpreter\'s Unicode classes (str.isalpha / isupper / islower on one '
              'character), in the model and in the rule alike (C04_char_classes). Extension: on every brace-balanced string the model tokeniser '
              'IS the one-pass tokeniser of the property text (C04_tokeniser_is_rule, C04_tokens_by_rule); the local helpers find_pos / split_at / '
              'rsplit_at / special_char_islower / process_von_last are characterised one by one for all arguments (C04_find_pos_spec, '
              'C04_split_at_spec, C04_special_char_case, C04_von_last_spec) and each is driven against the real closure; the three error modes '
              '(C04_modes); the constants the model hard-codes are proved equal to those regenerated from /repo (C04_tables_current).')
LEVEL_NOTE = ('Trusted: Lean kernel; axioms propext/Classical.choice/Quot.sound only; the hand-written model (Model/Names.lean, '
              'Model/TeXString.lean) corresponds to pybtex only as far as the differential check explores; the character classes are the '
              'range tables regenerated from the running interpreter (Gen/Unicode.lean; sortedness, upper/lower disjointness, ASCII '
              'coincidence and "structural characters are in no class" are re-checked by the kernel on every regeneration); BibTeX itself '
              'knows ASCII letters only, so beyond ASCII the rule is BibTeX\'s rule read with Python\'s classes (a cased first character '
              'decides; else the first brace-level-0 letter or special character; a letter without case makes the token caseless); '
              'fidelity of Spec/Names.lean to BibTeX itself is by reading (bibtex.web sections 397-401 von_token_found, incl. the table of built-in '
              'control sequences; no binary to compare with). parseName is _parse_string on the '
              'stripped non-empty argument (find_pos after repair #3). A token nested deeper than 100 levels that does not start with a cased '
              'character is caseless in the rule (pybtex\'s scanner limit; BibTeX has none). Spec.nameTokens / nameCommaParts (the tokeniser '
              'stated from the property text) are proved equal to splitTex on every brace-balanced string (C04_tokeniser_is_rule) and, up to white space at the end of an unclosed last group, on EVERY string (C04_tokeniser_is_rule_all) and compared with the code on every case with closed groups; '
              'concrete witnesses are checked by kernel evaluation (decide +kernel). RELATIVE NOTIONS: "token" in every theorem is a token of the shared model '
              'tokeniser splitTex and "brace level 0" / "special character" in Spec.tokenCase are those of the shared scanner scan (both C12 models); C04_matches_spec and '
              'C04_case_of_token are therefore proved modulo these two, which C12 characterises separately. For the CASE RULE the dependence is discharged: the scanner-free '
              'restatement of bibtex.web\'s von_token_found (Spec.tokenCaseBibtex) is proved equal to Spec.tokenCase, and is_von_name proved to answer by it, on every token '
              'within 100 nesting levels (C04_case_bibtex_partial; beyond: C04_overnested_case, pybtex\'s scanner limit). This needed the repair C04-3: before it a backslash '
              'at brace level 1 inside an ordinary group ({x\\y}von) was taken for a special character - code, model and the scanner-following rule agreed, only the '
              'scanner-free rule and the oracle clause case_as_bibtex (a transliteration of von_token_found in the harness) show it. The model follows the code WITH C04-3. '
              'C04_groups_never_split needs balanced braces.')
