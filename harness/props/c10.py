"""C10 -- the .bib reader is total: located pybtex errors only, confined to the bad entry."""
import io as _io
import itertools
import re

import compat  # noqa: F401
import bibgen
from props.base import corpus_for  # noqa: F401
from props import c01

ID = 'C10'
HANG_CLAUSE = 'total'     # the property promises termination: a case that does not return is a failing input
CASE_TIMEOUT = 10
LEAN_MODULES = ['PybtexModel.Props.C10', 'PybtexModel.Props.C10b']
DRV = ['C01', 'C10']     # the bibparse op of the C01 driver module, c10case and c10render of its own
THEOREMS = {
    'C10_total': 'total: for every text, mode, wanted-set, macro table the reader model never runs out of fuel or takes an impossible branch (no error of kind internal reported or raised); when nothing is raised the whole text was read (no "@" left)',
    'C10_total_wellnested': 'total: ONLY with well nested initial macro values (VOK; the month names are) the BibTeXError of Person() (nesting > 100) is never reported or raised, so continue mode raises nothing at all: values read are balanced and at most 100 deep, every name piece is a segment of such a value',
    'C10_located': 'located (bounds): every syntax error reported or raised carries a line number l with 1 <= l <= 1 + number of line breaks of the text',
    'C10_located_exact': "located (exact), about the MODEL's ghost field errAt (unread text recorded by the model's handle_error with every problem; errAt = the pos of pybtex's error_context_info is checked by the correspondence only): for EVERY reported syntax error and the one raised in strict mode that text b is a suffix of the input, the line is 1 + line breaks of the input - line breaks of b (= 1 + line breaks of the consumed prefix unless the cut falls inside a CRLF); for TokenRequired b starts with the offending non-white-space character",
    'C10_located_data_neg': 'located fails for the data errors: DuplicateField, repeated bibliography entry and InvalidNameString are reported with no line at all (kernel-evaluated witness) - known finding C10-data-errors-not-located',
    'C10_modes': 'modes: continue mode raises nothing (but the BibTeXError of Person()); strict mode ends exactly like continue mode when nothing was reported, else raises the first reported problem',
    'C10_prefix_stable': 'confined_before: entries, preamble and problems present after the first k commands are initial segments of those of the complete run (only ever appended)',
    'C10_confined_before_text': "confined_before (textual, SYNTACTIC premise), ONLY for wanted = none with the default month macros and person roles (rests on the C01 printer/parser proof stated for that setting; every setting, operational premise: C10_confined_before_any): for every well-formed document rendering (WFD d L) followed by ANY text x, the document's entries, preamble items and problems are initial segments of what is read from render d L ++ x in continue mode; in strict mode (document without problems) of the database the reader stops with",
    'C10_confined_before_any': 'confined_before (textual), EVERY mode / wanted-set / macro table / person-field list and ANY text a (no document structure needed): if reading a alone raises nothing and reports no PrematureEOF (its last command is not cut off by the end of the text), then for EVERY continuation x the entries, preamble items and problems read from a are initial segments of those read from a ++ x',
    'C10_confined_before_any_nonvacuous': 'non-vacuity in a NON-default setting (wanted-set {k, q}, one macro foo, no person fields): a text with @string, a wanted entry with a reported field, an unwanted entry and a @preamble satisfies the hypotheses; evaluated: its entry, preamble and report come first when a repeated key and a cut-off entry follow',
    'C10_confined_before_any_neg': 'the PrematureEOF hypothesis of C10_confined_before_any cannot be dropped: "@a{k, t = {x y" alone leaves the partial entry k without field, followed by "}}" the entry k has t = x y (kernel-evaluated)',
    'C10_confined_step': 'confined: every command, malformed or not, appends at most one entry and one preamble item to what was read before it and changes nothing else in these lists (a malformed entry leaves at most one partial entry)',
    'C10_scan_local': 'confined_after/locality: every scanner and parse function of LowLevelParser (get_token, required, parse_value_part with nested strings, parse_value, parse_field, parse_entry_body, parse_string_body) is local: if its run on text a did not hit the end of the text (no PrematureEOF) and stopped before it (a character left unread, or a syntax error), then on a ++ c, for every c, it returns the same value / same located error / same state changes and leaves c unread',
    'C10_round_local': 'confined_after/locality: one whole round of the command loop on text a (line counter >= 1) that finds its "@", reports no PrematureEOF and - if an error leaves the reader (strict mode) - raises a non-PrematureEOF error IN FRONT OF AN UNREAD CHARACTER (unread rest non-empty) has, on a ++ c for EVERY c, the same outcome (same entry/preamble item appended, same problems with the same lines, same macro table) with c left unread',
    'C10_round_local_neg': 'confined_after/locality: "the round stopped with a non-empty unread rest" alone is not enough: PrematureEOF inside a string is raised without consuming the scanned text (kernel-evaluated witness "@a{k, t = {x y" vs "@a{k, t = {x y}}"; pybtex does the same)',
    'C10_resync': 'confined_after/resynchronisation: unread text without "@" in front of a continuation c is skipped - the next round behaves exactly as on c alone, the line counter advanced by the line breaks skipped; if c has no "@" either the loop stops',
    'C10_round_independent': 'confined_after/independence: a round does not depend on the entries, preamble items and problems collected before, nor on the absolute line number (lines of new problems shift along), except for the repeated-key check of add_entry: from a state with other problems/preamble items in front and entries inserted the round has the same outcome unless it reports a repeated entry for a key (compared by str.lower(), keyFold) of an inserted entry',
    'C10_confined_after': 'confined_after (positive, all states/texts): if the round on bad ALONE goes on (strict mode: only when it reports nothing), reports no PrematureEOF and leaves no "@" unread, then in the run on bad ++ post everything read from post - entries, preamble, problems (lines shifted), raised error - is exactly what the run on post alone produces from the macro table / wanted-set / unnamed counter bad left; exceptions: (a) bad\'s at most one partial entry, (b) hypothesis: no later repeated-entry report for its key',
    'C10_confined_after_partial': 'confined_after (positive): if moreover the round on bad left macro table, wanted-set and unnamed-entry counter unchanged, the run on post alone is the plain run from the same state: a self-contained malformed entry alters nothing read after it (apart from its own partial entry and later entries reusing its key)',
    'C10_confined_after_head': "confined_after (positive, whole texts), every wanted-set / macro table, but EFFECTIVELY CONTINUE MODE: hypothesis 'the loop goes on after the round on bad' fails in strict mode as soon as bad reports anything (strict stops there: C10_modes); for a head command self-contained as in C10_confined_after_partial, parse_string(bad ++ post) = the round on bad followed by exactly parse_string(post) (lines shifted), unless a later entry reuses the key of bad's partial entry",
    'C10_confined_after_head_strict': 'STRICT-mode complement of the confinement-after theorems, every wanted-set / macro table: if the first round on bad ALONE stops the reader with a raised error e (not PrematureEOF, none reported, raised in front of an unread character), then parse_string(bad ++ post) stops in the same way for EVERY post: same error e and line, same database, problems, macro table, and all of post unread - nothing of post is looked at',
    'C10_confined_after_head_strict_nonvacuous': 'non-vacuity: strict mode on "@misc{k, t = x y}": the round raises the undefined macro x (line 1) in front of " y}"; with "@misc{z, v = 2}" behind it the reader stops identically and the continuation is unread',
    'C10_confined_syntactic': 'confined_after (positive, SYNTACTIC premise): C10_confined_after_partial with both operational hypotheses about the text (no PrematureEOF, no "@" left unread) replaced by the decidable predicate SelfContained bad: exactly one "@", the first bracket behind it is "{" and that brace is closed within bad by brace counting - quotes need not be balanced (an unclosed quoted string runs into the brace: "unbalanced braces"); still assumed: the loop goes on after the round, bad hands on neither macros nor wanted-set nor unnamed counter, no later entry reuses the key of its partial entry',
    'C10_selfContained_round': 'confined_after/bridge: from any loop-top state, in either mode, the round on a SelfContained command reports no PrematureEOF and leaves no "@" unread; in continue mode the loop goes on after it unless Person() raises its nesting error',
    'C10_confined_syntactic_at': 'confined_after/bridge: what a round leaves unread is a suffix of the text behind the "@" it started at, so a command with exactly one "@" leaves no "@" unread (hat from syntax)',
    'C10_confined_syntactic_flat': 'confined_after (positive, syntactic): the instance for flat commands "@ name { body } ws" whose body contains none of { } " @',
    'C10_confined_after_unnamed_neg': 'confined_after: the unnamed-entry counter IS handed on - "@misc{ }" makes a later keyless (itself malformed) entry unnamed-2 instead of unnamed-1 (kernel-evaluated witness, same in pybtex) - the hypothesis of C10_confined_after_partial cannot be dropped',
    'C10_confined_after_wanted_neg': 'confined_after: with wanted_entries the partial entry left by a malformed command still pulls in its crossref target (kernel-evaluated witness, same in pybtex) - the wanted-set hypothesis of C10_confined_after_partial cannot be dropped',
    'C10_confined_lone_at_neg': 'confined_after also fails for a malformed command that is a lone "@": "@" is in NAME_CHARS, the next command is read as an entry of type "@misc" and nothing is reported (kernel-evaluated witness) - NEW finding, the restricted C10_confined_partial of DESIGN.md is false as stated',
    'C10_confined_next_at_neg': 'confined_after fails whenever the "@" of the NEXT command is read as an identifier character: "@misc" directly followed by "@misc{z,...}" gives an entry of type "misc@misc" and no report; "@a(k)" reads "@b" as a field name and loses the next entry (kernel-evaluated witnesses) - known finding C10-next-at-read-as-identifier (generalises the lone "@")',
    'C10_context_refines': 'located/shown (refinement, every text / mode / wanted-set / macro table / person-field list): the reader model run round by round with command_start recorded and every round on an EMPTY report list (parseBibCS, Model/BibContext.lean) returns exactly the final state and raised error of parseBib; the located problems it records are, in order, the problems parseBib reports, at the positions len(text) - len(unread text) of the ghost errAt; the located raised error is the raised one at the position of the final state (rests on the frame property of a round: problems reported before do not influence it)',
    'C10_context_wf': 'located/shown (all inputs): every syntax error the reader model reports or raises has command_start < pos <= len(text): before_error of LowLevelParser.get_error_context is never empty (no IndexError from splitlines()[-1]) and the error_context_info satisfies CtxInfo.WF, the hypothesis of the C16 rendering theorems',
    'C10_context_renderable': 'total/shown (composition with C16_render_total, all inputs, any file name and prefix): every problem the reader model reports and the error it raises is an exception object of one of the eight bib reader classes built with the (command_start, lineno, pos) the reader really has; it satisfies Err.WF, so the model of errors.format_error is defined on it and yields context lines + prefix + str(error) - printing a warning in non-strict mode cannot raise in the model',
    'C10_context_renderable_nonvacuous': "kernel-evaluated: '=' missing in line 2 of an entry starting in line 1 gives command_start 0, pos 20 and the four printed lines (command from its @, offending line, marker under column 8, located WARNING); a second command has its own command_start (20) after a data error; strict mode raises the undefined macro y of 'x @a{k, t = y z}' with command_start 2, pos 13",
    'C10_model_constants_match_source': "[table comparison] change detector: the constants regenerated from /repo on every run equal (a) the model's Pat.*.desc, PrematureEOF / '... expected' messages and error_type strings, and (b) LITERALS restated in the theorem - max_level 100 / level 0 (model: d + 1 > 100 in strLoop), the regular expressions the hand-written matchers stand for, '<INPUT>' - whose agreement with the hand-written matchers is carried by the correspondence check",
    'C10_confined_neg': 'confined_after fails with an "@" inside the malformed entry: witness evaluated in the kernel (bogus entry shadows a later real one) - known finding C10-at-inside-malformed-entry',
}
RULE = ('every string up to the tier length over the token alphabet {@ a b 0 1 { } ( ) " , = # ~ space LF CR}; person fields holding every string of <= 3 name '
        'pieces; every single token-level corruption (delete, duplicate, replace by each token kind, truncate) of one entry of hand-written and of generated '
        'well-formed documents (split context / corrupted command / rest); the same with wanted_entries; seeded random Unicode text; each in capture, strict '
        'and non-strict mode; repeated-key corruptions (key token := a key of the prefix in another case spelling, alone and with a further '
        'corruption); the problems as they are shown (op c10render: error_context_info, str, get_context, format_error, stderr text of '
        'non-strict mode) on multi-line texts with every line break of str.splitlines; family dupxref (wanted_entries given; the corrupted entry has a crossref to a LATER entry nothing else wants; its key := a key of the prefix, so that it is dropped as repeated, or its own key with a token-level corruption; fixed documents and random ones); LowLevelParser used directly (op c10lowlevel: yielded '
        'commands, collecting / raising handle_error, fixed want_entry); non-trivial = text containing "@"; distinct by case JSON')
TRUSTED = ['stderr text of non-strict mode is observed through pybtex.io.stderr redirection',
           'rendering model = Model/Errors.lean of C16 (str.splitlines line-break table, repr() of non-ASCII characters in InvalidNameString messages approximated as stated there); '
           'the literals WARNING: / ERROR: of errors.py and the offset in command_start = pos - 1 are compared by the c10render cases only',
           'the entry-point scan of importlib.metadata behind pybtex.plugin.find_plugin is memoised per process (c01.fast_plugin_lookup)']
ASSUMPTIONS = ['entry keys are folded with str.lower() character by character (Model/UniCase.lean): no U+0130 and no U+03A3 in the generated texts',
               'with wanted_entries the wanted-set is the ASCII-folding CaseInsensitiveSet model: wanted keys and crossref values are ASCII in the generated cases, and the '
               'texts contain no non-ASCII character whose lower case is ASCII (Kelvin sign U+212A) when a wanted-set is given']
SERIAL = False

REPL = ['@', '{', '}', '(', ')', '"', ',', '=', '#', 'x', '1', ' ']


def _err(e):
    """([class, line, message], position): the position (code points consumed when the error was raised) is the third
    component of PybtexSyntaxError.error_context_info; data errors carry none."""
    from pybtex.scanner import PybtexSyntaxError
    c = c01.canon_error(e)
    pos = None
    if isinstance(e, PybtexSyntaxError):
        info = getattr(e, 'error_context_info', None)
        if info is not None:
            pos = info[-1]
    return c, pos


def _capture(text, wanted):
    from pybtex import errors
    from pybtex.database import parse_string
    c01.fast_plugin_lookup()
    try:
        with errors.capture() as captured:
            db = parse_string(text, 'bibtex', wanted_entries=wanted)
        entries, preamble = c01.canon_db(db)
        errs = [_err(e) for e in captured]
        return {'entries': entries, 'preamble': preamble, 'errors': [e for e, _p in errs], 'raised': None,
                'errpos': [p for _e, p in errs], 'raisedpos': None}
    except Exception as e:  # noqa
        c, pos = _err(e)
        return {'entries': None, 'preamble': None, 'errors': None, 'raised': c, 'errpos': None, 'raisedpos': pos}


def _run_mode(text, mode, wanted=None):
    import pybtex.io
    from pybtex import errors
    from pybtex.database import parse_string
    old_strict, old_code, old_err = errors.strict, errors.error_code, pybtex.io.stderr
    c01.fast_plugin_lookup()
    try:
        if mode == 'capture':
            return _capture(text, wanted)
        errors.set_strict_mode(mode == 'strict')
        errors.error_code = 0
        buf = _io.StringIO()
        pybtex.io.stderr = buf
        try:
            db = parse_string(text, 'bibtex', wanted_entries=wanted)
            entries, preamble = c01.canon_db(db)
            r = {'entries': entries, 'preamble': preamble, 'raised': None, 'raisedpos': None}
        except Exception as e:  # noqa
            c, pos = _err(e)
            r = {'entries': None, 'preamble': None, 'raised': c, 'raisedpos': pos}
        if mode == 'nonstrict':
            r['warnings'] = sum(1 for l in buf.getvalue().split('\n') if 'WARNING: ' in l)
            r['error_code'] = errors.error_code
        return r
    finally:
        errors.strict, errors.error_code, pybtex.io.stderr = old_strict, old_code, old_err


def text_of(case):
    if 'text' in case:
        return case['text']
    return case['pre'] + case['bad'] + case['post']


def _render_err(e, prefix):
    """one problem as the exception object shows itself: canonical (class, line, message), error_context_info (command_start, pos),
    str(e), e.get_context(), errors.format_error(e, prefix); a non-pybtex exception while rendering is recorded as render_raised"""
    from pybtex.errors import format_error
    from pybtex.scanner import PybtexSyntaxError
    d = {'err': c01.canon_error(e), 'start': None, 'pos': None}
    if isinstance(e, PybtexSyntaxError):
        info = getattr(e, 'error_context_info', None)
        if info is not None and len(info) == 3:
            d['start'], d['pos'] = info[0], info[2]
    try:
        d['str'] = str(e)
        d['context'] = e.get_context()
        d['format'] = format_error(e, prefix)
    except Exception as x:  # noqa
        d['render_raised'] = 'INTERNAL:' + type(x).__name__
    return d


def _impl_render(case):
    import pybtex.io
    from pybtex import errors
    from pybtex.database import parse_string
    text, wanted = case['text'], case.get('wanted')
    old_strict, old_code, old_err = errors.strict, errors.error_code, pybtex.io.stderr
    c01.fast_plugin_lookup()
    out = {}
    try:
        captured, raised = [], None
        try:
            with errors.capture() as captured:
                parse_string(text, 'bibtex', wanted_entries=wanted)
        except Exception as e:  # noqa
            raised = e
        out['capture'] = {'located': [_render_err(e, 'WARNING: ') for e in captured],
                          'raised': None if raised is None else _render_err(raised, 'ERROR: ')}
        errors.set_strict_mode(False)
        buf = _io.StringIO()
        pybtex.io.stderr = buf
        try:
            parse_string(text, 'bibtex', wanted_entries=wanted)
            out['nonstrict_raised'] = None
        except Exception as e:  # noqa
            out['nonstrict_raised'] = c01.canon_error(e)
        out['capture']['stderr'] = buf.getvalue()
        pybtex.io.stderr = old_err
        errors.set_strict_mode(True)
        try:
            parse_string(text, 'bibtex', wanted_entries=wanted)
            out['strict'] = {'raised': None}
        except Exception as e:  # noqa
            out['strict'] = {'raised': _render_err(e, 'ERROR: ')}
        return out
    finally:
        errors.strict, errors.error_code, pybtex.io.stderr = old_strict, old_code, old_err


def _low_cmd(c):
    command, args = c
    cl = command.lower()
    if cl == 'string':
        return {'kind': 'string', 'name': args[0], 'value': list(args[1])}
    if cl == 'preamble':
        return {'kind': 'preamble', 'value': list(args[0])}
    return {'kind': 'entry', 'command': command, 'key': args[0], 'fields': [[n, list(v)] for n, v in args[1]]}


def _impl_lowlevel(case):
    """LowLevelParser used directly, as Parser.parse_string sets it up (month macros in a CaseInsensitiveDict) but with a handle_error that
    collects (or the default one, which raises) and a fixed want_entry: what the iterator yields, before Parser processes it"""
    from pybtex.database.input.bibtex import LowLevelParser, month_names
    from pybtex.utils import CaseInsensitiveDict, CaseInsensitiveSet
    text, wanted = case['text'], case.get('wanted')
    errs = []
    kw = {'macros': CaseInsensitiveDict(month_names)}
    if not case['strict']:
        kw['handle_error'] = errs.append
    if wanted is not None:
        ws = CaseInsensitiveSet(wanted)
        kw['want_entry'] = lambda key: key in ws or '*' in ws
    p = LowLevelParser(text, **kw)
    cmds, raised = [], None
    try:
        for c in p:
            cmds.append(_low_cmd(c))
    except Exception as e:  # noqa
        raised = _err(e)[0]
    located = [_err(e) for e in errs]
    return {'low': True, 'commands': cmds, 'errors': [e for e, _p in located], 'errpos': [q for _e, q in located], 'raised': raised,
            'pos': p.pos, 'lineno': p.lineno}


def impl(case):
    if case.get('op') == 'c10render':
        return _impl_render(case)
    if case.get('op') == 'c10lowlevel':
        return _impl_lowlevel(case)
    text = text_of(case)
    wanted = case.get('wanted')
    out = {m: _run_mode(text, m, wanted) for m in ('capture', 'strict', 'nonstrict')}
    if 'pre' in case:
        out['ctx'] = {'pre': _capture(case['pre'], wanted), 'clean': _capture(case['pre'] + case['post'], wanted),
                      'prebad': _capture(case['pre'] + case['bad'], wanted)}
    return out


def to_request(case):
    if case.get('op') == 'c10render':
        # the file name the error objects of parse_string carry: the class attribute BaseParser.filename, read from the source on every run
        from pybtex.database.input import BaseParser
        return {'op': 'c10render', 'text': case['text'], 'wanted': case.get('wanted'), 'filename': BaseParser.filename}
    if case.get('op') == 'c10lowlevel':
        return {'op': 'c10lowlevel', 'text': case['text'], 'strict': case['strict'], 'wanted': case.get('wanted')}
    if 'pre' in case:
        return {'op': 'c10case', 'pre': case['pre'], 'bad': case['bad'], 'post': case['post'], 'wanted': case.get('wanted')}
    return {'op': 'bibparse', 'text': text_of(case), 'strict': False, 'wanted': case.get('wanted'), 'both': True}


def _strict_view(m):
    if m['raised'] is not None:
        return {'raised': m['raised'], 'raisedpos': m['raisedpos']}
    return {'raised': None, 'entries': m['entries'], 'preamble': m['preamble']}


def compare_view(io):
    """What is compared with the model: capture result and strict result, with the positions of the located errors."""
    if io.get('low'):                 # op c10lowlevel
        return {k: v for k, v in io.items() if k != 'low'}
    if 'nonstrict_raised' in io:      # op c10render
        return {'capture': io['capture'], 'strict': io['strict']}
    return {'capture': io['capture'], 'strict': _strict_view(io['strict'])}


_COVER = {}     # id(case) -> cover part of the reply (set by model_out, read by buckets: same process, same case object)


def model_out(case, reply):
    if case.get('op') == 'c10render':
        if reply.get('agree') is not True:
            raise AssertionError('C10_context_refines says parseBibCS = parseBib, the driver evaluates otherwise on %r' % (case,))
        return reply['out']
    if case.get('op') == 'c10lowlevel':
        return reply['out']
    m = reply['out']
    if 'cover' in reply:
        _COVER[id(case)] = reply['cover']
    cap = dict(m['capture'])
    if cap['raised'] is not None:      # the BibTeXError of Person() leaves the reader in every mode: nothing else is observable
        cap = {'entries': None, 'preamble': None, 'errors': None, 'raised': cap['raised'], 'errpos': None, 'raisedpos': cap['raisedpos']}
    return {'capture': cap, 'strict': _strict_view(m['strict'])}


def braces_and_quotes_balanced(m):
    """The malformed entry's own braces and quotes are balanced, read as BibTeX reads them: a '"' at the level of the
    entry body opens a string that ends at the next '"' at the same brace level; braces nest everywhere; a '"' inside
    braces is an ordinary character."""
    mo = re.match(r'@\s*[^\s{(]*\s*([{(])', m)
    body_depth = 1 if (mo and mo.group(1) == '{') else 0
    d = 0
    in_str = False
    str_depth = 0
    for c in m:
        if c == '{':
            d += 1
        elif c == '}':
            d -= 1
            if d < 0 or (in_str and d < str_depth):
                return False
        elif c == '"':
            if in_str and d == str_depth:
                in_str = False
            elif not in_str and d == body_depth:
                in_str = True
                str_depth = d
    return d == 0 and not in_str and m.count('(') == m.count(')')


SYNTAX_CLASSES = ('TokenRequired', 'PrematureEOF', 'PybtexSyntaxError', 'UndefinedMacro')
DATA_CLASSES = ('DuplicateField', 'BibliographyDataError', 'InvalidNameString')


def count_nl(s):
    """line breaks as Scanner.update_lineno counts them: CRLF is one"""
    return len(re.findall(r'\r\n|\r|\n', s))


def _located(fails, text, what, e, pos_model, pos_impl):
    """The clause "errors carry the line of the offending construct" for one syntax error: the line must be the line of
    the position at which the error was raised = 1 + line breaks of the text consumed up to there (C10_located_exact).
    The position is the one the error object itself carries (error_context_info); when it carries none, the position
    the reader model gives for the same problem.  (An error raised at ANOTHER position than in the model is a
    disagreement between model and implementation, not a wrong line: it is judged by its own position.)"""
    nlines = 1 + count_nl(text)
    if e[1] is None or not (1 <= e[1] <= nlines):
        fails.append('located: %s %r for %r which has %d lines' % (what, e, text[:200], nlines))
        return
    for src, pos in (('its own error_context_info', pos_impl), ('the reader model', pos_model)):
        if pos is not None and 0 <= pos <= len(text):
            want = nlines - count_nl(text[pos:])
            if e[1] != want:
                fails.append('located: %s %r carries line %d, but it was raised at position %d (according to %s), which is in line %d of %r' % (
                    what, e, e[1], pos, src, want, text[:200]))
            return


def cover_of(reply):
    return (reply or {}).get('cover') or {}


def _oracle_render(case, io, reply):
    """Clauses of the property on the rendering of the problems: in non-strict mode every problem is printed from inside parse_string
    (report_error -> print_error -> format_error -> get_context -> get_error_context), so a non-pybtex exception while rendering is an
    internal exception of the reader; the located clause is the one of the reading cases."""
    fails = []
    text = case['text']
    mloc = (((reply or {}).get('out') or {}).get('capture') or {}).get('located') or []
    loc = io['capture']['located']
    aligned = len(mloc) == len(loc) and all(m['err'][0] == e['err'][0] and m['err'][2] == e['err'][2] for m, e in zip(mloc, loc))
    for i, d in enumerate(loc):
        if 'render_raised' in d:
            fails.append('total: showing the reported problem %r of %r raised %s' % (d['err'], text[:200], d['render_raised']))
        if d['err'][0].startswith('INTERNAL'):
            fails.append('total: reported a non-pybtex error %r' % (d['err'],))
        if d['err'][0] in SYNTAX_CLASSES:
            _located(fails, text, 'reported', d['err'], mloc[i]['pos'] if aligned else None, d['pos'])
    for what, d in (('capture', io['capture']['raised']), ('strict', io['strict']['raised'])):
        if d is None:
            continue
        if d['err'][0].startswith('INTERNAL'):
            fails.append('total: reading %r in %s mode raised %s' % (text[:200], what, d['err'][0]))
        elif 'render_raised' in d:
            fails.append('total: showing the raised error %r of %r raised %s' % (d['err'], text[:200], d['render_raised']))
    nr = io.get('nonstrict_raised')
    if nr is not None and nr[0].startswith('INTERNAL'):
        fails.append('total: reading %r in nonstrict mode raised %s' % (text[:200], nr[0]))
    return fails


def _oracle_lowlevel(case, io, reply):
    fails = []
    text = case['text']
    m = (reply or {}).get('out') or {}
    if io['raised'] is not None and io['raised'][0].startswith('INTERNAL'):
        fails.append('total: iterating LowLevelParser over %r raised %s' % (text[:200], io['raised'][0]))
    aligned = (m.get('errors') is not None and len(m['errors']) == len(io['errors'])
               and all(a[0] == e[0] and a[2] == e[2] for a, e in zip(m['errors'], io['errors'])))
    for i, e in enumerate(io['errors']):
        if e[0].startswith('INTERNAL'):
            fails.append('total: handle_error got a non-pybtex error %r' % (e,))
        if e[0] in SYNTAX_CLASSES:
            _located(fails, text, 'reported', e, m['errpos'][i] if aligned else None, io['errpos'][i])
    if io['raised'] is not None and io['raised'][0] in SYNTAX_CLASSES:
        _located(fails, text, 'raised', io['raised'], None, io['pos'])
    return fails


def oracle(case, io, reply):
    if case.get('op') == 'c10render':
        return _oracle_render(case, io, reply)
    if case.get('op') == 'c10lowlevel':
        return _oracle_lowlevel(case, io, reply)
    fails = []
    text = text_of(case)
    cap, strict, non = io['capture'], io['strict'], io['nonstrict']
    mcap = ((reply or {}).get('out') or {}).get('capture') or {}
    mstrict = ((reply or {}).get('out') or {}).get('strict') or {}
    for mode in ('capture', 'strict', 'nonstrict'):
        r = io[mode]
        if r['raised'] is not None and r['raised'][0].startswith('INTERNAL'):
            fails.append('total: reading %r in %s mode raised %s' % (text[:200], mode, r['raised'][0]))
    if cap['raised'] is not None:
        if not cap['raised'][0].startswith('INTERNAL'):
            fails.append('modes: capture mode raised %r on %r' % (cap['raised'], text[:200]))
        return fails
    # the model's position is the reference only where model and implementation report the same problem (class and message)
    aligned = (mcap.get('errors') is not None and len(mcap['errors']) == len(cap['errors'])
               and all(m[0] == e[0] and m[2] == e[2] for m, e in zip(mcap['errors'], cap['errors'])))
    for i, e in enumerate(cap['errors']):
        if e[0].startswith('INTERNAL'):
            fails.append('total: reported a non-pybtex error %r' % (e,))
        if e[0] in SYNTAX_CLASSES:
            _located(fails, text, 'reported', e, mcap['errpos'][i] if aligned else None, cap['errpos'][i])
        elif e[0] in DATA_CLASSES and e[1] is None:
            fails.append('located: the problem %r is reported without a line [data error without line] for %r' % (e, text[:200]))
    if strict['raised'] is not None and strict['raised'][0] in SYNTAX_CLASSES:
        same = mstrict.get('raised') is not None and mstrict['raised'][0] == strict['raised'][0] and mstrict['raised'][2] == strict['raised'][2]
        _located(fails, text, 'raised (strict mode)', strict['raised'], mstrict.get('raisedpos') if same else None, strict['raisedpos'])
    if non['raised'] is None:
        if non['entries'] != cap['entries'] or non['preamble'] != cap['preamble']:
            fails.append('modes: non-strict and capture mode read different databases from %r' % text[:200])
        if non['warnings'] != len(cap['errors']) or (non['error_code'] != 0) != (len(cap['errors']) > 0):
            fails.append('modes: non-strict mode printed %d warnings (exit code %d), capture collected %d problems for %r' % (
                non['warnings'], non['error_code'], len(cap['errors']), text[:200]))
    elif not non['raised'][0].startswith('INTERNAL'):
        fails.append('modes: non-strict mode raised %r on %r' % (non['raised'], text[:200]))
    if cap['errors']:
        if strict['raised'] != cap['errors'][0]:
            fails.append('modes: strict mode raised %r, the first captured problem is %r for %r' % (strict['raised'], cap['errors'][0], text[:200]))
    else:
        if strict['raised'] is not None or strict['entries'] != cap['entries']:
            fails.append('modes: strict mode differs from capture mode on error-free %r' % text[:200])
    if 'pre' in case and 'ctx' in io:
        cov = cover_of(reply)
        pre_e = io['ctx']['pre']['entries'] or []
        clean_e = io['ctx']['clean']['entries'] or []
        got = cap['entries']
        balanced = case.get('kind') != 'string' and braces_and_quotes_balanced(case['bad'])
        # "A malformed entry never alters the entries read before it" - in the mode where errors are captured AND in the mode where they are
        # downgraded to warnings: key spelling, type, fields and persons of the entries of the prefix are exactly those read from the prefix alone
        non_e = non.get('entries')
        if non['raised'] is None and non_e is not None and non_e[:len(pre_e)] != pre_e:
            fails.append('confined_before: (non-strict mode) a malformed entry altered the entries before it: pre=%r bad=%r' % (case['pre'][-80:], case['bad']))
        if got[:len(pre_e)] != pre_e:
            fails.append('confined_before: a malformed entry altered the entries before it: pre=%r bad=%r' % (case['pre'][-80:], case['bad']))
        elif balanced:
            after_want = clean_e[len(pre_e):]
            after_got = got[len(pre_e):]
            partial_keys = {e['key'].lower() for e in after_got} - {e['key'].lower() for e in after_want}
            # the only entries excused are the malformed entry's OWN (partial) ones: when the implementation reads the command to its end
            # within pre + bad (no PrematureEOF there: it is not cut off, the text behind it cannot become part of it) and stores no entry
            # for it (the entries of pre + bad are those of pre: the command was dropped, e.g. as a repeated entry), then nothing that is
            # read behind it can be its partial entry
            prebad0 = io['ctx'].get('prebad') or {}
            if (prebad0.get('entries') is not None and prebad0['entries'] == pre_e
                    and not any(e[0] == 'PrematureEOF' for e in prebad0.get('errors') or [])):
                partial_keys = set()
            rest = [e for e in after_got if e['key'].lower() not in partial_keys]
            if rest != after_want:
                # the two recorded mechanisms, recognised by what the reader model does on the malformed command ALONE
                # (driver op c10case): an "@" is left unread behind the point of the error / the command is a lone "@"
                at_inside = '@' in case['bad'][1:] and cov.get('hround') is True and cov.get('hat') is False
                lone_at = case['bad'].strip() == '@'
                # ... / the round that reads the malformed command consumes the "@" of the NEXT command as an identifier character
                swallowed = cov.get('swallow') is True
                fails.append('confined_after: a balanced malformed entry altered the entries after it%s: bad=%r got keys %r want keys %r' % (
                    ' [@ left unread inside the malformed entry]' if at_inside else (' [lone @]' if lone_at else (
                        ' [@ of the next command read as an identifier]' if swallowed else '')), case['bad'],
                    [e['key'] for e in after_got], [e['key'] for e in after_want]))
        prebad_e = (io['ctx'].get('prebad') or {}).get('entries')
        if cov.get('covered') and got[:len(pre_e)] == pre_e and prebad_e is not None and prebad_e[:len(pre_e)] == pre_e:
            # The premise of the clause in the form in which it is PROVED (C10_confined_syntactic / C10_confined_after_partial): on
            # the reader model the round on the malformed command alone goes on, reports no PrematureEOF and leaves no "@" unread
            # (both implied by the syntactic predicate SelfContained: one "@", first bracket "{", that brace closed), hands nothing
            # on, and no later entry reuses the key of its partial entry.  The conclusion, on the implementation's own results:
            # behind the entries the implementation reads from pre + bad, the entries are those it reads without bad.
            nbad = len(prebad_e) - len(pre_e)
            if got[len(pre_e) + nbad:] != clean_e[len(pre_e):]:
                fails.append('confined_after: a self-contained malformed command (%s; hypotheses of C10_confined_after_partial hold on the reader model) '
                             'altered the entries after it: bad=%r got keys %r (the first %d read from the malformed command) want keys %r' % (
                                 'SelfContained: one "@", its "{" is closed' if cov.get('selfContained') else 'not SelfContained syntactically',
                                 case['bad'], [e['key'] for e in got[len(pre_e):]], nbad, [e['key'] for e in clean_e[len(pre_e):]]))
    return fails


KNOWN_MATCHERS = {
    'C10-lone-at-swallows-next-command': lambda case, io, f: f.startswith('confined_after:') and '[lone @]' in f and case.get('bad', '').strip() == '@',
    'C10-at-inside-malformed-entry': lambda case, io, f: (f.startswith('confined_after:') and '[@ left unread inside the malformed entry]' in f
                                                           and '@' in case.get('bad', '')[1:]),
    'C10-next-at-read-as-identifier': lambda case, io, f: (f.startswith('confined_after:') and '[@ of the next command read as an identifier]' in f
                                                            and '@' in case.get('post', '')),
    'C10-data-errors-not-located': lambda case, io, f: (f.startswith('located:') and '[data error without line]' in f
                                                         and any(('%r' % (e,)) in f for e in (io['capture'].get('errors') or [])
                                                                 if e[0] in DATA_CLASSES and e[1] is None)),
}


def buckets(case, io):
    if case.get('op') == 'c10render':
        loc = io['capture']['located']
        b = ['fam:render'] + sorted({'render:' + d['err'][0] for d in loc}) or ['fam:render', 'render:clean']
        for d in loc:
            if d.get('context'):
                ctx = d['context'].split('\n')
                b.append('render:context-lines=%s' % (len(ctx) - 1 if len(ctx) < 5 else '4+'))
                b.append('render:marker=%s' % ('^^' if ctx[-1] == '^^' else '^^^'))
        if io['capture']['raised'] is not None or io['strict']['raised'] is not None:
            b.append('render:raised')
        if case.get('wanted') is not None:
            b.append('wanted')
        return b
    if case.get('op') == 'c10lowlevel':
        b = ['fam:lowlevel', 'lowlevel:' + ('strict' if case['strict'] else 'collect')] + sorted({'lowlevel:yield-' + c['kind'] for c in io['commands']})
        if io['raised'] is not None:
            b.append('lowlevel:raised')
        return b
    cap = io['capture']
    b = []
    if cap.get('errors'):
        b += sorted({'err:' + e[0] for e in cap['errors']})
    else:
        b.append('clean')
    if 'pre' in case:
        b.append('corruption:' + case.get('cop', '?').split('/')[0])
        cov = _COVER.pop(id(case), None)
        if cov is not None:
            # how many (context, corruption) pairs the positive theorem C10_confined_after_partial covers, and which hypothesis fails otherwise
            why = 'yes' if cov.get('covered') else 'no:' + next((h for h in ('hround', 'preOk', 'hE', 'hat', 'hmac', 'hun', 'hw', 'hK') if cov.get(h) is False), '?')
            b.append('theorem-covers:' + why)
            # the SYNTACTIC premise of C10_confined_syntactic (one "@", first bracket "{", that brace closed by brace counting)
            b.append('syntactic-premise:' + ('yes' if cov.get('selfContained') else 'no'))
            if cov.get('selfContained') and cov.get('hround') and not (cov.get('hE') and cov.get('hat')):
                raise AssertionError('C10_confined_syntactic says SelfContained => hE and hat, the driver evaluates otherwise on %r' % (case,))
            if case.get('kind') != 'string' and braces_and_quotes_balanced(case['bad']):
                b.append('balanced&theorem-covers:' + why)
    if case.get('wanted') is not None:
        b.append('wanted')
    if case.get('fam'):
        b.append('fam:' + case['fam'])
    return b


def valid_case(case):
    """for the shrinker: a (context, corruption) triple stays one - the context in front is a sequence of complete commands (reading it alone
    hits no premature end of the text) and the corrupted command still starts at its "@" """
    if 'pre' in case:
        if not case['bad'].startswith('@'):
            return False
        r = _capture(case['pre'], case.get('wanted'))
        if r['errors'] is None or any(e[0] == 'PrematureEOF' for e in r['errors']):
            return False
    return True


def nontrivial(case, io):
    return '@' in text_of(case)


def corpus():
    return corpus_for(ID)


TOKEN_RE = re.compile(r'[A-Za-z0-9_.:/\-]+|\s+|.', re.S)


def corruptions(entry_text):
    toks = TOKEN_RE.findall(entry_text)
    for i, t in enumerate(toks):
        yield 'delete', ''.join(toks[:i] + toks[i + 1:])
        yield 'duplicate', ''.join(toks[:i + 1] + toks[i:])
        yield 'truncate', ''.join(toks[:i])
        for r in REPL:
            if r != t:
                yield 'replace', ''.join(toks[:i] + [r] + toks[i + 1:])


BASE_DOCS = [
    ('@string{jv = "J V"}\n@article{first, title = {T one}, year = 1990}\n',
     '@book{Mid:2, author = "Knuth, Donald E. and Lamport, L.", title = {A {B} c} # jv, month = feb, year = 1993,}',
     '\n@misc{last, note = jv # " x", year = "2001"}\n@misc(last2, note={n})\n'),
    ('@misc{a, t = {x}}\n', '@misc(b, t = "q {"} q" # jan # {z})', '\ntext @comment{c} @misc{c, u = 1}\n'),
    ('', '@string{mac = {val}}', '\n@misc{u, t = mac}\n'),
    ('@a{p1, t = 0012}\r\n@preamble{"pre"}\r', '@b{k~1, editor = {de la Cruz, Jr, Ana-Mar{\\"\\i}a AND others}, n = 007 # {~}}', '\r@c{q1}\r\n@c(q2 )'),
]
# the same with wanted_entries (the corrupted entry wanted / not wanted / pulled in by a crossref of an entry before it)
WANTED_DOCS = [
    (0, ['last', 'MID:2']), (0, ['first', 'last2']), (1, ['*']), (1, ['c']),
]
CROSSREF_DOC = ('@misc{a, crossref = {B}, t = {x}}\n', '@misc(b, t = "q" # undefinedmacro # {z}, crossref = "c")', '\n@misc{c, u = undefined2}\n@misc{d, u = undefined3}\n')

# family dupxref: the corrupted entry carries a crossref field whose target comes LATER in the text and is wanted by nothing else; its key
# token is replaced by a key of the prefix (repeated entry: reported and dropped), read with wanted_entries that do / do not hold the repeated
# key, the target, '*'.  A dropped entry must not decide which of the entries behind it are read.
XREF_DUP_DOCS = [
    ('@article{knuth84, title = {LP}, year = 1984}\n',
     '@article{lit2, crossref = {tex-book}, title = {LP again}}',
     '\n@book{tex-book, title = {TB}, year = 1986}\n@book{other, title = {N}}\n',
     [['knuth84'], ['KNUTH84', 'other'], ['knuth84', 'TEX-BOOK'], ['*'], [], ['lit2', 'other']]),
    # parenthesised, the crossref given by a macro in another case spelling than the target's key; the target refers on to a later entry
    # (chain); an accepted entry of the prefix has a crossref of its own
    ('@string{tb = "Chain-1"}\n@misc{a1, t = {x}}\n@misc(b2, crossref = "z9")\n',
     '@misc(c3, u = 1, crossref = tb)',
     ' @misc{chain-1, crossref = {End}} @misc{z9} @misc{end, t = 1}\r\n@misc{free}',
     [['a1'], ['B2', 'a1'], ['b2'], ['A1', 'c3']]),
]
ALPHA = ['@', 'a', '1', '{', '}', '(', ')', '"', ',', '=', '#', ' ', '\n', 'b', '0', '\r', '~']
# name pieces for the person-field family: every string of at most 3 of these is read as an author / editor value
PTOK = ['~', '-', ',', ' ', 'a', 'A', '{}', '\\', 'and']
NAME_EXTRA = ['a, b, c, d', ', , ,', ',,,', 'a,,,b', ',,,,', 'a, b, c, d and e, f, g, h', ' and ', ' and  and ', 'and', ' and and and ', 'a and ', ' and a',
              'and and and', 'a and  and b', '~ and ~', '- and -', '{ and }', ' AND ', 'a And b aNd ~', '~~', '~-~', '\\~', 'a~', '~a', '{~}', '{-}', '-{}-',
              ',~', '~,', '~,~', '~,~,~', '-,-,-', ' , , ', 'a,b,c', 'A,a,A', 'a A', 'A a', 'a a A', 'a {}', '{} a', '\\ a', 'a\\', '{\\a}', '{\\a} a',
              # special characters in von position (is_von_name / special_char_islower: built-in foreign letters, accents over a letter, no letter at all)
              'A {\\i} B', 'A {\\OE} B', 'A {\\ss}x B', "A {\\'e}cole B", "A {\\'E}cole B", 'A {\\"} B', 'A {\\x1y} B', 'A {\\AAx} b', '{\\l}, {\\L}', 'A {x\\i} B',
              '1 {\\o} 2']
WANTED_TEXTS = [
    '@a{k1, t = undef} @a{k2, t = 1}', '@a{k1, crossref = {k3}} @a{k2} @a{k3, t = undef2}', '@a{K1, t = jan # undef}',
    '@a{k1, t = {x} @a{k2, t = 1}', '@a{k2, t = 1, t = 2} @a{k1, author = {a,b,c,d}}', '@string{m = undef} @a{k1, t = m} @a{k2, t = m}',
    '@a{k1, t = undef, u = } @a{k2, u = undef # undef}', '@a{k3, t = u1}\n@a{k1, crossref = k3x}\n@a{k3, t = u2}', '@a{k1} @a{K1} @a{k2} @a{k2}',
    '@a(k2, crossref = "K1") @a{k1, t = u1, crossref = {k3}} @a{k3, t = u3}', '@a{k1, t = "x" u} @a{k2, t = {y} v w}', '@a{, t = u} @a{ } @a{k1, t = v}',
]
WANTED_SETS = [[], ['k1'], ['k2'], ['K1', 'k3'], ['*'], ['k1', 'k2', 'k3'], ['unnamed-1'], ['K2', '*']]


KEY_RE = re.compile(r'(@\s*[^\s{(@]+\s*[{(]\s*)([^\s,})]+)', re.S)
PRE_KEY_RE = re.compile(r'@\s*(?!string|preamble|comment)[A-Za-z]+\s*[{(]\s*([^\s,})]+)', re.I)


def other_case(k):
    """the key in another case spelling (the same key for the reader: keys are case-insensitive)"""
    for cand in (k.swapcase(), k.upper(), k.lower(), k.title()):
        if cand != k and cand.lower() == k.lower():
            return cand
    return k


def with_key(entry_text, key):
    """the entry command with its key token replaced by `key`; None when the text has no key token"""
    mo = KEY_RE.match(entry_text)
    if not mo:
        return None
    return entry_text[:mo.start(2)] + key + entry_text[mo.end(2):]


def dupkey_corruptions(pre, entry, every=1):
    """replace the key token of `entry` by each key of the prefix `pre` in another case spelling; then every single-token corruption of that"""
    for k in PRE_KEY_RE.findall(pre):
        for kk in (other_case(k), k):
            dup = with_key(entry, kk)
            if dup is None:
                continue
            yield 'dupkey', dup
            for i, (cop, bad) in enumerate(corruptions(dup)):
                if i % every == 0:
                    yield 'dupkey+' + cop, bad


def _one_corruption(rng, toks):
    i = rng.randrange(len(toks))
    op = rng.choice(['delete', 'duplicate', 'replace', 'truncate'])
    if op == 'delete':
        return op, toks[:i] + toks[i + 1:]
    if op == 'duplicate':
        return op, toks[:i + 1] + toks[i:]
    if op == 'truncate':
        return op, toks[:i]
    return op, toks[:i] + [rng.choice(REPL)] + toks[i + 1:]


XREF_KEYS = ['k1', 'K2', 'ab', 'x-y', 'n:3', 'Zed', 'q', 'r2d2']


def _xref_case(rng):
    n = rng.randint(3, 6)
    keys = rng.sample(XREF_KEYS, n)
    i = rng.randint(1, n - 2)
    ents = []
    for j, k in enumerate(keys):
        fields = ['t = %s' % rng.choice(['{x}', '"A {B}"', '12', 'jan'])] if rng.random() < 0.6 else []
        later = keys[j + 1:]
        if later and (j == i or rng.random() < 0.4):
            tgt = rng.choice(later)
            if rng.random() < 0.3:
                tgt = other_case(tgt)
            fields.insert(rng.randint(0, len(fields)), 'crossref = ' + rng.choice(['{%s}', '"%s"']) % tgt)
        o, c = rng.choice(['{}', '()']) if fields else '{}'     # '@a(k)' is not a valid entry for this reader: the key pattern takes 'k)'
        ents.append('@%s%s%s%s%s' % (rng.choice(['misc', 'Book', 'a']), o, k, ''.join(', ' + f for f in fields), c))
    sep = rng.choice(['\n', ' ', '\r\n', '\n\n'])
    bad, cop = ents[i], 'xref'
    if rng.random() < 0.75:
        k = rng.choice(keys[:i])
        bad, cop = with_key(bad, other_case(k) if rng.random() < 0.5 else k), 'dupkey'
        if bad is None:
            return None
    if cop == 'xref' or rng.random() < 0.4:
        c2, toks2 = _one_corruption(rng, TOKEN_RE.findall(bad))
        if toks2 and toks2[0] == '@':
            bad, cop = ''.join(toks2), cop + '+' + c2
    wanted = [other_case(k) if rng.random() < 0.3 else k for k in keys if rng.random() < 0.4]
    if rng.random() < 0.1:
        wanted.append('*')
    return {'op': 'bibparse', 'pre': ''.join(e + sep for e in ents[:i]), 'bad': bad, 'post': ''.join(sep + e for e in ents[i + 1:]),
            'kind': 'entry', 'cop': cop + '/random/wanted', 'wanted': wanted, 'fam': 'dupxref'}


def gen_cases(tier, rng, info):
    cases = []
    quick = tier == 'quick'
    nstr = 0
    # -- every short string over the token alphabet
    full = 3 if quick else 4          # every string up to this length
    for n in range(0, full + 1):
        for tup in itertools.product(ALPHA, repeat=n):
            cases.append({'op': 'bibparse', 'text': ''.join(tup)})
            nstr += 1
    if quick:                         # one character more: every string of that length with an "@" (without one the reader does nothing)
        for tup in itertools.product(ALPHA, repeat=full + 1):
            if '@' in tup:
                cases.append({'op': 'bibparse', 'text': ''.join(tup)})
                nstr += 1
    else:                             # ... with the "@" in the first or second place
        for tup in itertools.product(ALPHA, repeat=full):
            cases.append({'op': 'bibparse', 'text': '@' + ''.join(tup)})
            nstr += 1
        for c in ALPHA[1:]:
            for tup in itertools.product(ALPHA, repeat=full - 1):
                cases.append({'op': 'bibparse', 'text': c + '@' + ''.join(tup)})
                nstr += 1
    for h, k in (('@a{', 2 if quick else 3), ('@a{a,', 2), ('@a{a,a=', 2 if quick else 3)):      # ... and behind the head of an entry
        for tup in itertools.product(ALPHA, repeat=k):
            cases.append({'op': 'bibparse', 'text': h + ''.join(tup)})
            nstr += 1
    # -- person fields: Person() on degenerate names (ties, hyphens, commas, empty groups, lone backslashes, separators only)
    names = [''.join(t) for n in range(0, 4) for t in itertools.product(PTOK, repeat=n)] + NAME_EXTRA
    nname = 0
    for i, nm in enumerate(names):
        cases.append({'op': 'bibparse', 'text': '@a{k, author = {%s}}' % nm, 'fam': 'person'})
        nname += 1
        if not quick or i % 3 == 0:
            cases.append({'op': 'bibparse', 'text': '@a(k, editor = "%s" # {%s}) @b{j}' % (nm, nm[::-1].replace('}{', '{}')), 'fam': 'person'})
            nname += 1
    # deep nesting: names and values nested 99 / 100 / 101 / 150 deep (the name scanner has a nesting limit; unbounded recursion is excluded by the property)
    # ... and far beyond the interpreter's own recursion limit (about 1000 frames): the reader's nesting guard must answer first
    for depth in (99, 100, 101, 150, 1200, 6000):
        deep = '{' * depth + 'x' + '}' * depth
        if depth > 1000:
            cases.append({'op': 'bibparse', 'text': '@a{j, t = {before}} @preamble{%s} @a{k, t = {after}}' % deep})
            cases.append({'op': 'bibparse', 'text': '@a{j, t = {before}}\n@a{k, note = "%s"}\n@a{l, t = {after}}' % deep})
        for t in ('@a{k, author = %s}' % deep, '@a{k, author = {A %s and B}}' % deep, '@a{k, t = %s # "q"}' % deep, '@a{k, editor = "%s"}' % deep,
                  '@string{m = %s} @a{k, author = m}' % deep):
            cases.append({'op': 'bibparse', 'text': t})
    # -- (context, corruption) pairs
    ncorr = 0
    for di, (pre, entry, post) in enumerate(BASE_DOCS):
        kind = 'string' if entry.lower().startswith('@string') else 'entry'
        cs = list(corruptions(entry))
        for cop, bad in cs:
            cases.append({'op': 'bibparse', 'pre': pre, 'bad': bad, 'post': post, 'kind': kind, 'cop': cop})
            ncorr += 1
        # the same document with the three parts on ONE physical line (the next command starts on the line of the error)
        cs = list(corruptions(entry))
        if quick:
            cs = cs[1::2]
        for cop, bad in cs:
            cases.append({'op': 'bibparse', 'pre': pre.rstrip('\r\n') + ' ', 'bad': bad, 'post': ' ' + post.lstrip('\r\n'), 'kind': kind, 'cop': cop + '/same-line'})
            ncorr += 1
    # -- repeated key: the key token of the corrupted entry replaced by a key of the PREFIX in another case spelling (keys are compared
    # case-insensitively: the command is reported as a repeated entry), alone and with every further single-token corruption
    ndup = 0
    for di, (pre, entry, post) in enumerate(BASE_DOCS):
        for cop, bad in dupkey_corruptions(pre, entry, every=5 if quick else 1):
            cases.append({'op': 'bibparse', 'pre': pre, 'bad': bad, 'post': post, 'kind': 'entry', 'cop': cop, 'fam': 'dupkey'})
            ndup += 1
    for di, wanted in ((0, ['first', 'last']), (0, ['*']), (1, ['A', 'c']), (3, ['P1', 'q2'])):
        pre, entry, post = BASE_DOCS[di]
        for cop, bad in dupkey_corruptions(pre, entry, every=11 if quick else 2):
            cases.append({'op': 'bibparse', 'pre': pre, 'bad': bad, 'post': post, 'kind': 'entry', 'cop': cop + '/wanted', 'wanted': wanted, 'fam': 'dupkey'})
            ndup += 1
    nxref = 0
    for pre, entry, post, wsets in XREF_DUP_DOCS:
        for wanted in wsets:
            for cop, bad in dupkey_corruptions(pre, entry, every=9 if quick else 1):
                cases.append({'op': 'bibparse', 'pre': pre, 'bad': bad, 'post': post, 'kind': 'entry', 'cop': cop + '/wanted', 'wanted': wanted, 'fam': 'dupxref'})
                nxref += 1
            # ... and the entry with its own key (accepted unless corrupted): every single-token corruption
            cs = list(corruptions(entry))
            for cop, bad in (cs[3::7] if quick else cs):
                cases.append({'op': 'bibparse', 'pre': pre, 'bad': bad, 'post': post, 'kind': 'entry', 'cop': cop + '/wanted', 'wanted': wanted, 'fam': 'dupxref'})
                nxref += 1
    nwant = 0
    for di, wanted in WANTED_DOCS:
        pre, entry, post = BASE_DOCS[di]
        cs = list(corruptions(entry))
        for cop, bad in (cs[2::4] if quick else cs):
            cases.append({'op': 'bibparse', 'pre': pre, 'bad': bad, 'post': post, 'kind': 'entry', 'cop': cop + '/wanted', 'wanted': wanted})
            nwant += 1
    pre, entry, post = CROSSREF_DOC
    for wanted in (['a'], ['A', 'd'], ['c'], ['*']):
        cs = list(corruptions(entry))
        for cop, bad in (cs[1::3] if quick else cs):
            cases.append({'op': 'bibparse', 'pre': pre, 'bad': bad, 'post': post, 'kind': 'entry', 'cop': cop + '/wanted', 'wanted': wanted})
            nwant += 1
    for t in WANTED_TEXTS:
        for w in WANTED_SETS:
            cases.append({'op': 'bibparse', 'text': t, 'wanted': w})
            nwant += 1
    info['exhaustive'] = True
    info['scope'] = ('%d strings over %r: every string of length <= %d, every string of length %d with an "@" (thorough: length %d with the "@" in first or second place), 2-3 more '
                     'characters behind "@a{" / "@a{a," / "@a{a,a="; %d person fields holding every string of <= 3 pieces out of %r (+ %d hand-picked degenerate names), braced and quoted; '
                     '%d single-token corruptions (delete / duplicate / replace by each token kind / truncate) of one entry in %d base documents, parts on '
                     'separate lines and on one line; %d cases with wanted_entries (corruptions of wanted / unwanted / cross-referenced entries, undefined '
                     'macros and data errors in unwanted entries); %d repeated-key corruptions (key token of the corrupted entry := a key of the prefix, same '
                     'or other case spelling, alone and with every further single-token corruption, with and without wanted_entries); %d cases of family dupxref (%d documents whose '
                     'corrupted entry has a crossref to a LATER entry nothing else wants, read with wanted_entries: key := a key of the prefix + further corruption, and plain corruptions)'
                     % (nstr, ALPHA, full, full + 1, full + 1, nname, PTOK, len(NAME_EXTRA), ncorr, len(BASE_DOCS), nwant, ndup, nxref, len(XREF_DUP_DOCS)))
    # -- random
    pool = ALPHA * 3 + ['@misc', '@string', '@preamble', '@comment', 'key', 'title', ' = ', '{a}', '"b"', ' # ', 'jan', 'é', '–', '\r\n', '\r',
                        ' ', '\x0b', 'author', ' and ', ',,', '{{', '}}', '\\', '%', 'ß', '٣', '@@', '0012', '~', '-', ' AND ', 'editor = {~}', 'key', 'KEY',
                        '\xa0', '\u2028', '\x85', 'crossref = key', 'b', '李', '@a{\xc4x,}', '@b{\xe4X, t = 1}', '\xc4', '\xe4', '\u01c5', '\u01c6']
    for i in range(4000 if quick else 100000):
        c = {'op': 'bibparse', 'text': ''.join(rng.choice(pool) for _ in range(rng.randint(1, 25)))}
        if i % 5 == 4:
            c['wanted'] = rng.choice([['key'], ['KEY', 'a'], ['*'], [], ['a', 'b', '1']])
        cases.append(c)
    # corrupted renderings of generated documents: one command corrupted, split pre / bad / post at the command (the documents are
    # valid, i.e. without repeated keys: the property speaks of corruptions of valid renderings)
    for _ in range(1000 if quick else 20000):
        doc = bibgen.gen_doc(rng, rich=True, fold_unicode_keys=False)
        idx = [i for i, c in enumerate(doc) if c['k'] in ('entry', 'string', 'preamble')]
        if not idx:
            continue
        i = rng.choice(idx)
        L = bibgen.Layout([], rng)
        pre, entry, post = (bibgen.render(part, L) for part in (doc[:i], doc[i:i + 1], doc[i + 1:]))
        toks = TOKEN_RE.findall(entry)
        lead = ''
        while toks and toks[0] != '@':      # never the case for a rendered command; keeps bad starting at its "@"
            lead += toks.pop(0)
        cop, toks2 = _one_corruption(rng, toks)
        cases.append({'op': 'bibparse', 'pre': pre + lead, 'bad': ''.join(toks2), 'post': post, 'kind': 'entry' if doc[i]['k'] == 'entry' else 'string',
                      'cop': cop + '/random'})
    # ... and the key of one entry replaced by the key of an EARLIER entry of the same document in another case spelling, half of them with one
    # more token-level corruption
    for _ in range(300 if quick else 6000):
        doc = bibgen.gen_doc(rng, rich=True, fold_unicode_keys=False)
        idx = [i for i, c in enumerate(doc) if c['k'] == 'entry']
        if len(idx) < 2:
            continue
        j, i = sorted(rng.sample(idx, 2))
        L = bibgen.Layout([], rng)
        pre, entry, post = (bibgen.render(part, L) for part in (doc[:i], doc[i:i + 1], doc[i + 1:]))
        at = entry.find('@')
        if at < 0:
            continue
        pre, entry = pre + entry[:at], entry[at:]
        k = doc[j]['key']
        if any(ord(ch) > 127 for ch in k):
            continue
        bad = with_key(entry, other_case(k) if rng.random() < 0.7 else k)
        if bad is None:
            continue
        cop = 'dupkey/random'
        if rng.random() < 0.5:
            c2, toks2 = _one_corruption(rng, TOKEN_RE.findall(bad))
            if toks2 and toks2[0] == '@':
                bad, cop = ''.join(toks2), 'dupkey+' + c2 + '/random'
        cases.append({'op': 'bibparse', 'pre': pre, 'bad': bad, 'post': post, 'kind': 'entry', 'cop': cop, 'fam': 'dupkey'})
    # family dupxref, random: documents whose entries refer to LATER entries by crossref, read with a random wanted-set; one entry (with a
    # crossref to a later entry) gets the key of an earlier entry (repeated: dropped) or keeps its own, and in 40 % one more token-level corruption
    for _ in range(150 if quick else 8000):
        r = _xref_case(rng)
        if r is not None:
            cases.append(r)
    # documents that repeat keys and field names (not valid renderings: no confinement clause), corrupted anywhere
    for _ in range(400 if quick else 10000):
        doc = bibgen.gen_doc(rng, dups=True, rich=True, fold_unicode_keys=True)
        toks = TOKEN_RE.findall(bibgen.render(doc, bibgen.Layout([], rng)))
        if toks:
            cases.append({'op': 'bibparse', 'text': ''.join(_one_corruption(rng, toks)[1])})
    # -- the problems as they are SHOWN (op c10render): command_start / pos of every error object, str(e), get_context(), format_error and the
    # text non-strict mode prints; texts whose commands span several lines, with every kind of line break str.splitlines knows (the context
    # code mixes splitlines() with the scanner's NEWLINE pattern), errors at the very start / end of a line, several commands per line
    rcases = []
    for n in range(0, 4):
        for tup in itertools.product(['@', 'a', '{', '=', '\n', ' '], repeat=n):
            rcases.append('@a{k,' + ''.join(tup))
    LB = ['\n', '\r\n', '\r', '\x0b', '\x0c', '\x1c', '\x1d', '\x1e', '\x85', '\u2028', '\u2029']
    for lb in LB:
        for t in ('@a{k,%st x}', '@a{k, t%s x}', '@a{k, t = 1 x%s}', 'x%s@a{k,%s t = {a%sb},%s u%s}%s@b(j%s u = )', '@a{%s', '@%sa{k, t = 1}%s@{', '@a{k, t = "x%sy" z}%sq',
                  '@string{s%s= }', '@preamble{%s,}', '@a(k, t = 1 %s', 'junk%s@a{k, t = x, t = 2}%s@a{K}%s@b{j, author = {a,b,c,d}, u}'):
            rcases.append(t.replace('%s', lb))
    for di, (pre, entry, post) in enumerate(BASE_DOCS):
        cs = list(corruptions(entry))
        for cop, bad in (cs[di::5] if quick else cs):
            rcases.append(pre + bad + post)
    rpool = pool + LB * 2 + ['\n'] * 6 + ['\n  ', ',\n', ' = ', '{', '}', '@a{k', '@b(j']
    for i in range(1200 if quick else 40000):
        rcases.append(''.join(rng.choice(rpool) for _ in range(rng.randint(1, 25))))
    for i, t in enumerate(rcases):
        c = {'op': 'c10render', 'text': t, 'fam': 'render'}
        if i % 7 == 6:
            c['wanted'] = rng.choice([['key'], ['k', 'a'], ['*'], [], ['K', 'j']])
        cases.append(c)
    # -- LowLevelParser used directly (op c10lowlevel): the commands the iterator yields (raw value parts), collecting and raising handle_error,
    # default and fixed want_entry
    for i, t in enumerate(rcases):
        if i % 2 == 0:
            c = {'op': 'c10lowlevel', 'text': t, 'strict': i % 4 == 0, 'fam': 'lowlevel'}
            if i % 6 == 0:
                c['wanted'] = rng.choice([['key'], ['k', 'a'], ['*'], [], ['K', 'j']])
            cases.append(c)
    # witnesses of the recorded findings (replayed on every run)
    cases.append({'op': 'bibparse', 'pre': '@misc{p, t = 1}\n', 'bad': '@misc{k, t = x y @misc{z, u = 1} }', 'post': '\n@misc{z, v = 2}\n',
                  'kind': 'entry', 'cop': 'witness'})
    cases.append({'op': 'bibparse', 'pre': '@misc{p, t = 1}\n', 'bad': '@', 'post': '\n@misc{z, v = 2}\n', 'kind': 'entry', 'cop': 'witness'})
    cases.append({'op': 'bibparse', 'text': '@a{k, t = 1, T = 2}\n@b{K}\n@c{j, author = {a, b, c, d}}'})
    cases.append({'op': 'bibparse', 'text': '@a{k, t = ' + '{' * 100 + 'x' + '}' * 100 + '}'})
    cases.append({'op': 'bibparse', 'text': '@a{k, t = ' + '{' * 101 + 'x' + '}' * 101 + '}'})
    cases.append({'op': 'bibparse', 'text': '@a{k, t = ' + '{' * 102 + 'x' + '}' * 102 + '} @b{k2, u = 1}'})
    cases.append({'op': 'bibparse', 'text': '@a{k, author = "' + '{' * 100 + 'x' + '}' * 100 + ' Y"}'})
    return cases


LEVEL_TEXT_EXT = (' EXTENSION (Props/C10b.lean, Model/BibContext.lean): the reader with command_start (parseBibCS, every round on an empty report '
                  'list) is proved to compute exactly parseBib and to record the reported problems in order at the positions of errAt '
                  '(C10_context_refines); every syntax error reported or raised has command_start < pos <= len(text) with an "@" at command_start '
                  '(C10_context_wf), hence - composed with C16_render_total - every problem of every run is an exception object on which the model of '
                  'errors.format_error (get_context, LowLevelParser.get_error_context) is defined: printing a warning cannot raise in the model '
                  '(C10_context_renderable); the literals of the reader model equal the constants regenerated from the source '
                  '(C10_model_constants_match_source).')
LEVEL_TEXT = ('Machine-checked proofs (Lean 4) about the function-by-function model of LowLevelParser / Parser (Model/BibParse.lean) for EVERY '
              'text, mode, wanted-set, initial macro table and person-field list (exceptions, named below: C10_confined_before_text - default '
              'setting only, its general counterpart is C10_confined_before_any; the positive confinement-after theorems - effectively continue '
              'mode, strict mode: C10_confined_after_head_strict): the fuel of every loop suffices and no impossible branch is taken, so only '
              'pybtex error kinds occur and the text is read to its end (C10_total); with well nested initial macro values the nesting error of '
              'Person() is unreachable (C10_total_wellnested); every syntax error, reported or raised, carries EXACTLY the line of the position '
              'at which it was raised: the model records the unread text with every problem in a ghost field (meant to be the pos of '
              'error_context_info; that correspondence is checked differentially, not proved) and line = 1 + line breaks of the text - line '
              'breaks of that unread suffix, for TokenRequired the suffix starts with the offending character (C10_located_exact; bounds: '
              'C10_located); the data errors carry no line (C10_located_data_neg, recorded finding); strict reading = continue-mode reading cut '
              'at the first reported problem, same database when there is none (C10_modes); what was read after k commands is only ever extended '
              '(C10_prefix_stable), by at most one entry and one preamble item per command (C10_confined_step); TEXTUALLY, for wanted = none with'
              ' the default month macros and person roles ONLY: the entries / preamble / problems of a well-formed document rendering are an '
              'initial segment of what is read from the rendering followed by ANY text (C10_confined_before_text, via the C01 printer/parser '
              'proof, which is stated for that setting); for EVERY mode / wanted-set / macro table and ANY text a whose reading alone raises '
              'nothing and reports no PrematureEOF, what is read from a is an initial segment of what is read from a ++ x for every x '
              '(C10_confined_before_any, by induction over the rounds with C10_round_local; the PrematureEOF hypothesis cannot be dropped: _neg).'
              ' Confinement AFTER a malformed entry: "balanced braces and quotes" alone is refuted on kernel-evaluated witnesses: an "@" inside '
              'the entry (C10_confined_neg), a lone "@" (C10_confined_lone_at_neg) and, generally, an "@" of the next command read as an '
              'identifier character (C10_confined_next_at_neg); all recorded findings. The POSITIVE statement is proved for every loop-top state '
              'and all texts bad, post (Lemmas/BibLocal.lean): the reader is local (C10_scan_local, C10_round_local, C10_round_local_neg), it '
              'resynchronises at the next "@" (C10_resync), a round depends on earlier entries only through the repeated-key check '
              '(C10_round_independent); hence (C10_confined_after, _partial, _head) if the loop goes on after the round on bad alone (in strict '
              'mode this holds only when bad reports nothing, so for a genuinely malformed bad these are continue-mode statements; strict mode '
              'stops at the first report, C10_modes; precisely, when the round on bad raises e in strict mode, bad ++ post raises the same e with'
              ' the same database and post unread: C10_confined_after_head_strict), that round reports no PrematureEOF and leaves no "@" unread, '
              'everything read from post in bad ++ post is exactly what is read from post alone, except for a later entry that reuses the key of '
              'the partial entry of bad; the two hypotheses about the text follow from the syntactic premise SelfContained '
              '(C10_confined_syntactic, C10_selfContained_round, C10_confined_syntactic_at, _flat); the unnamed counter and the wanted-set are '
              'genuinely handed on (C10_confined_after_unnamed_neg, C10_confined_after_wanted_neg). The driver evaluates the hypotheses of '
              'C10_confined_after_partial for every generated (context, corruption) pair; the harness reports how many pairs the theorem covers '
              '(histogram "theorem-covers:*") and checks its conclusion on the implementation.' + LEVEL_TEXT_EXT)
LEVEL_NOTE = ('Trusted: Lean kernel; axioms propext/Classical.choice/Quot.sound at most; the hand-written model corresponds to pybtex only as far'
              ' as the differential check explores (the ops bibparse / c10case end to end; c10render: error_context_info (command_start, pos), str(e), '
              'get_context(), format_error and the stderr text of non-strict mode of every problem; c10lowlevel: the tuples LowLevelParser yields '
              'before Parser processes them - lowLevelIter has NO theorem of its own, it reuses parseCommand / handleError; every string of length <= 3/4 over a 17-symbol alphabet and longer ones behind "@" / an entry'
              ' head, person fields over every <= 3 name pieces, single-token corruptions of base and random documents, wanted_entries cases, '
              'random Unicode; capture and strict mode incl. the positions of the errors). C10_confined_before_text (syntactic premise WFD) is '
              'NOT general in the wanted-set and the macro table (wanted = none, month macros, default roles only; generalising it would need the'
              ' C01 round trip for arbitrary settings); the general statement C10_confined_before_any has an OPERATIONAL premise instead (the run'
              ' on the prefix alone raises nothing and reports no PrematureEOF). C10_round_local additionally requires that an error leaving the '
              "reader is raised in front of an unread character. C10_located_exact is about the model's ghost errAt; errAt = pybtex's pos is "
              'differential only. "Never an internal exception/hang" of CPython itself is sampled, not proved (a case without result within 10 s '
              'is a failing input). The positive confinement-after theorem has operational hypotheses on the round on bad alone; the two about '
              'the TEXT (no PrematureEOF, no "@" left unread) follow from the decidable syntactic predicate SelfContained '
              '(C10_confined_syntactic, C10_selfContained_round: exactly one "@", first bracket "{", that brace closed by brace counting; '
              'parenthesised commands and commands without a body are excluded, cf. C10_confined_next_at_neg); still operational: the loop goes '
              'on after the round (always in continue mode unless Person() raises; in strict mode NEVER when bad reports a problem - then '
              "C10_confined_after_head_strict applies: the run stops at bad's error, post unread) and bad hands on neither macros, wanted-set nor"
              ' unnamed counter. The driver evaluates all hypotheses and the syntactic premise per generated pair (histogram theorem-covers:* / '
              'syntactic-premise:*). The three error modes of errors.report_error (captured / strict / warning) are one Boolean in the model; '
              'capture = non-strict is checked by the oracle only. With wanted_entries the wanted-set is the ASCII-folding set model. A change '
              'that only adds or drops a report for an entry that is NOT wanted violates no clause of this property: it shows as a correspondence'
              ' break without failing input.')
