"""C10 -- the .bib reader is total: located pybtex errors only, confined to the bad entry."""
import io as _io
import itertools
import re

import compat  # noqa: F401
import bibgen
from props.base import corpus_for  # noqa: F401
from props import c01

ID = 'C10'
HANG_CLAUSE = 'total'     # the property promises termination: a case that does not return is a failing input
CASE_TIMEOUT = 10
LEAN_MODULES = ['PybtexModel.Props.C10']
DRV = ['C01']     # uses the bibparse op of the C01 driver module
THEOREMS = {
    'C10_total': 'total: for every text, mode, wanted-set, macro table the reader model never runs out of fuel or takes an impossible branch (no error of kind internal reported or raised); when nothing is raised the whole text was read (no "@" left)',
    'C10_total_wellnested': 'total: with well nested initial macro values (the month names are) the BibTeXError of Person() (nesting > 100) is never reported or raised, so continue mode raises nothing at all: values read are balanced and at most 100 deep, every name piece is a segment of such a value',
    'C10_located': 'located: every syntax error reported or raised carries a line number l with 1 <= l <= 1 + number of line breaks of the text',
    'C10_modes': 'modes: continue mode raises nothing (but the BibTeXError of Person()); strict mode ends exactly like continue mode when nothing was reported, else raises the first reported problem',
    'C10_prefix_stable': 'confined_before: entries, preamble and problems present after the first k commands are initial segments of those of the complete run (only ever appended)',
    'C10_confined_step': 'confined: every command, malformed or not, appends at most one entry and one preamble item to what was read before it and changes nothing else in these lists (a malformed entry leaves at most one partial entry)',
    'C10_scan_local': 'confined_after/locality: every scanner and parse function of LowLevelParser (get_token, required, parse_value_part with nested strings, parse_value, parse_field, parse_entry_body, parse_string_body) is local: if its run on text a did not hit the end of the text (no PrematureEOF) and stopped before it (a character left unread, or a syntax error), then on a ++ c, for every c, it returns the same value / same located error / same state changes and leaves c unread',
    'C10_round_local': 'confined_after/locality: one whole round of the command loop (skip to "@", parse_command with its handle_error, process_entry/process_preamble, handle_error of the loop) on text a that finds its "@" and neither reports nor raises PrematureEOF has, on a ++ c for EVERY c, the same outcome (same entry/preamble item appended, same problems with the same lines, same macro table) with c left unread',
    'C10_round_local_neg': 'confined_after/locality: "the round stopped with a non-empty unread rest" alone is not enough: PrematureEOF inside a string is raised without consuming the scanned text (kernel-evaluated witness "@a{k, t = {x y" vs "@a{k, t = {x y}}"; pybtex does the same)',
    'C10_resync': 'confined_after/resynchronisation: unread text without "@" in front of a continuation c is skipped - the next round behaves exactly as on c alone, the line counter advanced by the line breaks skipped; if c has no "@" either the loop stops',
    'C10_round_independent': 'confined_after/independence: a round does not depend on the entries, preamble items and problems collected before, nor on the absolute line number (lines of new problems shift along), except for the repeated-key check of add_entry: from a state with other problems/preamble items in front and entries inserted the round has the same outcome unless it reports a repeated entry for a key (compared by lower) of an inserted entry',
    'C10_confined_after': 'confined_after (positive, all states/texts): if the round on bad ALONE goes on, reports no PrematureEOF and leaves unread text without "@", then in the run on bad ++ post everything read from post - entries, preamble items, problems (lines shifted by the line breaks before post), raised error - is exactly what the run on post alone produces, started with the macro table / wanted-set / unnamed counter as bad left them; exceptions: (a) the at most one partial entry of bad, (b) hypothesis: no later repeated-entry report for that entry\'s key',
    'C10_confined_after_partial': 'confined_after (positive): if moreover the round on bad left macro table, wanted-set and unnamed-entry counter unchanged, the run on post alone is the plain run from the same state: a self-contained malformed entry alters nothing read after it (apart from its own partial entry and later entries reusing its key)',
    'C10_confined_after_head': 'confined_after (positive, whole texts): for a malformed command at the head of the text that is self-contained in the sense of C10_confined_after_partial, parse_string(bad ++ post) yields what the round on bad yielded followed by exactly what parse_string(post) yields (problem lines shifted by the line breaks of bad), in every mode / wanted-set / macro table',
    'C10_confined_after_unnamed_neg': 'confined_after: the unnamed-entry counter IS handed on - "@misc{ }" makes a later keyless (itself malformed) entry unnamed-2 instead of unnamed-1 (kernel-evaluated witness, same in pybtex) - the hypothesis of C10_confined_after_partial cannot be dropped',
    'C10_confined_after_wanted_neg': 'confined_after: with wanted_entries the partial entry left by a malformed command still pulls in its crossref target (kernel-evaluated witness, same in pybtex) - the wanted-set hypothesis of C10_confined_after_partial cannot be dropped',
    'C10_confined_lone_at_neg': 'confined_after also fails for a malformed command that is a lone "@": "@" is in NAME_CHARS, the next command is read as an entry of type "@misc" and nothing is reported (kernel-evaluated witness) - NEW finding, the restricted C10_confined_partial of DESIGN.md is false as stated',
    'C10_confined_neg': 'confined_after fails with an "@" inside the malformed entry: witness evaluated in the kernel (bogus entry shadows a later real one) - known finding C10-at-inside-malformed-entry',
}
RULE = ('every string up to the tier length over the token alphabet {@ a 1 { } ( ) " , = # space newline}; every single token-level '
        'corruption (delete, duplicate, replace by each token kind, truncate) of one entry of rendered well-formed documents; seeded random '
        'Unicode text; each in capture, strict and non-strict mode; non-trivial = text containing "@"; distinct by case JSON')
TRUSTED = ['stderr text of non-strict mode is observed through pybtex.io.stderr redirection']
ASSUMPTIONS = ['no non-ASCII letters in identifiers']
SERIAL = False

ALPHA = ['@', 'a', '1', '{', '}', '(', ')', '"', ',', '=', '#', ' ', '\n']
REPL = ['@', '{', '}', '(', ')', '"', ',', '=', '#', 'x', '1', ' ']


def _run_mode(text, mode):
    import pybtex.io
    from pybtex import errors
    from pybtex.database import parse_string
    old_strict, old_code, old_err = errors.strict, errors.error_code, pybtex.io.stderr
    try:
        if mode == 'capture':
            return c01.parse_capture(text)
        errors.set_strict_mode(mode == 'strict')
        errors.error_code = 0
        buf = _io.StringIO()
        pybtex.io.stderr = buf
        try:
            db = parse_string(text, 'bibtex')
            entries, preamble = c01.canon_db(db)
            r = {'entries': entries, 'preamble': preamble, 'raised': None}
        except Exception as e:  # noqa
            r = {'entries': None, 'preamble': None, 'raised': c01.canon_error(e)}
        if mode == 'nonstrict':
            r['warnings'] = sum(1 for l in buf.getvalue().split('\n') if 'WARNING: ' in l)
            r['error_code'] = errors.error_code
        return r
    finally:
        errors.strict, errors.error_code, pybtex.io.stderr = old_strict, old_code, old_err


def text_of(case):
    if 'text' in case:
        return case['text']
    return case['pre'] + case['bad'] + case['post']


def impl(case):
    text = text_of(case)
    out = {m: _run_mode(text, m) for m in ('capture', 'strict', 'nonstrict')}
    if 'pre' in case:
        out['ctx'] = {'pre': c01.parse_capture(case['pre']), 'clean': c01.parse_capture(case['pre'] + case['post'])}
    return out


def to_request(case):
    return {'op': 'bibparse', 'text': text_of(case), 'strict': False, 'wanted': None, 'both': True}


def model_out(case, reply):
    return reply['out']


def compare_view(io):
    """What is compared with the model: capture result and strict result."""
    s = io['strict']
    strict = {'raised': s['raised']} if s['raised'] is not None else {'raised': None, 'entries': s['entries'], 'preamble': s['preamble']}
    return {'capture': io['capture'], 'strict': strict}


def _strict_view(m):
    if m['raised'] is not None:
        return {'raised': m['raised']}
    return {'raised': None, 'entries': m['entries'], 'preamble': m['preamble']}


def braces_and_quotes_balanced(m):
    """The malformed entry's own braces and quotes are balanced, read as BibTeX reads them: a '"' at the level of the
    entry body opens a string that ends at the next '"' at the same brace level; braces nest everywhere; a '"' inside
    braces is an ordinary character."""
    mo = re.match(r'@\s*[^\s{(]*\s*([{(])', m)
    body_depth = 1 if (mo and mo.group(1) == '{') else 0
    d = 0
    in_str = False
    str_depth = 0
    for c in m:
        if c == '{':
            d += 1
        elif c == '}':
            d -= 1
            if d < 0 or (in_str and d < str_depth):
                return False
        elif c == '"':
            if in_str and d == str_depth:
                in_str = False
            elif not in_str and d == body_depth:
                in_str = True
                str_depth = d
    return d == 0 and not in_str and m.count('(') == m.count(')')


def oracle(case, io, reply):
    fails = []
    text = text_of(case)
    nlines = 1 + len(re.findall(r'\r\n|\r|\n', text))
    cap, strict, non = io['capture'], io['strict'], io['nonstrict']
    for mode in ('capture', 'strict', 'nonstrict'):
        r = io[mode]
        if r['raised'] is not None and r['raised'][0].startswith('INTERNAL'):
            fails.append('total: reading %r in %s mode raised %s' % (text[:200], mode, r['raised'][0]))
    if cap['raised'] is not None:
        if not cap['raised'][0].startswith('INTERNAL'):
            fails.append('modes: capture mode raised %r on %r' % (cap['raised'], text[:200]))
        return fails
    for e in cap['errors']:
        if e[0].startswith('INTERNAL'):
            fails.append('total: reported a non-pybtex error %r' % (e,))
        if e[0] in ('TokenRequired', 'PrematureEOF', 'PybtexSyntaxError', 'UndefinedMacro'):
            if e[1] is None or not (1 <= e[1] <= nlines):
                fails.append('located: %r reported for %r which has %d lines' % (e, text[:200], nlines))
    if non['raised'] is None:
        if non['entries'] != cap['entries'] or non['preamble'] != cap['preamble']:
            fails.append('modes: non-strict and capture mode read different databases from %r' % text[:200])
        if non['warnings'] != len(cap['errors']) or (non['error_code'] != 0) != (len(cap['errors']) > 0):
            fails.append('modes: non-strict mode printed %d warnings (exit code %d), capture collected %d problems for %r' % (
                non['warnings'], non['error_code'], len(cap['errors']), text[:200]))
    elif not non['raised'][0].startswith('INTERNAL'):
        fails.append('modes: non-strict mode raised %r on %r' % (non['raised'], text[:200]))
    if cap['errors']:
        if strict['raised'] != cap['errors'][0]:
            fails.append('modes: strict mode raised %r, the first captured problem is %r for %r' % (strict['raised'], cap['errors'][0], text[:200]))
    else:
        if strict['raised'] is not None or strict['entries'] != cap['entries']:
            fails.append('modes: strict mode differs from capture mode on error-free %r' % text[:200])
    if 'pre' in case and 'ctx' in io:
        pre_e = io['ctx']['pre']['entries'] or []
        clean_e = io['ctx']['clean']['entries'] or []
        got = cap['entries']
        if got[:len(pre_e)] != pre_e:
            fails.append('confined_before: a malformed entry altered the entries before it: pre=%r bad=%r' % (case['pre'][-80:], case['bad']))
        elif case.get('kind') != 'string' and braces_and_quotes_balanced(case['bad']):
            after_want = clean_e[len(pre_e):]
            after_got = got[len(pre_e):]
            partial_keys = {e['key'].lower() for e in after_got} - {e['key'].lower() for e in after_want}
            rest = [e for e in after_got if e['key'].lower() not in partial_keys]
            if rest != after_want:
                at_inside = '@' in case['bad'][1:]
                lone_at = case['bad'].strip() == '@'
                fails.append('confined_after: a balanced malformed entry altered the entries after it%s: bad=%r got keys %r want keys %r' % (
                    ' [@ inside the malformed entry]' if at_inside else (' [lone @]' if lone_at else ''), case['bad'],
                    [e['key'] for e in after_got], [e['key'] for e in after_want]))
    return fails


KNOWN_MATCHERS = {
    'C10-lone-at-swallows-next-command': lambda case, io, f: f.startswith('confined_after:') and '[lone @]' in f,
    'C10-at-inside-malformed-entry': lambda case, io, f: f.startswith('confined_after:') and '[@ inside the malformed entry]' in f,
}


def buckets(case, io):
    cap = io['capture']
    b = []
    if cap.get('errors'):
        b += sorted({'err:' + e[0] for e in cap['errors']})
    else:
        b.append('clean')
    if 'pre' in case:
        b.append('corruption:' + case.get('cop', '?'))
    return b


def nontrivial(case, io):
    return '@' in text_of(case)


def corpus():
    return corpus_for(ID)


def model_out(case, reply):  # noqa: F811
    m = reply['out']
    return {'capture': m['capture'], 'strict': _strict_view(m['strict'])}


TOKEN_RE = re.compile(r'[A-Za-z0-9_.:/\-]+|\s+|.', re.S)


def corruptions(entry_text):
    toks = TOKEN_RE.findall(entry_text)
    for i, t in enumerate(toks):
        yield 'delete', ''.join(toks[:i] + toks[i + 1:])
        yield 'duplicate', ''.join(toks[:i + 1] + toks[i:])
        yield 'truncate', ''.join(toks[:i])
        for r in REPL:
            if r != t:
                yield 'replace', ''.join(toks[:i] + [r] + toks[i + 1:])


BASE_DOCS = [
    ('@string{jv = "J V"}\n@article{first, title = {T one}, year = 1990}\n',
     '@book{Mid:2, author = "Knuth, Donald E. and Lamport, L.", title = {A {B} c} # jv, month = feb, year = 1993,}',
     '\n@misc{last, note = jv # " x", year = "2001"}\n@misc(last2, note={n})\n'),
    ('@misc{a, t = {x}}\n', '@misc(b, t = "q {"} q" # jan # {z})', '\ntext @comment{c} @misc{c, u = 1}\n'),
    ('', '@string{mac = {val}}', '\n@misc{u, t = mac}\n'),
]


def gen_cases(tier, rng, info):
    cases = []
    maxlen = 4 if tier == 'quick' else 5
    nstr = 0
    for n in range(0, maxlen + 1):
        for tup in itertools.product(ALPHA, repeat=n):
            s = ''.join(tup)
            if n >= 4 and '@' not in s:
                continue      # without '@' the reader does nothing: keep these for short strings only
            cases.append({'op': 'bibparse', 'text': s})
            nstr += 1
    # deep nesting: names and values nested 99 / 100 / 101 / 150 deep (the name scanner has a nesting limit; unbounded recursion is excluded by the property)
    for depth in (99, 100, 101, 150):
        deep = '{' * depth + 'x' + '}' * depth
        for t in ('@a{k, author = %s}' % deep, '@a{k, author = {A %s and B}}' % deep, '@a{k, t = %s # "q"}' % deep, '@a{k, editor = "%s"}' % deep,
                  '@string{m = %s} @a{k, author = m}' % deep):
            cases.append({'op': 'bibparse', 'text': t})
    ncorr = 0
    for pre, entry, post in BASE_DOCS:
        kind = 'string' if entry.lower().startswith('@string') else 'entry'
        cs = list(corruptions(entry))
        if tier == 'quick':
            cs = cs[::3]
        for cop, bad in cs:
            cases.append({'op': 'bibparse', 'pre': pre, 'bad': bad, 'post': post, 'kind': kind, 'cop': cop})
            ncorr += 1
        # the same document with the three parts on ONE physical line (the next command starts on the line of the error)
        cs = list(corruptions(entry))
        if tier == 'quick':
            cs = cs[1::3]
        for cop, bad in cs:
            cases.append({'op': 'bibparse', 'pre': pre.rstrip('\n') + ' ', 'bad': bad, 'post': ' ' + post.lstrip('\n'), 'kind': kind, 'cop': cop + '/same-line'})
            ncorr += 1
    info['exhaustive'] = True
    info['scope'] = ('%d strings of length <= %d over %r (length >= 4 only with an "@"); %d single-token corruptions of one entry in %d base documents'
                     % (nstr, maxlen, ALPHA, ncorr, len(BASE_DOCS)))
    pool = ALPHA * 3 + ['@misc', '@string', '@preamble', '@comment', 'key', 'title', ' = ', '{a}', '"b"', ' # ', 'jan', 'é', '–', '\r\n', '\r',
                        ' ', '\x0b', 'author', ' and ', ',,', '{{', '}}', '\\', '%', 'ß', '٣', '@@']
    for _ in range(2000 if tier == 'quick' else 40000):
        cases.append({'op': 'bibparse', 'text': ''.join(rng.choice(pool) for _ in range(rng.randint(1, 25)))})
    for _ in range(300 if tier == 'quick' else 5000):
        doc = bibgen.gen_doc(rng)
        text = bibgen.render(doc, bibgen.Layout([], rng))
        toks = TOKEN_RE.findall(text)
        if not toks:
            continue
        i = rng.randrange(len(toks))
        op = rng.choice(['delete', 'duplicate', 'replace', 'truncate'])
        if op == 'delete':
            toks = toks[:i] + toks[i + 1:]
        elif op == 'duplicate':
            toks = toks[:i + 1] + toks[i:]
        elif op == 'truncate':
            toks = toks[:i]
        else:
            toks = toks[:i] + [rng.choice(REPL)] + toks[i + 1:]
        cases.append({'op': 'bibparse', 'text': ''.join(toks)})
    # witness of the recorded finding C10-at-inside-malformed-entry (replayed on every run)
    cases.append({'op': 'bibparse', 'pre': '@misc{p, t = 1}\n', 'bad': '@misc{k, t = x y @misc{z, u = 1} }', 'post': '\n@misc{z, v = 2}\n',
                  'kind': 'entry', 'cop': 'witness'})
    cases.append({'op': 'bibparse', 'pre': '@misc{p, t = 1}\n', 'bad': '@', 'post': '\n@misc{z, v = 2}\n', 'kind': 'entry', 'cop': 'witness'})
    if rng.random() < 2:
        cases.append({'op': 'bibparse', 'text': '@a{k, t = ' + '{' * 100 + 'x' + '}' * 100 + '}'})
        cases.append({'op': 'bibparse', 'text': '@a{k, t = ' + '{' * 101 + 'x' + '}' * 101 + '}'})
        cases.append({'op': 'bibparse', 'text': '@a{k, t = ' + '{' * 102 + 'x' + '}' * 102 + '} @b{k2, u = 1}'})
        cases.append({'op': 'bibparse', 'text': '@a{k, author = "' + '{' * 100 + 'x' + '}' * 100 + ' Y"}'})
    return cases


LEVEL_TEXT = ('Machine-checked proofs (Lean 4) about the function-by-function model of LowLevelParser / Parser (Model/BibParse.lean) for EVERY text, '
              'mode, wanted-set, initial macro table and person-field list: the fuel of every loop suffices and no impossible branch is taken, '
              'so only pybtex error kinds occur and the text is read to its end (C10_total); with well nested initial macro values the nesting '
              'error of Person() is unreachable (C10_total_wellnested: strings returned by parse_string are balanced and <= 100 deep, '
              'split_tex_string keeps the brace skeleton); every syntax error carries a line of the text (C10_located, invariant: line counter + '
              'line breaks of the unread rest = 1 + line breaks of the text); strict reading = continue-mode reading cut at the first reported '
              'problem, same database when there is none (C10_modes, simulation of the two runs); what was read after k commands is only ever '
              'extended (C10_prefix_stable), by at most one entry and one preamble item per command, malformed or not (C10_confined_step). Confinement AFTER a malformed entry: "balanced braces and quotes" alone is refuted on two kernel-evaluated witnesses: an "@" inside the '
              'entry (C10_confined_neg, known finding) and a lone "@" that swallows the "@" of the next command (C10_confined_lone_at_neg). '
              'The POSITIVE statement is proved for every loop-top state and all texts bad, post (Lemmas/BibLocal.lean, one commutation lemma per function of the model): the reader is local - no function looks beyond '
              'the character that ends what it consumes (C10_scan_local, C10_round_local; PrematureEOF is the one case where it has seen the end of the text, C10_round_local_neg) -, it resynchronises at the next "@" (C10_resync), and a round '
              'depends on earlier entries only through the repeated-key check (C10_round_independent); hence (C10_confined_after) if the round on bad alone reports no PrematureEOF and leaves no "@" unread, everything read from post in bad ++ post '
              'is exactly what is read from post alone, given the macro table / wanted-set / unnamed counter bad left behind (unchanged: C10_confined_after_partial), except for a later entry that reuses the key of the partial entry of bad. '
              'The unnamed counter and the wanted-set are genuinely handed on (C10_confined_after_unnamed_neg, C10_confined_after_wanted_neg).')
LEVEL_NOTE = ('Trusted: Lean kernel; axioms propext/Classical.choice/Quot.sound at most; the hand-written model corresponds to pybtex only as far as '
              'the differential check explores (every string of length <= 4/5 over the token alphabet, single-token corruptions, random Unicode; capture '
              'and strict mode). "Never an internal exception/hang" of CPython itself is sampled, not proved. The positive confinement-after theorem is stated for a loop-top state S and a decomposition bad ++ post of its unread text with OPERATIONAL hypotheses on the round on bad alone (no PrematureEOF reported, no "@" left unread); '
              'a purely syntactic characterisation of such bad (C10_confined_partial of DESIGN.md: balanced, no "@") is false (lone "@"). Not proved: that the reported line EQUALS the line of the offending '
              'position (only the bounds 1 <= l <= number of lines); prefix stability is stated for the command loop stopped after k rounds, not for '
              'a decomposition text = a ++ b of the input.')
