"""C08, function-level correspondence for the API surface of pybtex/richtext.py (Model/RichTextApi.lean) and for the private
helpers of the constructor / of slicing.

case ::= {"op": "rt_ctor", "expr": arg}
           arg ::= "chars" | {"ty": type name} | {"c": "string"|"text"|"prot", "a": [arg...]} | {"c": "symbol", "n": "name"}
                 | {"c": "tag", "n": arg, "a": [arg...]} | {"c": "href", "u": arg, "e": bool, "a": [arg...]}
       | {"op": "rt_getitem", "tree": tree, "keys": [key...]}      key ::= {"int": i} | {"int": 0|1, "bool": true} | {"other": name}
                                                                        | {"i": int|null, "j": int|null, "k": int|null}
       | {"op": "rt_contains", "tree": tree, "items": [str|null...]}   null = a value that is not a str
       | {"op": "rt_splitbad", "tree": tree, "sep": "empty"|"type", "keep": bool|null}
       | {"op": "rt_fn", "fn": "slice_beginning"|"slice_end", "tree": tree, "ns": [int...]}
       | {"op": "rt_fn", "fn": "merge_similar", "parts": [tree...]} | {"op": "rt_fn", "fn": "typeinfo"|"unpack", "tree": tree}
"""
import itertools
import json
import warnings

OPS = ('rt_ctor', 'rt_getitem', 'rt_contains', 'rt_splitbad', 'rt_fn')
OTHER_VALUES = {'NoneType': None, 'int': 5, 'list': [], 'bytes': b'x', 'float': 1.5, 'bool': True, 'tuple': (), 'dict': {}}
OTHER_KEYS = {'str': 'a', 'NoneType': None, 'float': 1.0, 'tuple': (0, 1)}
CAUGHT = (IndexError, NotImplementedError, TypeError, ValueError)


def _c08():
    from props import c08
    return c08


def eval_arg(a):
    from pybtex import richtext as rt
    if isinstance(a, str):
        return a
    if 'ty' in a:
        return OTHER_VALUES[a['ty']]
    c = a['c']
    if c == 'symbol':
        return rt.Symbol(a['n'])
    if c == 'tag':          # Python evaluates the name first, then the other arguments, then calls the constructor
        name = eval_arg(a['n'])
        return rt.Tag(name, *[eval_arg(x) for x in a['a']])
    if c == 'href':
        url = eval_arg(a['u'])
        return rt.HRef(url, *[eval_arg(x) for x in a['a']], external=a['e'])
    args = [eval_arg(x) for x in a['a']]
    return {'string': rt.String, 'text': rt.Text, 'prot': rt.Protected}[c](*args)


def impl(case):
    from pybtex import richtext as rt
    c08 = _c08()
    op = case['op']
    if op == 'rt_ctor':
        with warnings.catch_warnings(record=True) as w:
            warnings.simplefilter('always')
            try:
                v = eval_arg(case['expr'])
            except (ValueError, TypeError) as e:
                if type(e) is ValueError:
                    return {'r': {'err': 'ValueError', 'msg': '%s' % (e.args[0],)}, 'f': True}
                return {'r': {'err': type(e).__name__}, 'f': True}
            nwarn = sum(1 for x in w if issubclass(x.category, DeprecationWarning))
        if isinstance(v, str):
            return {'r': {'str': v}, 'f': True}
        if not isinstance(v, rt.BaseText):
            return {'r': {'other': type(v).__name__}, 'f': True}
        return {'r': {'ok': c08.val(v), 'warn': nwarn}, 'f': True}
    if op == 'rt_fn' and case['fn'] == 'merge_similar':
        parts = [c08.build(p) for p in case['parts']]
        before = c08.freeze(parts)
        out = [c08.pack(c08.dump(p)) for p in rt.Text()._merge_similar(parts)]
        return {'r': out, 'f': c08.freeze(parts) == before}
    obj = c08.build(case['tree'])
    before = c08.freeze(obj)
    r = _run(rt, c08, obj, case, op)
    return {'r': r, 'f': c08.freeze(obj) == before}


def key_of(k):
    if 'int' in k:
        return bool(k['int']) if k.get('bool') else k['int']
    if 'other' in k:
        return OTHER_KEYS[k['other']]
    return slice(k.get('i'), k.get('j'), k.get('k'))


def _run(rt, c08, obj, case, op):
    if op == 'rt_getitem':
        out = []
        for k in case['keys']:
            try:
                out.append(c08.val(obj[key_of(k)]))
            except CAUGHT as e:
                out.append(['', type(e).__name__])
        return c08.table(out)
    if op == 'rt_contains':
        pool = [5, None, rt.String('a'), ['a']]
        out = []
        for n, it in enumerate(case['items']):
            try:
                out.append(bool((pool[n % len(pool)] if it is None else it) in obj))
            except CAUGHT as e:
                out.append(type(e).__name__)
        return out
    if op == 'rt_splitbad':
        sep = '' if case['sep'] == 'empty' else 5
        try:
            parts = obj.split(sep) if case.get('keep') is None else obj.split(sep, keep_empty_parts=case['keep'])
        except CAUGHT as e:
            return type(e).__name__
        return [c08.part_snap(p) for p in parts]
    fn = case['fn']
    if fn == 'typeinfo':
        cls, info = obj._typeinfo()
        if cls is None:
            return [None]
        if cls is rt.String:
            return ['String']
        return c08.cls_of(obj) if (cls, info) == (type(obj), obj.info) else ['?']
    if fn == 'unpack':
        return [c08.pack(c08.dump(p)) for p in obj._unpack()]
    f = obj._slice_beginning if fn == 'slice_beginning' else obj._slice_end
    return c08.table([c08.val(f(n)) for n in case['ns']])


def model_out(case, reply):
    return {'r': reply['out'], 'f': True}


def oracle(case, impl_out, reply):
    op = case['op']
    if not isinstance(impl_out, dict) or 'r' not in impl_out:
        return ['%s_total: %s raised %s' % (op, json.dumps(case)[:200], impl_out)]
    if not impl_out.get('f', True):
        return ['operands_never_modified: %s changed its receiver / an argument' % op]
    r, spec = impl_out['r'], reply.get('spec')
    fails = []
    if op == 'rt_ctor':
        if spec is None:
            if 'ok' in r or 'err' in r:
                fails.append('construction: a plain value evaluated to %r' % (r,))
        elif 'err' in spec:
            if 'err' not in r:
                fails.append('construction_argument_check: an ill-typed constructor expression was accepted: %s -> %r' % (json.dumps(case['expr']), r))
        elif 'ok' not in r:
            fails.append('construction_total: the well-typed expression %s raised %r (it denotes %r)' % (
                json.dumps(case['expr']), r, json.loads(spec['ok'])))
        elif r['ok'][1] != spec['ok']:
            fails.append('construction: %s: %s' % (json.dumps(case['expr']), _c08()._diff(r['ok'][1], spec['ok'])))
    elif op == 'rt_getitem':
        ea = [v[1] for v in _c08()._expand(r)]
        eb = _c08()._expand(spec)
        for k, va, vb in zip(case['keys'], ea, eb):
            if va != vb:
                fails.append('getitem_key: text[%s] on %s: %s' % (json.dumps(k), json.dumps(case['tree']), _c08()._diff(va, vb)))
                break
    elif op == 'rt_contains':
        t = case['tree']
        is_sym = isinstance(t, dict) and 'y' in t
        for it, x in zip(case['items'], r):
            if it is None and x != (False if is_sym else 'TypeError'):
                fails.append('contains_argument_check: <non-str> in %s gave %r' % (json.dumps(t), x))
                break
            if it is not None and not isinstance(x, bool):
                fails.append('contains_total: %r in %s raised %s' % (it, json.dumps(t), x))
                break
    elif op == 'rt_splitbad':
        if spec is not None:
            if r != spec:
                fails.append('split_argument_check: split(%s) of %s: %r where String.split raises %s' % (
                    case['sep'], json.dumps(case['tree']), r, spec))
        elif not isinstance(r, list) or len(r) > 1:
            fails.append('split_never_splits_protected_or_symbols: split(%s) of %s (no String outside Protected) gave %r' % (
                case['sep'], json.dumps(case['tree']), r))
    return fails


def buckets(case, impl_out):
    b = ['fn:' + case['op'] + (':' + case['fn'] if 'fn' in case else '')]
    r = impl_out.get('r') if isinstance(impl_out, dict) else None
    if case['op'] == 'rt_ctor' and isinstance(r, dict):
        b.append('ctor:' + ('ok' if 'ok' in r else r.get('err', 'value')))
        if r.get('warn'):
            b.append('ctor:deprecated-alias')
    if case['op'] == 'rt_splitbad':
        b.append('splitbad:' + (r if isinstance(r, str) else 'pieces:%d' % len(r or [])))
    return b


def nontrivial(case, impl_out):
    return isinstance(impl_out, dict) and 'r' in impl_out


def _valid_arg(a, depth=0):
    if depth > 30:
        return False
    if isinstance(a, str):
        return True
    if not isinstance(a, dict):
        return False
    if 'ty' in a:
        return a['ty'] in OTHER_VALUES and set(a) == {'ty'}
    c = a.get('c')
    if c == 'symbol':
        return isinstance(a.get('n'), str)
    if c not in ('string', 'text', 'prot', 'tag', 'href') or not isinstance(a.get('a'), list):
        return False
    if c == 'tag' and not _valid_arg(a.get('n'), depth + 1):
        return False
    if c == 'href' and not (_valid_arg(a.get('u'), depth + 1) and isinstance(a.get('e'), bool)):
        return False
    return all(_valid_arg(x, depth + 1) for x in a['a'])


def _int(x):
    return isinstance(x, int) and not isinstance(x, bool)


def _valid_key(k):
    if not isinstance(k, dict):
        return False
    if 'int' in k:
        return _int(k['int']) and (not k.get('bool') or k['int'] in (0, 1))
    if 'other' in k:
        return k['other'] in OTHER_KEYS
    return all(k.get(x) is None or _int(k.get(x)) for x in ('i', 'j', 'k'))


def valid_case(case):
    c08 = _c08()
    op = case.get('op')
    if op == 'rt_ctor':
        return _valid_arg(case.get('expr'))
    if op == 'rt_fn' and case.get('fn') == 'merge_similar':
        return isinstance(case.get('parts'), list) and all(c08._valid_tree(p) for p in case['parts'])
    if not c08._valid_tree(case.get('tree')):
        return False
    if op == 'rt_getitem':
        return isinstance(case.get('keys'), list) and all(_valid_key(k) for k in case['keys'])
    if op == 'rt_contains':
        return isinstance(case.get('items'), list) and all(x is None or isinstance(x, str) for x in case['items'])
    if op == 'rt_splitbad':
        return case.get('sep') in ('empty', 'type') and case.get('keep') in (None, True, False)
    if op == 'rt_fn':
        if case.get('fn') in ('typeinfo', 'unpack'):
            return True
        return (case.get('fn') in ('slice_beginning', 'slice_end') and isinstance(case['tree'], dict) and 'k' in case['tree'] and
                isinstance(case.get('ns'), list) and all(_int(n) for n in case['ns']))
    return False


# ------------------------------------------------------------------------------------------------
# generators
# ------------------------------------------------------------------------------------------------

def C(c, *a, **kw):
    if c == 'tag':
        d = {'c': c, 'n': a[0], 'a': list(a[1:])}
    elif c == 'href':
        d = {'c': c, 'u': a[0], 'a': list(a[1:])}
    else:
        d = {'c': c, 'a': list(a)}
    d.update(kw)
    return d


SYMB = {'c': 'symbol', 'n': 'nbsp'}
NAMES = ['em', 'emph', 'b', C('text', 'em'), C('text', 'em', 'ph'), C('text'), C('text', C('tag', 'i', 'emph')), C('text', SYMB),
         C('tag', 'b', 'em'), C('string', 'em'), SYMB, C('prot', 'em'), C('href', 'u', 'em', e=False), {'ty': 'NoneType'}, {'ty': 'int'},
         C('text', {'ty': 'list'}), C('tag', {'ty': 'int'}, 'x')]
PARTS = ['a', '', {'ty': 'int'}, {'ty': 'NoneType'}, {'ty': 'bool'}, SYMB, C('string', 'a', 'b'), C('string', 'a', C('string', 'b')),
         C('tag', 'emph', 'x'), C('tag', 'em', 'y'), C('text', 'p', C('tag', C('text', 'em'), 'q')), C('prot', 'P'),
         C('tag', SYMB, 'z'), C('href', SYMB, 'h', e=True)]
STRING_PARTS = ['a', '', 'B c', {'ty': 'int'}, {'ty': 'bytes'}, C('string', 'x'), SYMB, C('text', 'x')]


def _seqs(options, maxlen):
    for n in range(maxlen + 1):
        for t in itertools.product(options, repeat=n):
            yield list(t)


def ctor_family(tier):
    plen = 2
    pool = PARTS if tier != 'quick' else PARTS[:3] + PARTS[5:6] + PARTS[7:11] + PARTS[12:13]
    argss = list(_seqs(pool, plen))
    for args in argss:
        yield C('text', *args)
        yield C('prot', *args)
    some = argss if tier != 'quick' else argss[::3]
    for name in NAMES:
        for args in some:
            yield C('tag', name, *args)
        for args in some[::2]:
            yield C('href', name, *args, e=bool(len(args) % 2))
    for args in _seqs(STRING_PARTS, 3 if tier != 'quick' else 2):
        yield C('string', *args)
    yield SYMB
    yield 'a'
    yield {'ty': 'int'}


def random_arg(rng, depth, pos='part'):
    r = rng.random()
    if depth <= 0 or r < 0.35:
        if rng.random() < 0.10:
            return {'ty': rng.choice(sorted(OTHER_VALUES))}
        if rng.random() < 0.12:
            return {'c': 'symbol', 'n': rng.choice(['nbsp', 'ndash'])}
        return rng.choice(['a', '', 'B c', 'emph', 'em', 'x.', 'é', 'http://x/'])
    k = rng.random()
    args = [random_arg(rng, depth - 1) for _ in range(rng.randint(0, 3))]
    if k < 0.25:
        return C('text', *args)
    if k < 0.60:
        name = rng.choice(['em', 'emph', 'strong']) if rng.random() < 0.6 else random_arg(rng, depth - 1, 'name')
        return C('tag', name, *args)
    if k < 0.78:
        url = 'http://x/' if rng.random() < 0.5 else random_arg(rng, depth - 1, 'url')
        return C('href', url, *args, e=rng.random() < 0.5)
    if k < 0.90:
        return C('prot', *args)
    return C('string', *[rng.choice(['a', 'b ', '']) if rng.random() < 0.85 else random_arg(rng, 1) for _ in range(rng.randint(0, 3))])


def keys_for(n, full):
    ks = [{'int': i} for i in range(-n - 2, n + 3)] + [{'int': 0, 'bool': True}, {'int': 1, 'bool': True}]
    ks += [{'other': o} for o in sorted(OTHER_KEYS)]
    bounds = [None] + list(range(-n - 2, n + 3))
    steps = [None, 1, 2, -1, -2, 3, -3, 0, 7] if full else [None, 1, 2, -1, 0]
    if not full and n > 3:
        bounds = [None, -n - 1, -n, -2, -1, 0, 1, n - 1, n, n + 1]
    for k in steps:
        for i in bounds:
            for j in bounds:
                ks.append({'i': i, 'j': j, 'k': k})
    return ks


def gen_cases(tier, rng, info):
    c08 = _c08()
    cases = [{'op': 'rt_ctor', 'expr': e} for e in ctor_family(tier)]
    nctor = len(cases)
    for _ in range(1500 if tier == 'quick' else 30000):
        cases.append({'op': 'rt_ctor', 'expr': random_arg(rng, rng.randint(1, 4))})
    multi1 = [c08.node(k, ps) for k in c08.KINDS for ps in c08.seqs(['', 'a', 'B c', c08.SYM], 2)]
    lvl3 = list(c08.level3_samples())[::8]
    lvl2 = list(c08.level2('quick'))[::(9 if tier == 'quick' else 2)]
    strs = c08.STRS + ['Straße', 'a-b c d', 'éÉ x']
    # text[key]: every int / bool / non-int key and every slice (i, j, k) around the bounds
    ngi = 0
    for t in strs + [c08.SYM]:
        cases.append({'op': 'rt_getitem', 'tree': t, 'keys': keys_for(c08.tree_len(t), True)})
        ngi += 1
    for t in multi1 + lvl3 + lvl2[::4]:
        cases.append({'op': 'rt_getitem', 'tree': t, 'keys': keys_for(c08.tree_len(t), False)})
        ngi += 1
    trees = c08.LEAVES + multi1 + lvl2 + lvl3
    for t in trees:
        cases.append({'op': 'rt_contains', 'tree': t, 'items': ['', 'a', None, 'B c', None, 'nbsp', None, None]})
        for sep in ('empty', 'type'):
            for keep in (None, True, False):
                cases.append({'op': 'rt_splitbad', 'tree': t, 'sep': sep, 'keep': keep})
        cases.append({'op': 'rt_fn', 'fn': 'typeinfo', 'tree': t})
        cases.append({'op': 'rt_fn', 'fn': 'unpack', 'tree': t})
        if c08.is_node(t):
            n = c08.tree_len(t)
            for fn in ('slice_beginning', 'slice_end'):
                cases.append({'op': 'rt_fn', 'fn': fn, 'tree': t, 'ns': list(range(-n - 2, n + 3))})
    objs = ['a', '', c08.SYM, c08.node(c08.KINDS[1], ['a']), c08.node(c08.KINDS[1], [c08.node(c08.KINDS[2], ['b'])]),
            c08.node(c08.KINDS[1], [c08.node(c08.KINDS[2], ['c']), 'd']), c08.node(c08.KINDS[2], ['b']),
            c08.node(c08.KINDS[0], ['t', c08.node(c08.KINDS[1], ['u'])]), c08.node(c08.KINDS[3], ['h']), c08.node(c08.KINDS[4], ['h']),
            c08.node(c08.KINDS[5], ['P']), c08.node(c08.KINDS[1], [])]
    nms = 0
    for ps in c08.seqs(objs, 3 if tier != 'quick' else 2):
        cases.append({'op': 'rt_fn', 'fn': 'merge_similar', 'parts': ps})
        nms += 1
    for _ in range(300 if tier == 'quick' else 5000):
        cases.append({'op': 'rt_fn', 'fn': 'merge_similar', 'parts': [c08.random_tree(rng, 2, rng.random() < 0.7) for _ in range(rng.randint(0, 5))]})
        t = c08.random_tree(rng, rng.randint(1, 3), True)
        n = c08.tree_len(t)
        cases.append({'op': 'rt_getitem', 'tree': t, 'keys': [
            {'i': rng.choice([None] + list(range(-n - 2, n + 3))), 'j': rng.choice([None] + list(range(-n - 2, n + 3))),
             'k': rng.choice([None, None, 1, 1, 2, -1, 0, -2, 3])} for _ in range(12)] + [{'int': rng.randint(-n - 1, n + 1)} for _ in range(4)]})
        cases.append({'op': 'rt_splitbad', 'tree': t, 'sep': rng.choice(['empty', 'type']), 'keep': rng.choice([None, True, False])})
    info['scope_api'] = ('API surface: %d constructor expressions (every Tag / HRef over %d name / URL expressions -- str, emph, Text(...), Tag, String, '
                         'Symbol, Protected, HRef, None, int -- x <=2 arguments from %d part expressions incl. values of other types; String(...) over %d '
                         'arguments) + random ones; text[key] for %d trees x every int / bool / non-int key / slice (i, j, k) with k in '
                         '{None, 1, 2, -1, -2, 3, -3, 0, 7} (multipart: {None, 1, 2, -1, 0}); `in` with non-str items, split(\'\') / split(5), _typeinfo, '
                         '_unpack, _slice_beginning / _slice_end for every n in [-len-2, len+2] on %d trees; _merge_similar on %d lists of objects' % (
                             nctor, len(NAMES), len(PARTS), len(STRING_PARTS), ngi, len(trees), nms))
    return cases
