"""Shared by c05.py and c14.py: case <-> .bib text, error canonicalisation, the two engine front ends.

A case's `file` is a list of {"key", "type", "fields": [[name, value]...], "persons": [[role, [name...]]...]}.
"""
import atexit
import os
import re
import shutil
import tempfile

import compat  # noqa: F401

_TMP = None


def tmpdir():
    """Scratch directory for the generated .bst files (per process, removed at exit)."""
    global _TMP
    if _TMP is None or not os.path.isdir(_TMP) or _TMP_PID != os.getpid():
        _new_tmp()
    return _TMP


def _new_tmp():
    global _TMP, _TMP_PID
    _TMP = tempfile.mkdtemp(prefix='verif-c05-')
    _TMP_PID = os.getpid()
    atexit.register(shutil.rmtree, _TMP, True)


_TMP_PID = None
_BST_CACHE = {}


def bst_path(name, text):
    """Write the .bst once per process; return the style name to pass to the BibTeX engine."""
    key = (os.getpid(), name)
    if key not in _BST_CACHE:
        path = os.path.join(tmpdir(), name + '.bst')
        with open(path, 'w') as f:
            f.write(text)
        _BST_CACHE[key] = os.path.join(tmpdir(), name)
    return _BST_CACHE[key]


def bib_text(file, persons_as_fields=True):
    """The .bib source of a case.  Persons are written as `role = {A and B}`."""
    out = []
    for e in file:
        parts = ['%s = {%s}' % (n, v) for n, v in e['fields']]
        parts += ['%s = {%s}' % (r, ' and '.join(names)) for r, names in e['persons']]
        out.append('@%s{%s,\n  %s\n}\n' % (e['type'], e['key'], ',\n  '.join(parts)))
    return '\n'.join(out)


_REPEATED = re.compile(r'^repeated bibliography entry: (.*)$', re.S)
_BADXREF = re.compile(r'^bad cross-reference: entry "(.*)" refers to entry "(.*)" which does not exist\.$', re.S)
_MISSING = re.compile(r'^missing database entry for "(.*)"$', re.S)


def report(exc):
    """A reported problem -> the model's Report (message parameters, not wording)."""
    from pybtex.exceptions import PybtexError
    if not isinstance(exc, PybtexError):
        return ['INTERNAL:' + type(exc).__name__, str(exc)]
    msg = exc.args[0] if exc.args else ''
    m = _REPEATED.match(msg)
    if m:
        return ['repeated', m.group(1)]
    m = _BADXREF.match(msg)
    if m:
        return ['bad_crossref', m.group(1), m.group(2)]
    m = _MISSING.match(msg)
    if m:
        return ['missing', m.group(1)]
    return ['other', type(exc).__name__, msg]


def key_backend():
    """A plain-text backend that also prints the key of every entry (the plain-text one does not,
    and the LaTeX one fails on an empty bibliography, which is not this property's business)."""
    from pybtex.backends.plaintext import Backend

    class KeyBackend(Backend):
        def write_entry(self, key, label, text):
            self.output('\\bibitem{%s}\n%s\n' % (key, text))
    return KeyBackend


_BIBITEM = re.compile(r'^\\bibitem\{(.*)\}$')


def split_bibitems(text):
    """[(key, [lines])] of an engine's output."""
    items = []
    for line in text.split('\n'):
        m = _BIBITEM.match(line)
        if m:
            items.append((m.group(1), []))
        elif items:
            items[-1][1].append(line)
    return items


KEY_OK = re.compile(r'^[A-Za-z0-9.:+/-]+$')
NAME_OK = re.compile(r'^[A-Za-z][A-Za-z0-9]*$')
VALUE_OK = re.compile(r'^[A-Za-z0-9 .:,+/-]*$')
# "rich" values: also @ " = # ( ) and braces (balanced, checked separately); no backslash, no %
VALUE_RICH = re.compile(r'^[A-Za-z0-9 .:,+/@"=#(){}-]*$')


def balanced(v):
    """braces are balanced and properly nested (what a {...}-delimited .bib value needs)"""
    depth = 0
    for ch in v:
        if ch == '{':
            depth += 1
        elif ch == '}':
            depth -= 1
            if depth < 0:
                return False
    return depth == 0


def valid_file(file, allow_overlap=False, allow_empty=False, rich_values=False, odd_keys=False):
    """allow_empty: a field may have the empty value (`note = {}` is stored as '');
    rich_values: values may contain @ " = # ( ) and balanced braces;
    odd_keys: the key `*` and the cross-reference targets `` and `*` are allowed."""
    if not isinstance(file, list):
        return False
    value_re = VALUE_RICH if rich_values else VALUE_OK
    for e in file:
        if not (isinstance(e, dict) and set(e) == {'key', 'type', 'fields', 'persons'}):
            return False
        if not (KEY_OK.match(e['key']) or (odd_keys and e['key'] == '*')):
            return False
        if not NAME_OK.match(e['type']) or e['type'].lower() in ('string', 'preamble', 'comment'):
            return False
        fnames = [n.lower() for n, _ in e['fields']]
        rnames = [r.lower() for r, _ in e['persons']]
        if len(set(fnames)) != len(fnames) or len(set(rnames)) != len(rnames):
            return False
        if not allow_overlap and set(fnames) & set(rnames):
            return False
        for n, v in e['fields']:
            if not NAME_OK.match(n):
                return False
            if n.lower() == 'crossref':
                if not (KEY_OK.match(v) or (odd_keys and v in ('', '*'))):
                    return False
                continue
            if not value_re.match(v) or v != ' '.join(v.split()) or not balanced(v):
                return False
            if not v and not allow_empty:
                return False
        for r, ns in e['persons']:
            if r.lower() not in ('author', 'editor') or not ns:
                return False
            for nm in ns:
                # "Last, First" with single-word parts: str(Person(name)) == name
                if not re.match(r'^[A-Z][a-z]*, [A-Z][a-z]*$', nm) or nm.split(', ')[0] == 'And':
                    return False
    return True
