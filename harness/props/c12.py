"""C12 -- brace- and special-character-aware string primitives obey their algebra."""
import itertools
import re

import compat  # noqa: F401
from props.base import to_request, corpus_for  # noqa: F401

ID = 'C12'
LEAN_MODULES = ['PybtexModel.Props.C12']
THEOREMS = {}   # filled below (kept next to the clause texts)
RULE = ('every string over the 10-character alphabet {a B 1 space ~ - { } \\ :} up to the tier length (and every string of length <= 4 over {a , space { } -} with a comma), each with every '
        'prefix count in [-1, len+2] and every (start, length) in [-(len+2), len+2]^2, through all primitives at once -- the '
        'utils functions AND the built-ins substring$ / text.prefix$ / purify$ / change.case$ / text.length$ / width$ / '
        'num.names$ on a real Interpreter stack, change.case$ with a family of mode strings (T, title, x, empty ...); '
        'every string of length <= 7 over {a n d A space tab { }} containing "and" through the name-list splitter '
        '(utils.split_name_list, num.names$); seeded random long strings (ASCII incl. a n d A N D and the comma, the 29 '
        'white-space code points, symbols, nesting up to and beyond the 100-level guard, counts and windows up to 2^64 and 10^20, unmatched closing braces in front); a Unicode family (cased and '
        'caseless non-ASCII letters, digits, the letters whose case mapping changes the length and the capital sigma in and outside special characters -- all compared with the model); '
        'str.lower / str.upper themselves on sigma words, length-changing letters and blocks of code points (op texcase); the hard-coded constants against the source (op texconsts); '
        'non-trivial = contains a brace, backslash or separator; distinct by case JSON')
TRUSTED = ['character classes and case mapping are the running interpreter\'s tables (regenerated on every run: '
           'Gen/Unicode.lean, Gen/UnicodeCase.lean, Gen/UnicodeLower.lean, Gen/UnicodeC12.lean incl. the 102 multi-character upper-case images); '
           'purify_special_char_re is ASCII as in the code',
           'str.lower / str.upper as string operations (lowerPy: CPython do_lower with handle_capital_sigma, its two character classes recovered by '
           'probing the interpreter; upperPy: context-free) are hand models, tied by op texcase on every run (all sigma words <= 4 over an '
           '8-character alphabet, every length-changing letter, code-point blocks: all of Unicode in the thorough tier)',
           'the regular expressions, default arguments and literals the model hard-codes are compared with the source of the tree under test on every run (op texconsts)',
           're.split / str.partition / str.strip semantics on the four separator shapes are modelled by hand matchers',
           'the oracle\'s reference splitter uses Python\'s re on the brace-level-0 stretches of the string']
ASSUMPTIONS = ['the case-changing model that is compared with the code has NO domain restriction (Model/TeXCaseFull.lean: str.lower / str.upper as '
               'string operations, full case mapping and final sigma); the theorems on length / letters up to case / idempotence / braces '
               '(C12_case_*_unicode, C12_case_len_full_partial) need caseDomain (no letter whose upper- or lower-case form is not one '
               'character: 102 + 1 code points, no U+03A3); outside it the proved facts are C12_case_len_full_ge, C12_case_plain_str_methods, '
               'C12_case_upper_idem_plain, C12_word_ops_idem, and the clauses are evaluated on the implementation '
               '(known finding C12-case-length-changing-letter)']

ALPHABET = ['a', 'B', '1', ' ', '~', '-', '{', '}', '\\', ':']
COMMA_ALPHABET = ['a', ',', ' ', '{', '}', '-']
AND_ALPHABET = ['a', 'n', 'd', 'A', ' ', '\t', '{', '}']
SEPS = {'space': None, 'comma': ',', 'hyphen': '-', 'and': ' [Aa][Nn][Dd] '}
# the separators as the PROPERTY means them (reference of the oracle; independent of what the call sites pass)
SEP_PATTERNS = {'space': r'(?:\\ |\s|(?<!\\)~)+', 'comma': ',', 'hyphen': '-', 'and': ' [Aa][Nn][Dd] '}
MODES = ['T', 'title', 'x', '', 'U']
MODE_POOL = ['l', 'u', 't', 'L', 'U', 'T', 'title', 'Lower', 'UPPER', 'x', '', ' t', 'tl', 'lx', '1', 'İ', 'Ł', 'Ｔ', '{']
DELIMS = ['.']


def _err(e):
    return {'error': compat.pybtex_error_kind(e)}


def _call(f, *a):
    try:
        return f(*a)
    except Exception as e:  # noqa
        return _err(e)


_INTERP = []


def _interp():
    """A real Interpreter (its stack, push/pop and its own table of built-ins are what the wrappers use)."""
    if not _INTERP:
        from pybtex.bibtex.interpreter import Interpreter
        _INTERP.append(Interpreter(None, None))
    return _INTERP[0]


def _builtin(name, *args):
    """Run one built-in on a stack holding `args` (pushed left to right) and return what it leaves."""
    i = _interp()
    del i.stack[:]
    for a in args:
        i.push(a)
    i.vars[name].execute(i)
    r = i.pop()
    if i.stack:
        raise AssertionError('built-in %s left %d extra values' % (name, len(i.stack)))
    return r


def _consts_of(f):
    """the literals of a function and of the functions nested in it, docstring excluded"""
    out = []

    def walk(co):
        for k in co.co_consts:
            if hasattr(k, 'co_code'):
                walk(k)
            else:
                out.append(k)
    walk(f.__code__)
    return [k for k in out if k != f.__doc__]


def _one(xs, what):
    xs = list(xs)
    if len(xs) != 1:
        return {'ambiguous ' + what: [repr(x) for x in xs]}
    return xs[0]


def _source_constants():
    """the constants of the anchored source that the Lean model hard-codes, read off the tree under test"""
    import inspect
    from pybtex.bibtex import utils, builtins
    sig = inspect.signature
    ab = sig(utils.bibtex_abbreviate).parameters
    sp = sig(utils.split_tex_string).parameters
    cc = builtins.builtins['change.case$'].f
    wd = _consts_of(utils.bibtex_width)
    return {
        'max_level': sig(utils.BibTeXString.__init__).parameters['max_level'].default,
        'purify_special_char_re': utils.purify_special_char_re.pattern,
        'BIBTEX_SPACE_RE': utils.BIBTEX_SPACE_RE.pattern,
        'BRACE_RE': utils.BRACE_RE.pattern,
        'name_list_sep': _one([k for k in _consts_of(utils.split_name_list) if isinstance(k, str)], 'separator of split_name_list'),
        'abbreviate_delimiter': _one([k for k in _consts_of(utils.bibtex_abbreviate) if isinstance(k, str)], 'default delimiter'),
        'abbreviate_separator': ab['separator'].default,
        'change_case_modes': _one([list(k) for k in _consts_of(cc) if isinstance(k, tuple)], 'mode letters of change.case$'),
        'width_special_braces': _one([k for k in wd if isinstance(k, int) and not isinstance(k, bool) and k > 2], 'width of the two braces'),
        'width_special_skip': _one([k for k in wd if isinstance(k, int) and not isinstance(k, bool) and k == 2], 'characters skipped in a special character'),
        'purify_blank_chars': _one([k for k in _consts_of(utils.bibtex_purify) if isinstance(k, str) and len(k) == 2], 'characters purify turns into a blank'),
        'first_letter_format': _one([k for k in _consts_of(utils.bibtex_first_letter) if isinstance(k, str) and len(k) > 1], 'format of a special first letter'),
        'split_defaults': [sp['sep'].default, sp['strip'].default, sp['filter_empty'].default],
    }


def in_case_domain(s):
    return all(len(c.upper()) == 1 and len(c.lower()) == 1 and c != 'Σ' for c in s)


def impl(case):
    from pybtex.bibtex import utils
    s = case.get('s', '')
    out = {}
    if case['op'] == 'texconsts':
        return _source_constants()
    if case['op'] == 'texcase':
        # the two string methods change_case calls (on one-character tokens and on the words of a special character)
        w = case['w']
        return {'lower': w.lower(), 'upper': w.upper()}
    if case['op'] == 'texsplit':
        out['and'] = _call(utils.split_name_list, s)
        out['raw_and'] = _call(utils.split_tex_string, s, SEPS['and'], False)
        out['space'] = _call(utils.split_tex_string, s)
        out['raw_space'] = _call(utils.split_tex_string, s, utils.BIBTEX_SPACE_RE.pattern, False)
        out['num.names$'] = _call(_builtin, 'num.names$', s)
        return out
    out['scan'] = _call(lambda: [[t, l] for t, l in utils.scan_bibtex_string(s)])
    out['len'] = _call(utils.bibtex_len, s)
    out['purify'] = _call(utils.bibtex_purify, s)
    out['case'] = {m: _call(utils.change_case, s, m) for m in 'lut'}
    out['width'] = _call(utils.bibtex_width, s)
    out['split'] = {k: _call(lambda v=v: utils.split_tex_string(s, v) if v is not None else utils.split_tex_string(s)) for k, v in SEPS.items()}
    out['split']['and'] = _call(utils.split_name_list, s)          # the real call site
    out['raw'] = {k: _call(lambda v=v: utils.split_tex_string(s, v, strip=False) if v is not None else
                          utils.split_tex_string(s, utils.BIBTEX_SPACE_RE.pattern, strip=False)) for k, v in SEPS.items()}
    out['firstletter'] = _call(utils.bibtex_first_letter, s)
    out['abbreviate'] = _call(utils.bibtex_abbreviate, s)
    out['abbrev_d'] = [_call(utils.bibtex_abbreviate, s, d) for d in case.get('delims', [])]
    out['fcb'] = _call(lambda: list(utils._find_closing_brace(s)))
    out['prefix'] = [_call(utils.bibtex_prefix, s, n) for n in case['ns']]
    out['substring'] = [_call(utils.bibtex_substring, s, a, b) for a, b in case['subs']]
    out['b'] = {
        'substring$': [_call(_builtin, 'substring$', s, a, b) for a, b in case['subs']],
        'text.prefix$': [_call(_builtin, 'text.prefix$', s, n) for n in case['ns']],
        'purify$': _call(_builtin, 'purify$', s),
        'text.length$': _call(_builtin, 'text.length$', s),
        'width$': _call(_builtin, 'width$', s),
        'num.names$': _call(_builtin, 'num.names$', s),
        'change.case$': [_call(_builtin, 'change.case$', s, m) for m in case.get('modes', [])],
    }
    out['_case_domain'] = in_case_domain(s)
    return out


def compare_view(io):
    """What is compared with the model: everything (the case-changing model has no domain restriction any more:
    Model/TeXCaseFull.lean runs str.lower / str.upper of the interpreter as string operations)."""
    if not isinstance(io, dict) or '_case_domain' not in io:
        return io
    v = dict(io)
    v.pop('_case_domain')
    return v


def model_out(case, reply):
    return reply['out']


def reconcile(case, view, mo):
    """op texconsts reads some literals off the CODE OBJECTS of the functions (co_consts): which function body holds a literal is a private
    detail of the tree under test.  A literal that cannot be read unambiguously there (a behaviour-preserving refactoring moved it into a
    helper, or made another literal of the same type appear) is dropped from both sides instead of being compared as "different": the
    behaviour it stands for is compared by the texall / texsplit families on every run anyway."""
    if case.get('op') != 'texconsts' or not isinstance(view, dict) or not isinstance(mo, dict):
        return view, mo
    unreadable = [k for k, v in view.items() if isinstance(v, dict) and any(str(x).startswith('ambiguous ') for x in v)]
    if not unreadable:
        return view, mo
    return ({k: v for k, v in view.items() if k not in unreadable}, {k: v for k, v in mo.items() if k not in unreadable})


def _is_err(x):
    return isinstance(x, dict) and 'error' in x


def _balanced(s):
    d = 0
    for c in s:
        if c == '{':
            d += 1
        elif c == '}':
            d -= 1
            if d < 0:
                return False
    return d == 0


def _ref_split(s, sepname):
    """Reference for the splitting clauses: cut `s` at every match of the separator that lies at brace level 0, where the
    level is the running brace depth, an unmatched '}' is an ordinary character and a group that is never closed extends
    to the end of the string.  Returns the unstripped parts ([] for the empty string)."""
    pat = SEP_PATTERNS[sepname]
    if s == '':
        return []
    parts = []
    cur = ''
    i = 0
    n = len(s)
    while i < n:
        if s[i] == '{':
            d = 0
            j = i
            while j < n:
                if s[j] == '{':
                    d += 1
                elif s[j] == '}':
                    d -= 1
                    if d == 0:
                        j += 1
                        break
                j += 1
            cur += s[i:j]
            i = j
        else:
            j = s.find('{', i)
            if j < 0:
                j = n
            pieces = re.split(pat, s[i:j])
            cur += pieces[0]
            for p in pieces[1:]:
                parts.append(cur)
                cur = p
            i = j
    parts.append(cur)
    return parts


def _ref_stripped(s, sepname):
    parts = [p.strip() for p in _ref_split(s, sepname)]
    if sepname == 'space':
        parts = [p for p in parts if p]
    return parts


def _ref_first_letter(toks):
    """The first letter or special character in scan order ('' if there is none).  A special character is a brace-level-1
    token starting with a backslash that has something after the backslash."""
    for t, l in toks:
        if t in ('{', '}'):
            continue
        if t.startswith('\\') and t != '\\':
            return '{' + t + '}'
        if t.isalpha():
            return t
    return ''


def _ends_in_unclosed_special(s):
    """s contains a special character (level-0 group starting with backslash) that is never closed."""
    d = 0
    i = 0
    n = len(s)
    while i < n:
        c = s[i]
        if c == '{':
            if d == 0 and i + 1 < n and s[i + 1] == '\\':
                k = 1
                i += 1
                while i < n and k > 0:
                    if s[i] == '{':
                        k += 1
                    elif s[i] == '}':
                        k -= 1
                    i += 1
                if k > 0:
                    return True
                continue
            d += 1
        elif c == '}' and d > 0:
            d -= 1
        i += 1
    return False


def _depth_sat(s):
    """brace depth at the end of s by BibTeX's rule: a '}' at depth 0 does not lower the depth (Spec.depthSat)"""
    d = 0
    for c in s:
        if c == '{':
            d += 1
        elif c == '}' and d > 0:
            d -= 1
    return d


def _length_changing(s):
    """the letters of s whose upper- or lower-case form is not one character"""
    return [c for c in s if len(c.upper()) != 1 or len(c.lower()) != 1]


def _fold(x):
    """'up to case': Unicode case folding after upper-casing (str.lower on ASCII); ı/I, ſ/S, ß/SS/ẞ, ς/σ/Σ are identified"""
    return x.upper().casefold()


CLAUSES = {
    'scan_lossless': 'scanning is lossless on balanced input (tokens concatenate to the string)',
    'scan_levels': 'levels are the running brace depth, never negative, 0 at the end of balanced input',
    'len_counts': 'text length ignores braces and counts a special character once (brace-free strings: plain length)',
    'prefix_len': 'text prefix of n has text length min(n, length); nothing for n <= 0',
    'prefix_shape': 'the text prefix is a prefix of the string followed by the closing braces it needs',
    'substring_spec': "substring is BibTeX's 1-based, end-relative-for-negative-start, clamped selection",
    'purify_range': 'purify yields only alphanumerics and spaces',
    'purify_idem': 'purify is idempotent',
    'case_len': 'case change preserves length',
    'case_letters': 'case change preserves letters up to case',
    'case_idem': 'case change is idempotent',
    'case_braces': 'inside braces case change alters nothing except the non-command words of a special character',
    'case_mode': 'the case-change laws hold for every mode letter (l, u, t in either case, first character of the mode string)',
    'split_braces': 'top-level splitting never splits inside braces',
    'split_drops_seps': 'top-level splitting drops only separators (and cuts at every brace-level-0 separator)',
    'through_builtins': 'the same functions observed through substring$ / text.prefix$ / purify$ / change.case$ / text.length$ / num.names$',
    'first_letter': '[anchored mechanism, not in the statement] the first letter is the first letter or special character in scan order',
    'abbreviate': '[anchored mechanism, not in the statement] abbreviation joins the first letters of the top-level hyphen pieces that have one',
    'no_internal': 'no internal (non-pybtex) exception',
}


def _walk_errors(x, path, bad, s):
    if _is_err(x):
        if x['error'].startswith('INTERNAL'):
            bad('no_internal', '%s raised %s on %r' % (path, x['error'], s))
    elif isinstance(x, dict):
        for k, v in x.items():
            _walk_errors(v, '%s.%s' % (path, k) if path else str(k), bad, s)
    elif isinstance(x, list):
        for v in x:
            if isinstance(v, (dict, list)):
                _walk_errors(v, path, bad, s)


def _check_split(bad, s, name, sepname, got_raw, got_stripped):
    """the two splitting clauses on one separator: `got_raw` = unstripped parts (or None), `got_stripped` = what the call
    site returns (or None)"""
    if got_raw is not None and not _is_err(got_raw):
        want = _ref_split(s, sepname)
        if got_raw != want and not (s == '' and got_raw == ['']):
            if _balanced(s) and any(not _balanced(p) for p in got_raw):
                bad('split_braces', 'splitting balanced %r at %s gives %r: a part is cut inside braces' % (s, sepname, got_raw))
            else:
                bad('split_drops_seps', 'splitting %r at %s gives %r, cutting at the brace-level-0 separators gives %r' % (s, sepname, got_raw, want))
    if got_stripped is not None and not _is_err(got_stripped):
        want = _ref_stripped(s, sepname)
        if got_stripped != want and not (s == '' and got_stripped == ['']):
            if _balanced(s) and any(not _balanced(p) for p in got_stripped):
                bad('split_braces', '%s(%r) = %r: a part is cut inside braces' % (name, s, got_stripped))
            else:
                bad('split_drops_seps', '%s(%r) = %r, cutting at the brace-level-0 separators (parts stripped) gives %r' % (name, s, got_stripped, want))


def _check_case(bad, s, label, cc, again, toks, balanced, scan):
    """the case-change clauses on one result `cc` (`again` = the same conversion applied to cc)"""
    unclosed = _ends_in_unclosed_special(s)
    multi = _length_changing(s)
    if len(cc) != len(s):
        tag = ''
        if unclosed:
            tag = ' [unclosed special character]'
        elif multi and 0 < len(cc) - len(s) <= sum(max(len(c.upper()), len(c.lower())) - 1 for c in multi):
            tag = ' [length-changing letter]'
        bad('case_len', '%s = %r changes the length%s' % (label, cc, tag))
    if _fold(cc) != _fold(s) and not (unclosed and _fold(cc) == _fold(s) + '}'):
        bad('case_letters', '%s = %r' % (label, cc))
    if again != cc:
        bad('case_idem', '%s = %r, again = %r%s' % (label, cc, again, ' [unclosed special character]' if unclosed else ''))
    if balanced and not _is_err(toks):
        t2 = _call(lambda: [[t, l] for t, l in scan(cc)])
        if not _is_err(t2) and len(t2) == len(toks):
            for (a, la), (b, lb) in zip(toks, t2):
                if la >= 1 and not (la == 1 and a.startswith('\\')) and a != b:
                    bad('case_braces', '%s = %r alters %r inside braces' % (label, cc, a))
                    break
                if la == 1 and a.startswith('\\'):
                    wa, wb = a.split(' '), b.split(' ')
                    if len(wa) != len(wb) or any(x.startswith('\\') and x != y for x, y in zip(wa, wb)):
                        bad('case_braces', '%s = %r alters a command of a special character' % (label, cc))
                        break


def _check_word_ops(bad, w, io):
    """facts about str.lower / str.upper the case-change clauses rest on (evaluated on the interpreter's answers)"""
    lo, up = io['lower'], io['upper']
    if lo.lower() != lo:
        bad('case_idem', 'lower(%r) = %r is not stable under lower' % (w, lo))
    if up.upper() != up:
        bad('case_idem', 'upper(%r) = %r is not stable under upper' % (w, up))
    if len(lo) < len(w) or len(up) < len(w):
        bad('case_len', 'lower/upper of %r is shorter than the word' % w)
    if in_case_domain(w) and (len(lo) != len(w) or len(up) != len(w)):
        bad('case_len', 'lower/upper of %r (no length-changing letter) changes the length' % w)
    return None


def oracle(case, io, reply):
    from pybtex.bibtex import utils
    s = case.get('s', '')
    spec = reply.get('spec', {})
    fails = []

    def bad(clause, msg):
        fails.append('%s: %s' % (clause, msg))

    if case['op'] == 'texconsts':
        return fails
    if case['op'] == 'texcase':
        return _check_word_ops(bad, case['w'], io) or fails
    _walk_errors(io, '', bad, s)
    if case['op'] == 'texsplit':
        _check_split(bad, s, 'split_name_list', 'and', io['raw_and'], io['and'])
        _check_split(bad, s, 'split_tex_string', 'space', io['raw_space'], io['space'])
        if not _is_err(io['and']) and io['num.names$'] != len(io['and']):
            bad('through_builtins', 'num.names$(%r) = %r, split_name_list gives %d names' % (s, io['num.names$'], len(io['and'])))
        return fails

    balanced = _balanced(s)
    toks = io['scan']
    b = io['b']
    if not _is_err(toks):
        joined = ''.join(t for t, _ in toks)
        if balanced and joined != s:
            bad('scan_lossless', 'tokens of balanced %r concatenate to %r' % (s, joined))
        if not balanced and joined != s and not (joined == s + '}' and _ends_in_unclosed_special(s)):
            bad('scan_lossless', 'tokens of %r concatenate to %r' % (s, joined))
        if balanced:
            d = 0
            ok = True
            for t, l in toks:
                if t == '{':
                    d += 1
                elif t == '}':
                    d -= 1
                ok = ok and l == d
                if d < 0 or l < 0:
                    ok = False
            if not ok or d != 0:
                bad('scan_levels', 'levels of balanced %r are %r' % (s, toks))
        for name, n in (('bibtex_len', io['len']), ('text.length$', b['text.length$'])):
            if not _is_err(n):
                if '{' not in s and '}' not in s and n != len(s):
                    bad('len_counts', '%s: brace-free %r has text length %r' % (name, s, n))
                if n != sum(1 for t, _ in toks if t not in ('{', '}')):
                    bad('len_counts', '%s: text length of %r is %r but it has %d non-brace tokens' % (name, s, n, sum(1 for t, _ in toks if t not in ('{', '}'))))
    n = io['len']
    unclosed_special = _ends_in_unclosed_special(s)
    if not _is_err(n):
        for name, prefixes in (('bibtex_prefix', io['prefix']), ('text.prefix$', b['text.prefix$'])):
            for cnt, p in zip(case['ns'], prefixes):
                if _is_err(p):
                    continue
                if cnt <= 0:
                    if p != '':
                        bad('prefix_len', '%s(%r, %d) = %r, expected the empty string' % (name, s, cnt, p))
                    continue
                pl = _call(utils.bibtex_len, p)
                if pl != min(cnt, n):
                    bad('prefix_len', '%s(%r, %d) = %r has text length %r, expected %d' % (name, s, cnt, p, pl, min(cnt, n)))
                core = p.rstrip('}')
                k = len(p) - len(core)
                # p = q + '}'*j with q a prefix of s, for some j <= k
                if not any(s.startswith(p[:len(p) - j]) for j in range(k + 1)):
                    bad('prefix_shape', '%s(%r, %d) = %r is not a prefix of the string plus closing braces' % (name, s, cnt, p))
                elif balanced and not _balanced(p):
                    bad('prefix_shape', '%s(%r, %d) = %r does not close the braces it opened' % (name, s, cnt, p))
                elif not unclosed_special:
                    # what the text says, with BibTeX's depth (a '}' at depth 0 does not lower it; a net count of braces is
                    # something else behind an unmatched '}'): every group the prefix opened is closed, and the result is a
                    # prefix q of the string followed by exactly depth(q) closers
                    if _depth_sat(p) != 0:
                        bad('prefix_shape', '%s(%r, %d) = %r does not close the braces it opened (depth %d at its end)' % (
                            name, s, cnt, p, _depth_sat(p)))
                    elif not any(s.startswith(p[:len(p) - j]) and _depth_sat(p[:len(p) - j]) == j for j in range(k + 1)):
                        bad('prefix_shape', '%s(%r, %d) = %r is not a prefix of the string plus exactly the closers of the groups it left open' % (
                            name, s, cnt, p))
    for name, subs in (('bibtex_substring', io['substring']), ('substring$', b['substring$'])):
        for (a, c), got, want in zip(case['subs'], subs, spec.get('substring', [])):
            if got != want:
                bad('substring_spec', '%s(%r, %d, %d) = %r, BibTeX gives %r' % (name, s, a, c, got, want))
    for name, pu, again_f in (('bibtex_purify', io['purify'], utils.bibtex_purify),
                              ('purify$', b['purify$'], lambda x: _builtin('purify$', x))):
        if not _is_err(pu):
            if any(not (c.isalnum() or c == ' ') for c in pu):
                bad('purify_range', '%s(%r) = %r' % (name, s, pu))
            again = _call(again_f, pu)
            if again != pu:
                bad('purify_idem', '%s(%r) = %r but purifying again gives %r' % (name, s, pu, again))
    for m in 'lut':
        cc = io['case'][m]
        if _is_err(cc):
            continue
        _check_case(bad, s, 'change_case(%r, %s)' % (s, m), cc, _call(utils.change_case, cc, m), toks, balanced, utils.scan_bibtex_string)
    for mode, cc in zip(case.get('modes', []), b['change.case$']):
        if mode[:1] in tuple('lutLUT'):
            direct = io['case'][mode[0].lower()]
            if _is_err(cc):
                if not _is_err(direct):
                    bad('case_mode', 'change.case$(%r, %r) raised %s although %r is a mode letter' % (s, mode, cc['error'], mode[0]))
                continue
            _check_case(bad, s, 'change.case$(%r, %r)' % (s, mode), cc, _call(_builtin, 'change.case$', cc, mode), toks, balanced,
                        utils.scan_bibtex_string)
    # splitting: the call sites (strip=True; split_name_list for ' and ') and the unstripped pieces
    for k in SEPS:
        _check_split(bad, s, 'split_name_list' if k == 'and' else 'split_tex_string[%s]' % k, k, io['raw'][k], io['split'][k])
    if not _is_err(io['split']['and']) and b['num.names$'] != len(io['split']['and']):
        bad('through_builtins', 'num.names$(%r) = %r, split_name_list gives %d names' % (s, b['num.names$'], len(io['split']['and'])))
    # first letter / abbreviation (anchored mechanism)
    fl = io['firstletter']
    if not _is_err(fl) and not _is_err(toks):
        want = _ref_first_letter(toks)
        if fl != want:
            bad('first_letter', 'bibtex_first_letter(%r) = %r, the first letter or special character is %r' % (s, fl, want))
    for delim, ab in [(None, io['abbreviate'])] + list(zip(case.get('delims', []), io['abbrev_d'])):
        if _is_err(ab):
            continue
        letters = []
        ok = True
        for piece in _ref_stripped(s, 'hyphen'):
            t = _call(lambda: [[t, l] for t, l in utils.scan_bibtex_string(piece)])
            if _is_err(t):
                ok = False
                break
            letters.append(_ref_first_letter(t))
        if ok:
            want = ('.-' if delim is None else delim).join(x for x in letters if x)
            if ab != want:
                bad('abbreviate', 'bibtex_abbreviate(%r, %r) = %r, the first letters of the hyphen pieces give %r' % (s, delim, ab, want))
    return fails


KNOWN_MATCHERS = {
    'C12-unclosed-special-char': lambda case, io, f: (f.startswith(('case_len:', 'case_idem:')) and f.endswith('[unclosed special character]')),
    'C12-case-length-changing-letter': lambda case, io, f: (f.startswith('case_len:') and f.endswith('[length-changing letter]')
                                                             and bool(_length_changing(case['s']))),
}


def buckets(case, io):
    if case['op'] == 'texconsts':
        return ['texconsts']
    if case['op'] == 'texcase':
        w = case['w']
        return ['texcase', 'texcase:' + ('sigma' if 'Σ' in w else 'multi' if not in_case_domain(w) else 'block' if len(w) > 64 else 'word')]
    s = case['s']
    b = [case['op']]
    if '{' in s or '}' in s:
        b.append('braces:' + ('balanced' if _balanced(s) else 'unbalanced'))
    if '{\\' in s:
        b.append('special-char')
    if _is_err(io.get('scan')):
        b.append('too-deep')
    if any(ord(c) > 127 and c.isalnum() for c in s):
        b.append('non-ascii-alnum')
    if not in_case_domain(s):
        b.append('outside-case-domain')
    if re.search(r'(?i)\sand\s', s):
        b.append('and-separator-shape')
    b.append('len=%d' % min(len(s), 8))
    return b


def nontrivial(case, io):
    if case['op'] == 'texconsts':
        return True
    if case['op'] == 'texcase':
        return io['lower'] != case['w'] or io['upper'] != case['w']
    s = case['s']
    return any(c in s for c in '{}\\~- ,')


def corpus():
    return corpus_for(ID)


def valid_case(case):
    if isinstance(case, dict) and case.get('op') == 'texconsts':
        return True
    if isinstance(case, dict) and case.get('op') == 'texcase':
        return isinstance(case.get('w'), str)
    if not isinstance(case, dict) or not isinstance(case.get('s'), str) or case.get('op') not in ('texall', 'texsplit'):
        return False
    if case['op'] == 'texsplit':
        return True
    return (isinstance(case.get('ns'), list) and all(isinstance(n, int) for n in case['ns']) and
            isinstance(case.get('subs'), list) and all(isinstance(p, list) and len(p) == 2 and all(isinstance(x, int) for x in p) for p in case['subs']) and
            all(isinstance(m, str) for m in case.get('modes', [])) and all(isinstance(m, str) for m in case.get('delims', [])))


def _mk(s, modes=MODES):
    n = len(s)
    rng_ = range(-(n + 2), n + 3)
    return {'op': 'texall', 'fn': 'all', 's': s, 'ns': list(range(-1, n + 3)), 'subs': [[a, b] for a in rng_ for b in rng_],
            'modes': list(modes), 'delims': list(DELIMS)}


HUGE = [10 ** 20, -10 ** 20, 2 ** 63, -2 ** 63 - 1, 2 ** 64 + 1]


def _mk_random(s, rng):
    n = len(s)
    big = rng.random() < 0.15     # arguments far beyond every bound (Python integers are unbounded; BibTeX's are not)
    return {'op': 'texall', 'fn': 'all', 's': s,
            'ns': sorted({-1, 0, 1, 2, n, n + 1, rng.randint(0, n + 1), rng.randint(0, n + 1)} | ({rng.choice(HUGE)} if big else set())),
            'subs': [[rng.randint(-n - 3, n + 3), rng.randint(-2, n + 3)] for _ in range(12)] + [[1, n], [-1, n], [-2, n + 5], [2, -1], [-n - 2, 1]] +
                    ([[rng.choice(HUGE), rng.randint(-2, n + 3)], [rng.randint(-n - 3, n + 3), rng.choice(HUGE)], [rng.choice(HUGE), rng.choice(HUGE)]] if big else []),
            'modes': [rng.choice(MODE_POOL) for _ in range(3)], 'delims': [rng.choice(['', '.', '. ', '.~', '-'])]}


SYMBOLS = ['–', '€', ' ', ' ', '　', '×', ' ']
WS = [chr(c) for c in (9, 10, 11, 12, 13, 28, 29, 30, 31, 32, 133, 160, 5760, 8192, 8199, 8232, 8233, 8239, 8287, 12288)]
# non-ASCII letters / digits inside the model's domain: cased pairs, letters whose other case is ASCII or a third letter
# (ı ſ µ K ẞ), title case (ǅ), caseless letters, digits and numerics that isalnum() accepts, a combining mark (not alnum)
UNI_IN = list('éÉöÖłŁдДẞ') + ['ı', 'ſ', 'µ', 'K', 'ǅ', 'ǆ', '中', 'ב', '٣', '²', '①', 'ⅷ', '́', 'ς', 'σ']
# outside: upper- or lower-case form of another length, and the capital sigma
UNI_OUT = ['ß', 'İ', 'ŉ', 'ǰ', 'ﬁ', 'ΐ', 'Σ', 'ﬃ', 'և']
WIDTH_STRINGS = ['{x\\y}', '{x\\}', '{xy\\}', '{x \\y z}', '{x{\\y}}', '{{\\y}}', '{x\\y\\z}', '{x}{\\y}', "{x\\y}{\\'z}", '{x{y\\z}w}', "{\\'c}",
                 "{\\'c{d}}", '{\\TeX book}', '{\\ss}', '{\\o}', '{x\\y', '{x{\\y', '{\\x', '}{x\\y}', '{x\\y}}', 'a\\b']
NAMES = ["\\'Emile Zola", "Jean--Pierre", "-A", "A-", "--", "Rodr\\'{\\i}guez", "{\\TeX}-x", "\\", "\\\\a", "{\\}x", "1-2-a", "a-{b-c}-d",
         "Jean-{\\'E}mile", "{-}a", "\\LaTeX Project Team", "123 123 123 {}", "{Andrew} Blake", "d'-Aviano", "é-Édouard", "毛-泽东", "-ß"]


SIGMA_ALPHABET = ['Σ', 'α', 'A', "'", '\u0301', ' ', '1', '\u02b0']   # capital sigma, cased, case-ignorable (incl. cased AND ignorable U+02B0), neither
SIGMA_STRINGS = ['ΑΣ', 'ΑΣ.', "ΑΣ'", "ΑΣ'α", 'Σ', 'ΣΑ', 'ΑΣ ΣΑ', 'ΟΔΥΣΣΕΥΣ', 'aΣ\u0301', 'İΣ', 'ßΣ', 'ΑΣ:', ': ΑΣ', 'ΑΣ\\x', '\\xΣ']
BLOCK = 1024


def _word_scope(tier):
    """cases for the two string methods (op texcase): every word of length <= 4 over SIGMA_ALPHABET containing a capital
    sigma; every letter whose case mapping changes the length, alone and in four neighbourhoods; the code points of Unicode in
    blocks of 1024 (quick: the blocks that contain a character with a case mapping; thorough: all)"""
    out = []
    for n in range(1, 5):
        for tup in itertools.product(SIGMA_ALPHABET, repeat=n):
            if 'Σ' in tup:
                out.append({'op': 'texcase', 'w': ''.join(tup)})
    n_sigma = len(out)
    multi = [chr(c) for c in range(0x110000) if not 0xD800 <= c <= 0xDFFF and (len(chr(c).upper()) != 1 or len(chr(c).lower()) != 1)]
    for c in multi:
        for tmpl in ('%s', 'a%sB', '%sΣ', 'Σ%s', '%s%s'):
            out.append({'op': 'texcase', 'w': tmpl.replace('%s', c)})
    n_blocks = 0
    for lo in range(0, 0x110000, BLOCK):
        w = ''.join(chr(c) for c in range(lo, lo + BLOCK) if not 0xD800 <= c <= 0xDFFF)
        if w and (tier == 'thorough' or w.lower() != w or w.upper() != w):
            out.append({'op': 'texcase', 'w': w})
            n_blocks += 1
    return out, n_sigma, len(multi), n_blocks


# unmatched closing braces at depth 0 in front of groups / special characters (the prefix must close what it opened)
PREFIX_STRINGS = ['}cd {efg} h', 'x}y{z{w', '}{\\a b}c', '}}{a{b}c}', 'a}{\\x y}{z w}', '}{a}{b', '}a}{{b}c', '}{{\\a}b}', 'a}}b{c d{e}f}g']


def _random_string(rng):
    kind = rng.random()
    if kind < 0.06:
        depth = rng.choice([50, 99, 100, 101, 120])
        inner = rng.choice(['x', '\\a b', ''])
        s = '{' * depth + inner + '}' * rng.choice([depth, depth - 1, 0])
        return rng.choice(['', 'a ']) + s
    n = rng.randint(5, 60)
    pool = ALPHABET * 3 + list('abcXYZ019,.;!?\'"@#$%&_^') + list('andANDnd') + WS[:6] + [
        ' and ', ' AND ', ' aNd ', '\tand\t', ' and', 'and ', '{\\', '{\\"o}', "{\\'e}", '\\ ', '\\~', '--', ': ', '{ }', ', '] + SYMBOLS[:3]
    if kind < 0.30:
        pool = pool + UNI_IN * 2 + (UNI_OUT if kind < 0.12 else [])
        n = rng.randint(3, 30)
    body = ''.join(rng.choice(pool) for _ in range(n))
    if rng.random() < 0.1:
        body = rng.choice(['}', '}}', 'a}', '} ']) + body
    return body


def _and_scope(maxlen):
    """every string of length <= maxlen over AND_ALPHABET that contains 'and' in some letter case"""
    out = []
    for n in range(3, maxlen + 1):
        for tup in itertools.product(AND_ALPHABET, repeat=n):
            s = ''.join(tup)
            if 'and' in s.lower():
                out.append({'op': 'texsplit', 's': s})
    return out


def gen_cases(tier, rng, info):
    maxlen = 4 if tier == 'quick' else 5
    cases = []
    for n in range(0, maxlen + 1):
        for tup in itertools.product(ALPHABET, repeat=n):
            cases.append(_mk(''.join(tup)))
    n_main = len(cases)
    seen = {c['s'] for c in cases}
    for n in range(1, 5):
        for tup in itertools.product(COMMA_ALPHABET, repeat=n):
            if ',' in tup and ''.join(tup) not in seen:
                cases.append(_mk(''.join(tup)))
    n_comma = len(cases) - n_main
    and_cases = _and_scope(7)
    cases.extend(and_cases)
    cases.append({'op': 'texconsts'})     # the constants the model hard-codes against the source of the tree under test
    word_cases, n_sigma, n_multi, n_blocks = _word_scope(tier)
    cases.extend(word_cases)
    info['exhaustive'] = True
    info['scope'] = ('str.lower / str.upper (op texcase): all %d words of length <= 4 over %r containing a capital sigma, the %d letters whose case '
                     'mapping changes the length in 5 neighbourhoods, %d blocks of %d consecutive code points (%s); ' % (
                         n_sigma, SIGMA_ALPHABET, n_multi, n_blocks, BLOCK,
                         'every code point of Unicode' if tier == 'thorough' else 'every block with a character that has a case mapping')) + \
                    ('all %d strings of length <= %d over %r and all %d strings of length <= 4 over %r containing a comma, x all prefix '
                     'counts and (start,length) windows in/beyond bounds, x the change.case$ modes %r; all %d strings of length <= 7 over '
                     '%r containing "and" (any case) through split_name_list / num.names$ / the default splitter' % (
                         n_main, maxlen, ALPHABET, n_comma, COMMA_ALPHABET, MODES, len(and_cases), AND_ALPHABET))
    # names with a brace-level-0 backslash, empty hyphen pieces, special characters (first letter / abbreviation)
    for s in NAMES:
        cases.append(_mk(s, MODE_POOL[:9]))
    # width: ordinary groups with a backslash further in (every character counts), special characters next to them, unclosed groups
    for s in WIDTH_STRINGS:
        for tmpl in ('%s', 'a%sb', '{q}%s', "{\\'e}%s", '{%s}', 'x{y%sz}w'):
            cases.append(_mk(tmpl.replace('%s', s)))
    # the letters whose case mapping changes the length (no model: the clauses on the implementation alone)
    for c in UNI_OUT + UNI_IN:
        for tmpl in ('%s', 'a%sB', '{\\x a%s}', '{%s}', ': %s', '%s-%s'):
            cases.append(_mk(tmpl.replace('%s', c), ['U', 'title', 'l']))
    for w in PREFIX_STRINGS:
        cases.append(_mk(w))
    # the capital sigma: character by character at brace level 0 (never final), by context inside a special character
    for w in SIGMA_STRINGS:
        for tmpl in ('%s', '{\\x %s}', '{\\x a %s b}', '{%s}', 'a{\\%s}', '{\\x %s'):
            cases.append(_mk(tmpl.replace('%s', w), ['U', 'title', 'l']))
    if tier == 'thorough':
        for _ in range(50000):
            cases.append(_mk(''.join(rng.choice(ALPHABET) for _ in range(6))))
        for _ in range(50000):
            n = rng.randint(8, 14)
            cases.append({'op': 'texsplit', 's': ''.join(rng.choice(AND_ALPHABET + ['and', 'And', ' and ', 'N', 'D']) for _ in range(n))})
    for _ in range(5000 if tier == 'quick' else 40000):
        cases.append(_mk_random(_random_string(rng), rng))
    return cases


THEOREMS = {
    'C12_substring_spec': 'substring is BibTeX\'s 1-based, end-relative-for-negative-start, clamped selection (empty for start 0 or length <= 0), for ALL integer arguments',
    'C12_balanced_specials_closed': 'every brace-balanced string has all its special characters closed (the hypothesis of the lossless/case theorems holds on balanced input)',
    'C12_scan_lossless': 'scanning is lossless whenever every special character is closed (in particular on balanced input); in general the only difference is one "}" appended after an unclosed special character',
    'C12_scan_lossless_neg': 'witness "{\\": without the hypothesis losslessness fails (the scanner closes the unclosed special character)',
    'C12_scan_levels': 'where the depth never goes negative and special characters are closed, every token level is the running brace depth of the text consumed so far (never negative); on balanced input the last level is 0',
    'C12_scan_total': 'the scanner raises "too many nested braces" exactly when the nesting depth exceeds 100',
    'C12_len_spec': 'text length = reference text length (braces never counted, a special character once, other characters once) or the nesting error',
    'C12_len_plain': 'text length of a brace-free string is its length',
    'C12_len_braces': 'braces themselves are never counted (no backslash: length = number of non-brace characters)',
    'C12_len_special': 'a closed special character {\\...} with a balanced body AT THE HEAD of the string counts exactly once: text length = 1 + text length of the arbitrary rest (nesting within the limit); special characters at other positions are covered by C12_len_spec against the reference count',
    'C12_prefix_len': 'the text prefix of n >= 0 has text length min(n, text length)',
    'C12_prefix_nonpos': '[model wiring] the text prefix is empty for n <= 0: this is the first test of the model of the repaired code (fix fd32373), restated; that bibtex_prefix / text.prefix$ behave so is carried by the correspondence check (every count from -1 on every exhaustive string)',
    'C12_prefix_is_prefix': 'the text prefix is a prefix of the string followed by exactly the closing braces it left open (a prefix of s + "}" after an unclosed special character)',
    'C12_depthSat_depthAfter': 'the saturating depth used in C12_prefix_is_prefix is the brace depth wherever that never goes negative',
    'C12_purify_range': 'purify yields only ASCII letters, digits and spaces',
    'C12_purify_idem': 'purify is idempotent',
    'C12_case_len_partial': 'case change preserves length when every special character is closed',
    'C12_case_len_neg': 'witness "{\\": case change on an unclosed special character lengthens the string (known finding C12-unclosed-special-char)',
    'C12_case_letters': 'case change keeps every letter up to case and every other character, when every special character is closed',
    'C12_case_letters_neg': 'witness "{\\": letters-up-to-case fails on an unclosed special character',
    'C12_case_idem_partial': 'case change is idempotent when every special character is closed',
    'C12_case_idem_neg': 'witness "{\\{": case change is not idempotent on an unclosed special character with a further open brace',
    'C12_case_braces': 'inside braces case change changes nothing except the non-command words of a special character',
    'C12_split_braces': 'top-level splitting never splits inside braces: on balanced input every part is balanced',
    'C12_split_drops_seps': 'top-level splitting drops only separators: the balanced input is the parts in order with exactly one separator match between consecutive parts',
    'C12_split_fuel': 'the fuel (length + 1) of the two loops of the splitting model is never exhausted',
    # round 2: the primitives over the character tables of the running interpreter
    'C12_generic_at_ascii': 'the character-class generic primitives (what the check drives) are, at the ASCII operations, the primitives the theorems above are about',
    'C12_purify_range_unicode': 'purify yields only alphanumerics (str.isalnum of the running interpreter, regenerated table) and blanks',
    'C12_purify_idem_unicode': 'purify is idempotent (Unicode alphanumerics)',
    'C12_case_fold_canonical': '"equal up to case" has a canonical form lower(upper(c)) that absorbs both case mappings and leaves the structural characters alone (lower alone is not canonical: ı -> I -> i)',
    'C12_case_letters_unicode': 'case change (Unicode single-character mapping) keeps every letter up to case and every other character, when every special character is closed',
    'C12_case_len_unicode': 'case change preserves the length when every special character is closed (about the code on caseDomain: no letter whose case mapping changes the length, no capital sigma)',
    'C12_case_idem_unicode': 'case change is idempotent when every special character is closed (Unicode mapping)',
    'C12_case_braces_unicode': 'inside braces case change changes nothing except the non-command words of a special character (Unicode mapping)',
    'C12_case_domain': '[model wiring] literal evaluations of the domain predicate: a plain string is inside, Straße and the one-letter strings İ ŉ ǰ ﬁ Σ are outside; table sizes 102 (longer upper-case form) and 1 (U+0130); that ALL these letters are excluded is the definition of caseDomainC, not this theorem (finding C12-case-length-changing-letter)',
    'C12_change_case_mode': 'every mode letter: change.case$ looks at the first character of the mode string only, l/L u/U t/T (no other character of Unicode lower-cases to one of them); empty and other modes are BibTeX errors',
    'C12_split_strip': '[model wiring] conjuncts 1-2 unfold the model (call sites get strip of each unstripped piece, empty ones dropped for the default separator only; split_name_list keeps empties): the bridge to the theorems on unstripped pieces; proved content is conjunct 3: strip removes white space at the two ends and nothing else (p = l + strip(p) + r, l and r white space)',
    'C12_split_stripped_balanced': 'on balanced input the stripped parts (call sites) are balanced: never split inside braces',
    'C12_split_top': 'EVERY string, balanced or not (after the repair C12-1): the parts in order with one separator match between consecutive parts give back the input, and every dropped separator lies at brace level 0 (an unmatched "}" is an ordinary character, an unclosed group extends to the end and is never split)',
    'C12_split_maximal': 'maximality, every string: no part contains a brace-level-0 match of the separator (for the default one: a white-space character, or a tie not after a backslash), i.e. no top-level separator is left inside a part; this does not by itself determine WHERE overlapping or adjacent matches are cut (that is C12_split_leftmost)',
    'C12_split_characterised': 'the two halves together (closes the SplitsTo.one loophole), every non-empty string: the pieces are A decomposition of the input into parts WITHOUT a top-level separator match, separated by top-level separator matches (such a decomposition need not be unique: "a and and b", "a\\ b"; the unique leftmost-match one is C12_split_leftmost)',
    'C12_split_leftmost': 'LEFTMOST MATCH, every non-empty string: the pieces are THE first-match decomposition (Spec.SplitsFirst, no model matcher): one COMPLETE top-level separator match (default: the whole greedy run) between consecutive parts, each the FIRST after the previous cut (none begins at a level-0 position before it, not even one reaching beyond the part); parts with these properties EQUAL the result',
    'C12_split_maximal_stripped': 'maximality for the stripped parts the call sites get',
    'C12_first_letter_spec': '[anchored mechanism] bibtex_first_letter = the first token in scan order that is a special character with a command (answered in braces) or a letter; a brace-level-0 backslash is skipped',
    'C12_first_letter_plain': '[anchored mechanism] without braces and backslashes the first letter is the first letter',
    'C12_abbreviate_spec': '[anchored mechanism][model wiring] unfolds the model, success direction only: IF bibtex_abbreviate returns r then r = the first letters (C12_first_letter_spec) of the stripped top-level hyphen pieces (C12_split_leftmost), empty ones skipped, order kept, joined with the delimiter (default ".-"); conjunct 3 is a tautology',
    'C12_width_plain': '[anchored mechanism] width of a brace-free string = sum of the character widths',
    'C12_width_special': '[anchored mechanism] a closed special character: its two braces + the characters after the first one of its command (inner braces not counted) - 1000',
    'C12_width_onepass': "[anchored mechanism] bibtex_width WITHOUT the scanner: on every string within 100 nesting levels it is the one-pass width Spec.widthOnePass (a brace counter only): outside a special character EVERY character adds its own width, braces and backslashes included; a special character is a { at brace level 0 directly followed by a backslash and nothing else (repair C03-2); what its text adds is pybtex's rule (finding C03-width-special-char-contents)",
    'C12_case_full_wiring': '[model wiring] the case-changing model with str.lower/str.upper as STRING operations (Model/TeXCaseFull.lean, what the check drives, no domain restriction), run with character-by-character operations, is the character-level model of the theorems above',
    'C12_case_full_on_domain': 'hypothesis caseDomain s (no letter whose case mapping changes the length, no capital sigma): the model with the interpreter\'s full str.lower (expansion of U+0130, final-sigma rule) and str.upper (102 expansions) equals the character-by-character model, for change_case with every mode and change.case$ with every mode string; so the _unicode theorems are about what the check compares with the code',
    'C12_case_len_full_partial': 'hypotheses caseDomain s and every special character closed: the unrestricted model preserves the length and every letter up to case',
    'C12_case_len_full_neg': 'witnesses ß (u) -> SS, U+0130 (l) -> i + U+0307, {\\x ﬁ} (u) -> {\\x FI}: without caseDomain length preservation fails with all special characters closed (finding C12-case-length-changing-letter as a fact of the driven model)',
    'C12_case_len_full_ge': 'EVERY string within the nesting limit (change_case accepts it), every mode, no other hypothesis: case change (full case mapping, unclosed special characters included) never makes the string shorter',
    'C12_case_plain_str_methods': 'EVERY string without braces (length-changing letters and the capital sigma included): change_case(s, u) IS s.upper(); change_case(s, l) is the character-by-character lower-casing, which is s.lower() when s has no capital sigma (with one, the sigma is never final at brace level 0: witness in _nonvacuous)',
    'C12_word_ops_idem': 'str.lower and str.upper as modelled from the regenerated tables of the interpreter (full mapping, final sigma) are idempotent on EVERY string',
    'C12_case_upper_idem_plain': 'EVERY string without braces, no caseDomain hypothesis: upper-casing is idempotent (ß -> SS -> SS)',
    'C12_case_braces_full': 'EVERY string change_case accepts (brace nesting within max_level; no caseDomain, no closedness hypothesis), every mode (full case mapping, capital sigma, unclosed special characters): the result is the input token by token with levels kept; a token inside braces that is not a special character is unchanged; in a special character the words stay in place, command words are unchanged, every other word is itself, its str.lower or its str.upper',
    'C12_prefix_closes_opened': 'hypothesis every special character of s closed; every count: the text prefix scanned with BibTeX\'s depth rule (a "}" at depth 0 does not lower the depth) ends at depth 0 -- every group it opened is closed, also behind unmatched closing braces -- and it is a prefix q of s followed by exactly depthSat(q) closers',
    'C12_width_literal': '[anchored mechanism] "takes the literal literally": a string without special character (no { at brace level 0 directly followed by a backslash) within 100 nesting levels has the sum of the widths of its characters, whatever they are - {x\\y} counts its five characters',
}

LEVEL_TEXT = ('Machine-checked proofs (Lean 4) about the executable model of pybtex/bibtex/utils.py (+ the mode handling of change.case$), '
              'for ALL strings and ALL integer arguments: substring = BibTeX substring$ for every (start, length); the scanner is lossless '
              'exactly up to the "}" it appends after an unclosed special character, its levels are the running brace depth, and it fails '
              'exactly beyond 100 nested braces; text length = an independent reference count; the text prefix has text length '
              'min(n, length), is empty for n <= 0, and is a prefix plus exactly the closing braces it left open; purify yields only '
              'alphanumerics and blanks and is idempotent; case change preserves length and letters up to case, is idempotent (all three '
              'under "every special character is closed", with machine-checked counterexamples without it) and inside braces touches only '
              'the non-command words of a special character -- purify and case change both over ASCII and over the character tables of '
              'the running interpreter (str.isalnum, single-character str.lower/str.upper, regenerated on every run; "up to case" = the '
              'canonical form lower(upper(c)), proved canonical from kernel-evaluated table checks); the model that is compared with the code '
              'runs str.lower / str.upper as string operations on EVERY string (full case mapping, final sigma) and is proved equal to the '
              'character-by-character model on caseDomain, never to shorten a string, to be s.upper() / character-wise lower on brace-free '
              'strings, with upper-casing idempotent there; the text prefix closes every group it opened (BibTeX depth, also behind unmatched '
              'closing braces); change.case$ accepts exactly the '
              'mode letters l/L u/U t/T as first character; top-level splitting of EVERY string (balanced or not) gives back the input '
              'with one separator match between consecutive parts, every dropped separator at brace level 0, and NO top-level separator '
              'match left inside a part (maximality), for the unstripped pieces and for the stripped parts the call sites get; the '
              'unstripped pieces are moreover THE leftmost-match decomposition (each separator is the first complete top-level match '
              'after the previous cut), which is proved unique; '
              'bibtex_first_letter / bibtex_abbreviate / bibtex_width are characterised. The model is tied to the code by the differential '
              'check (exhaustive over all strings of length <= 4 over a 10-character alphabet (+ a comma alphabet) x all counts/windows x a mode family, all '
              'strings <= 7 over the "and" alphabet containing "and", sampled beyond; utils functions and the real built-ins).')
LEVEL_NOTE = ('Trusted: Lean kernel; axioms propext/Classical.choice/Quot.sound only; the hand-written models (Model/TeXString.lean, '
              'Model/TeXStringU.lean) and reference notions (Spec/TeXString.lean: substring, depthAfter, balanced, maxDepth, endsInSpecial, '
              'depthSat, textLength, SplitsTo/SplitsTop, HasTopSep and the separator predicates, firstLetterOf; Spec/TeXSplitFirst.lean: '
              'SplitsFirst with "a match begins here" / "complete match" per separator) correspond to the code only '
              'as far as the differential check explores; re.split on the four separator shapes is modelled by hand matchers; the '
              'character tables are those of the interpreter the check runs on. The three case-change laws are false of the code on '
              'strings with an unclosed special character (known finding C12-unclosed-special-char; C12_case_len_neg, '
              'C12_case_letters_neg, C12_case_idem_neg are the proved witnesses). Length preservation is false of the code on strings with a '
              'letter whose case mapping is not one character (known finding C12-case-length-changing-letter; C12_case_len_full_neg is the '
              'proved witness); such strings and the capital sigma are outside caseDomain, the hypothesis of the length / letters / idempotence '
              'theorems, but inside the model that is compared with the code (Model/TeXCaseFull.lean; str.lower\'s final-sigma rule is a hand '
              'model of CPython\'s handle_capital_sigma). The splitting theorems for unbalanced input describe the code AFTER the repair proposed_fixes/C12-1 '
              '(_find_closing_brace: an unclosed group extends to the end of the string). bibtex_width is described AFTER the repair proposed_fixes/C03-2 (a backslash inside an ordinary group '
              'is no special character); it is proved equal to a scanner-free one-pass width (C12_width_onepass), whose treatment of the TEXT of a special '
              'character is pybtex\'s, not BibTeX\'s (finding C03-width-special-char-contents, recorded for C03). The first-letter / abbreviation / width theorems '
              'and oracle clauses are about the anchored mechanism; the statement of the property has no clause for them.  Theorems marked '
              '[model wiring] (C12_prefix_nonpos, C12_split_strip conjuncts 1-2, C12_case_domain, C12_abbreviate_spec) restate a '
              'definition of the model or evaluate it on literals; what they say about the code is carried by the correspondence check.  '
              'C12_split_top + C12_split_maximal (= C12_split_characterised) do not determine the parts; C12_split_leftmost does '
              '(deterministic reference Spec.SplitsFirst + uniqueness), for the four separator shapes the package uses.')
