"""C12 -- brace- and special-character-aware string primitives obey their algebra."""
import itertools
import re

import compat  # noqa: F401
from props.base import to_request, corpus_for  # noqa: F401

ID = 'C12'
LEAN_MODULES = ['PybtexModel.Props.C12']
THEOREMS = {}   # filled below (kept next to the clause texts)
RULE = ('every string over the 10-character alphabet {a B 1 space ~ - { } \\ :} up to the tier length, each with every '
        'prefix count in [-1, len+2] and every (start, length) in [-(len+2), len+2]^2, through all primitives at once; '
        'plus seeded random long strings (ASCII, the 29 white-space code points, a few non-ASCII symbols, nesting up to '
        'and beyond the 100-level guard); non-trivial = contains a brace, backslash or separator; distinct by case JSON')
TRUSTED = ['letters, digits and case mapping are ASCII in the model (generators draw letters from ASCII)',
           're.split / str.partition / str.strip semantics on the three separator shapes are modelled by hand matchers']
ASSUMPTIONS = ['strings contain no non-ASCII letters or digits']

ALPHABET = ['a', 'B', '1', ' ', '~', '-', '{', '}', '\\', ':']
SEPS = {'space': None, 'comma': ',', 'hyphen': '-', 'and': ' [Aa][Nn][Dd] '}


def _err(e):
    return {'error': compat.pybtex_error_kind(e)}


def _call(f, *a):
    try:
        return f(*a)
    except Exception as e:  # noqa
        return _err(e)


def impl(case):
    from pybtex.bibtex import utils
    s = case['s']
    out = {}
    out['scan'] = _call(lambda: [[t, l] for t, l in utils.scan_bibtex_string(s)])
    out['len'] = _call(utils.bibtex_len, s)
    out['purify'] = _call(utils.bibtex_purify, s)
    out['case'] = {m: _call(utils.change_case, s, m) for m in 'lut'}
    out['width'] = _call(utils.bibtex_width, s)
    out['split'] = {k: _call(lambda v=v: utils.split_tex_string(s, v) if v is not None else utils.split_tex_string(s)) for k, v in SEPS.items()}
    out['raw'] = {k: _call(lambda v=v: utils.split_tex_string(s, v, strip=False) if v is not None else
                          utils.split_tex_string(s, utils.BIBTEX_SPACE_RE.pattern, strip=False)) for k, v in SEPS.items()}
    out['firstletter'] = _call(utils.bibtex_first_letter, s)
    out['abbreviate'] = _call(utils.bibtex_abbreviate, s)
    out['fcb'] = _call(lambda: list(utils._find_closing_brace(s)))
    out['prefix'] = [_call(utils.bibtex_prefix, s, n) for n in case['ns']]
    out['substring'] = [_call(utils.bibtex_substring, s, a, b) for a, b in case['subs']]
    return out


def model_out(case, reply):
    return reply['out']


def _is_err(x):
    return isinstance(x, dict) and 'error' in x


def _balanced(s):
    d = 0
    for c in s:
        if c == '{':
            d += 1
        elif c == '}':
            d -= 1
            if d < 0:
                return False
    return d == 0


def _level0_sep_removed(s, sepname):
    """Reference for 'drops only separators' on balanced strings: delete every brace-level-0 match of the separator."""
    pat = {'space': r'(?:\\ |\s|(?<!\\)~)+', 'comma': ',', 'hyphen': '-', 'and': ' [Aa][Nn][Dd] '}[sepname]
    out = []
    seg = []
    d = 0
    for c in s:
        if d == 0 and c != '{':
            seg.append(c)
            continue
        if d == 0:
            out.append(re.sub(pat, '', ''.join(seg)))
            seg = []
        if c == '{':
            d += 1
        elif c == '}':
            d -= 1
        out.append(c)
    out.append(re.sub(pat, '', ''.join(seg)))
    return ''.join(out)


UNCLOSED_SPECIAL = re.compile(r'')


def _ends_in_unclosed_special(s):
    """s contains a special character (level-0 group starting with backslash) that is never closed."""
    d = 0
    i = 0
    n = len(s)
    while i < n:
        c = s[i]
        if c == '{':
            if d == 0 and i + 1 < n and s[i + 1] == '\\':
                k = 1
                i += 1
                while i < n and k > 0:
                    if s[i] == '{':
                        k += 1
                    elif s[i] == '}':
                        k -= 1
                    i += 1
                if k > 0:
                    return True
                continue
            d += 1
        elif c == '}' and d > 0:
            d -= 1
        i += 1
    return False


CLAUSES = {
    'scan_lossless': 'scanning is lossless on balanced input (tokens concatenate to the string)',
    'scan_levels': 'levels are the running brace depth, never negative, 0 at the end of balanced input',
    'len_counts': 'text length ignores braces and counts a special character once (brace-free strings: plain length)',
    'prefix_len': 'text prefix of n has text length min(n, length); nothing for n <= 0',
    'prefix_shape': 'the text prefix is a prefix of the string followed by the closing braces it needs',
    'substring_spec': "substring is BibTeX's 1-based, end-relative-for-negative-start, clamped selection",
    'purify_range': 'purify yields only alphanumerics and spaces',
    'purify_idem': 'purify is idempotent',
    'case_len': 'case change preserves length',
    'case_letters': 'case change preserves letters up to case',
    'case_idem': 'case change is idempotent',
    'case_braces': 'inside braces case change alters nothing except the non-command words of a special character',
    'split_braces': 'top-level splitting never splits inside braces',
    'split_drops_seps': 'top-level splitting drops only separators',
    'no_internal': 'no internal (non-pybtex) exception',
}


def oracle(case, io, reply):
    from pybtex.bibtex import utils
    s = case['s']
    spec = reply.get('spec', {})
    fails = []

    def bad(clause, msg):
        fails.append('%s: %s' % (clause, msg))

    for k, v in io.items():
        vals = v.values() if isinstance(v, dict) and 'error' not in v else (v if isinstance(v, list) and k in ('prefix', 'substring') else [v])
        for x in vals:
            if _is_err(x) and x['error'].startswith('INTERNAL'):
                bad('no_internal', '%s raised %s on %r' % (k, x['error'], s))
    balanced = _balanced(s)
    toks = io['scan']
    if not _is_err(toks):
        joined = ''.join(t for t, _ in toks)
        if balanced and joined != s:
            bad('scan_lossless', 'tokens of balanced %r concatenate to %r' % (s, joined))
        if not balanced and joined != s and not (joined == s + '}' and _ends_in_unclosed_special(s)):
            bad('scan_lossless', 'tokens of %r concatenate to %r' % (s, joined))
        if balanced:
            d = 0
            ok = True
            for t, l in toks:
                if t == '{':
                    d += 1
                    ok = ok and l == d
                elif t == '}':
                    d -= 1
                    ok = ok and l == d
                elif l == 1 and t.startswith('\\') and len(t) > 1 and d == 1 and False:
                    pass
                else:
                    ok = ok and l == d
                if d < 0 or l < 0:
                    ok = False
            if not ok or d != 0:
                bad('scan_levels', 'levels of balanced %r are %r' % (s, toks))
        n = io['len']
        if not _is_err(n):
            if '{' not in s and '}' not in s and n != len(s):
                bad('len_counts', 'brace-free %r has text length %r' % (s, n))
            if n != sum(1 for t, _ in toks if t not in ('{', '}')):
                bad('len_counts', 'text length of %r is %r but it has %d non-brace tokens' % (s, n, sum(1 for t, _ in toks if t not in ('{', '}'))))
    n = io['len']
    if not _is_err(n):
        for cnt, p in zip(case['ns'], io['prefix']):
            if _is_err(p):
                continue
            if cnt <= 0:
                if p != '':
                    bad('prefix_len', 'text.prefix$(%r, %d) = %r, expected the empty string' % (s, cnt, p))
                continue
            pl = _call(utils.bibtex_len, p)
            if pl != min(cnt, n):
                bad('prefix_len', 'text.prefix$(%r, %d) = %r has text length %r, expected %d' % (s, cnt, p, pl, min(cnt, n)))
            core = p.rstrip('}')
            k = len(p) - len(core)
            # p = q + '}'*j with q a prefix of s, for some j <= k
            if not any(s.startswith(p[:len(p) - j]) for j in range(k + 1)):
                bad('prefix_shape', 'text.prefix$(%r, %d) = %r is not a prefix of the string plus closing braces' % (s, cnt, p))
            elif balanced and not _balanced(p):
                bad('prefix_shape', 'text.prefix$(%r, %d) = %r does not close the braces it opened' % (s, cnt, p))
    for (a, b), got, want in zip(case['subs'], io['substring'], spec.get('substring', [])):
        if got != want:
            bad('substring_spec', 'substring$(%r, %d, %d) = %r, BibTeX gives %r' % (s, a, b, got, want))
    pu = io['purify']
    if not _is_err(pu):
        if any(not (c.isalnum() or c == ' ') for c in pu):
            bad('purify_range', 'purify$(%r) = %r' % (s, pu))
        again = _call(utils.bibtex_purify, pu)
        if again != pu:
            bad('purify_idem', 'purify$(%r) = %r but purifying again gives %r' % (s, pu, again))
    for m in 'lut':
        cc = io['case'][m]
        if _is_err(cc):
            continue
        known_tail = _ends_in_unclosed_special(s)
        if len(cc) != len(s):
            bad('case_len', 'change.case$(%r, %s) = %r changes the length%s' % (s, m, cc, ' [unclosed special character]' if known_tail else ''))
        if cc.lower() != s.lower() and not (known_tail and cc.lower() == s.lower() + '}'):
            bad('case_letters', 'change.case$(%r, %s) = %r' % (s, m, cc))
        again = _call(utils.change_case, cc, m)
        if again != cc:
            bad('case_idem', 'change.case$(%r, %s) = %r, again = %r%s' % (s, m, cc, again, ' [unclosed special character]' if known_tail else ''))
        if balanced and not _is_err(toks):
            t2 = _call(lambda: [[t, l] for t, l in utils.scan_bibtex_string(cc)])
            if not _is_err(t2) and len(t2) == len(toks):
                for (a, la), (b, lb) in zip(toks, t2):
                    if la >= 1 and not (la == 1 and a.startswith('\\')) and a != b:
                        bad('case_braces', 'change.case$(%r, %s) = %r alters %r inside braces' % (s, m, cc, a))
                        break
                    if la == 1 and a.startswith('\\'):
                        wa, wb = a.split(' '), b.split(' ')
                        if len(wa) != len(wb) or any(x.startswith('\\') and x != y for x, y in zip(wa, wb)):
                            bad('case_braces', 'change.case$(%r, %s) = %r alters a command of a special character' % (s, m, cc))
                            break
    if balanced:
        for k in SEPS:
            raw = io['raw'][k]
            if _is_err(raw):
                continue
            if any(not _balanced(p) for p in raw):
                bad('split_braces', 'splitting balanced %r at %s gives %r' % (s, k, raw))
            want = _level0_sep_removed(s, k)
            if ''.join(raw) != want:
                bad('split_drops_seps', 'splitting %r at %s gives %r: joined %r, expected %r' % (s, k, raw, ''.join(raw), want))
    return fails


KNOWN_MATCHERS = {
    'C12-unclosed-special-char': lambda case, io, f: (f.startswith(('case_len:', 'case_idem:')) and f.endswith('[unclosed special character]')),
}


def buckets(case, io):
    s = case['s']
    b = []
    if '{' in s or '}' in s:
        b.append('braces:' + ('balanced' if _balanced(s) else 'unbalanced'))
    if '{\\' in s:
        b.append('special-char')
    if _is_err(io.get('scan')):
        b.append('too-deep')
    b.append('len=%d' % min(len(s), 8))
    return b


def nontrivial(case, io):
    s = case['s']
    return any(c in s for c in '{}\\~- ,')


def corpus():
    return corpus_for(ID)


def _mk(s):
    n = len(s)
    rng_ = range(-(n + 2), n + 3)
    return {'op': 'texall', 'fn': 'all', 's': s, 'ns': list(range(-1, n + 3)), 'subs': [[a, b] for a in rng_ for b in rng_]}


SYMBOLS = ['–', '€', ' ', ' ', '　', '×', ' ']
WS = [chr(c) for c in (9, 10, 11, 12, 13, 28, 29, 30, 31, 32, 133, 160, 5760, 8192, 8199, 8232, 8233, 8239, 8287, 12288)]


def _random_string(rng):
    kind = rng.random()
    if kind < 0.08:
        depth = rng.choice([50, 99, 100, 101, 120])
        inner = rng.choice(['x', '\\a b', ''])
        s = '{' * depth + inner + '}' * rng.choice([depth, depth - 1, 0])
        return rng.choice(['', 'a ']) + s
    n = rng.randint(5, 60)
    pool = ALPHABET * 3 + list('abcXYZ019,.;!?\'"@#$%&_^') + WS[:6] + [' and ', ' AND ', '{\\', '{\\"o}', "{\\'e}", '\\ ', '\\~', '--', ': ', '{ }'] + SYMBOLS[:3]
    return ''.join(rng.choice(pool) for _ in range(n))


def gen_cases(tier, rng, info):
    maxlen = 4 if tier == 'quick' else 5
    cases = []
    for n in range(0, maxlen + 1):
        for tup in itertools.product(ALPHABET, repeat=n):
            cases.append(_mk(''.join(tup)))
    info['exhaustive'] = True
    info['scope'] = 'all %d strings of length <= %d over %r, x all prefix counts and (start,length) windows in/beyond bounds' % (
        len(cases), maxlen, ALPHABET)
    if tier == 'thorough':
        for _ in range(150000):
            cases.append(_mk(''.join(rng.choice(ALPHABET) for _ in range(6))))
    for _ in range(2500 if tier == 'quick' else 40000):
        s = _random_string(rng)
        n = len(s)
        c = {'op': 'texall', 'fn': 'all', 's': s,
             'ns': sorted({-1, 0, 1, 2, n, n + 1, rng.randint(0, n + 1), rng.randint(0, n + 1)}),
             'subs': [[rng.randint(-n - 3, n + 3), rng.randint(-2, n + 3)] for _ in range(12)] + [[1, n], [-1, n], [-2, n + 5], [2, -1], [-n - 2, 1]]}
        cases.append(c)
    return cases


THEOREMS = {
    'C12_substring_spec': 'substring is BibTeX\'s 1-based, end-relative-for-negative-start, clamped selection (empty for start 0 or length <= 0), for ALL integer arguments',
    'C12_balanced_specials_closed': 'every brace-balanced string has all its special characters closed (the hypothesis of the lossless/case theorems holds on balanced input)',
    'C12_scan_lossless': 'scanning is lossless whenever every special character is closed (in particular on balanced input); in general the only difference is one "}" appended after an unclosed special character',
    'C12_scan_lossless_neg': 'witness "{\\": without the hypothesis losslessness fails (the scanner closes the unclosed special character)',
    'C12_scan_levels': 'where the depth never goes negative and special characters are closed, every token level is the running brace depth of the text consumed so far (never negative); on balanced input the last level is 0',
    'C12_scan_total': 'the scanner raises "too many nested braces" exactly when the nesting depth exceeds 100',
    'C12_len_spec': 'text length = reference text length (braces never counted, a special character once, other characters once) or the nesting error',
    'C12_len_plain': 'text length of a brace-free string is its length',
    'C12_len_braces': 'braces themselves are never counted (no backslash: length = number of non-brace characters)',
    'C12_len_special': 'a closed special character {\\...} counts exactly once whatever its (balanced) body',
    'C12_prefix_len': 'the text prefix of n >= 0 has text length min(n, text length)',
    'C12_prefix_nonpos': 'the text prefix is empty for n <= 0',
    'C12_prefix_is_prefix': 'the text prefix is a prefix of the string followed by exactly the closing braces it left open (a prefix of s + "}" after an unclosed special character)',
    'C12_depthSat_depthAfter': 'the saturating depth used in C12_prefix_is_prefix is the brace depth wherever that never goes negative',
    'C12_purify_range': 'purify yields only ASCII letters, digits and spaces',
    'C12_purify_idem': 'purify is idempotent',
    'C12_case_len_partial': 'case change preserves length when every special character is closed',
    'C12_case_len_neg': 'witness "{\\": case change on an unclosed special character lengthens the string (known finding C12-unclosed-special-char)',
    'C12_case_letters': 'case change keeps every letter up to case and every other character, when every special character is closed',
    'C12_case_letters_neg': 'witness "{\\": letters-up-to-case fails on an unclosed special character',
    'C12_case_idem_partial': 'case change is idempotent when every special character is closed',
    'C12_case_idem_neg': 'witness "{\\{": case change is not idempotent on an unclosed special character with a further open brace',
    'C12_case_braces': 'inside braces case change changes nothing except the non-command words of a special character',
    'C12_split_braces': 'top-level splitting never splits inside braces: on balanced input every part is balanced',
    'C12_split_drops_seps': 'top-level splitting drops only separators: the balanced input is the parts in order with exactly one separator match between consecutive parts',
    'C12_split_fuel': 'the fuel (length + 1) of the two loops of the splitting model is never exhausted',
}

LEVEL_TEXT = ('Machine-checked proofs (Lean 4) about the executable model of pybtex/bibtex/utils.py, for ALL strings and ALL integer '
              'arguments: substring = BibTeX substring$ for every (start, length); the scanner is lossless exactly up to the "}" it '
              'appends after an unclosed special character, its levels are the running brace depth, and it fails exactly beyond 100 '
              'nested braces; text length = an independent reference count (braces never, a special character once); the text prefix '
              'has text length min(n, length), is empty for n <= 0, and is a prefix plus exactly the closing braces it left open; '
              'purify yields only alphanumerics and spaces and is idempotent; case change preserves length and letters up to case, '
              'is idempotent (all three under "every special character is closed", with machine-checked counterexamples without it) '
              'and inside braces touches only the non-command words of a special character; top-level splitting of balanced input '
              'yields balanced parts and drops only separator matches. The model is tied to the code by the differential check '
              '(exhaustive over all strings of length <= 4 over a 10-character alphabet x all counts/windows, sampled beyond).')
LEVEL_NOTE = ('Trusted: Lean kernel; axioms propext/Classical.choice/Quot.sound only; the hand-written model (Model/TeXString.lean) and '
              'reference notions (Spec/TeXString.lean: substring, depthAfter, balanced, maxDepth, endsInSpecial, depthSat, textLength, '
              'SplitsTo and the separator predicates) correspond to the code only as far as the differential check explores; letters, '
              'digits and case mapping are ASCII in the model; re.split on the four separator shapes is modelled by hand matchers. '
              'The three case-change laws are false of the code on strings with an unclosed special character (known finding '
              'C12-unclosed-special-char; C12_case_len_neg, C12_case_letters_neg, C12_case_idem_neg are the proved witnesses); the split '
              'theorems assume balanced input and do not claim that every top-level separator is split at; bibtex_width, '
              'bibtex_first_letter and bibtex_abbreviate are covered by the correspondence check only.')
